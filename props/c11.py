"""C11 - k-d tree: construction terminates, leaves partition the points, kNN and radius queries are exact."""
import gc
import math
import os
import random
import numbers
import sys
import types
import numpy as np
from hypothesis import strategies as st
from vlib.runner import SubCheck

PROPERTY = "C11"
RULE = ("Generated point arrays N in [0,80], d in [1,4] of six kinds (uniform floats, small-integer lattices with many "
        "duplicates, clusters with exact duplicates, collinear sets, all-identical sets, sets where more than half of the points "
        "share the maximum on one/all axes), then placed: array dtype float64/float32/float16/int8/uint8/int16/int32/int64 "
        "(coordinates realised exactly as stored), uniform scale 1e-8..1e6, optional translation 10^1..10^8 times the cloud "
        "size (integer lattices: up to the dtype's range) x leaf size 1-8 (sometimes 10-100) x strategy balanced/fast/random "
        "in any capitalisation (numpy.random seeded from the case) x 1-4 queries ON THE SAME TREE (query point on a data "
        "point / inside / outside the bounding box / midpoint of two data points / one of those perturbed by 1e-5..1e-10 of "
        "the coordinate magnitude, given as Vec/ndarray/list/tuple; k in [1,N+3] or far above N, int or numpy integer; radius "
        ">=0 incl. 0, the exact distance to a data point and that distance +-1e-5..1e-10 of the magnitude, given as "
        "float/np.float64/np.float32/int). The build runs under a split counter (termination certificate), the leaves are "
        "compared with range(N), every kNN and radius answer with a brute-force scan of the stored values (integer arithmetic "
        "when all coordinates are dyadic, else 1e-12 x coordinate magnitude); after every call the caller's point array, "
        "tree.points and the query object must be unchanged; for a third of the queries the returned list is overwritten and "
        "the call repeated; one case in eight starts with a query of the wrong dimension. Object histories: in two thirds of "
        "the cases ONE query buffer (ndarray / list / Vec) is overwritten in place for every query, half of the queries keep "
        "the k and r of the previous one; a third of the cases build a 2nd/3rd tree on the same rows in another order after "
        "dropping the previous tree (new array, or the caller's array overwritten in place) or next to it (then the first "
        "tree is queried again); copy / deepcopy / pickle clones of the tree answer the same queries; k up to 2**64, "
        "r up to 1e300, r within 1e-5..1e-9 relative of a point distance, integer-typed query positions. "
        "Termination is decided by a deterministic STEP BUDGET, in every sub-check, for the constructor and for every query / "
        "query_radius call: the library's own Python code runs under a step counter (sys.monitoring; a step = a call made - to "
        "Python or compiled code - or a jump, i.e. a loop iteration, also of a one-line loop or a comprehension, in "
        "mouette/spatial/kdtree.py, or a loop iteration in any other file of the mouette package; numpy and harness code are not "
        "counted) and the call is aborted with the violation 'build:step-budget' / 'knn:step-budget' / 'radius:step-budget' once "
        "it has executed more than 3500*W steps (build), 2000*W (kNN query), 1500*W (radius query), where W = N + "
        "2*max(0, N - leaf size) + 3 bounds the number of points plus tree nodes. Measured maxima on the unchanged library over "
        "the quick tier at seeds 1-4 and a 0.1-scaled thorough run (all strategies with their seeded random choices, d<=4, "
        "leaf size >=1, N up to 65537): 13.5, 8.0 and 5.7 steps per unit of W - the budgets are at least 250 times that; a call "
        "that uses more than 1/200 of its budget is labelled '<call>-steps>budget/200' (expected: never), more than 1/1000 "
        "'<call>-steps>budget/1000'. Labelled classes where an oversized node cannot be separated along its split axis: "
        "'axis-constant-over-cloud>leaf' (some coordinate is the same for all N > leaf points), 'point-repeated>leaf-times' "
        "(one position occurs more often than the leaf size), and 'degenerate-node&strategy=<s>' for either of them under each "
        "strategy (lattice / collinear / identical / maxheavy kinds, d=1 and leaf size 1 included). "
        "Sub-checks: 'queries', 'build' "
        "(step budget + termination certificate + leaf partition only; a build with a divergence certificate is discarded in "
        "'queries', a build over its step budget is reported where it occurs), 'large' (seed-generated "
        "clouds of 100-400, 255/256/257/511/512/513 or 1000-5000 points, leaf sizes up to 100, same oracles), 'huge' (65535 / "
        "65536 / 65537 points). non-trivial = N > leaf size (the tree has an inner node) and, "
        "for queries, some query has k>1 or r>0; distinct = distinct realised (points, dtype, parameters, queries).")
ASSUMPTIONS = ["coordinates are finite, of magnitude <= 1e14 (float16 arrays <= 2e4) - no overflow/underflow of squared "
               "distances is probed; query points and radii are float64 values (radii possibly passed as np.float32 objects "
               "holding exactly that value)",
               "the expected answer is defined on the values actually stored in the array (a float32 array holds float32 "
               "values) and the query point exactly as given in double precision",
               "point arrays have shape (N,d) with d>=1 (N=0 is given as an empty (0,d) array)",
               "max_leaf_size >= 1, k >= 1, 0 <= r < inf",
               "termination: a non-terminating call is reported (a) with a divergence certificate (a no-progress split "
               "of the same index set on the same axis repeats under a pivot rule that is deterministic for that set; "
               "only when the step counter is unavailable, exhausting 200*(N+10) splits without certificate is counted "
               "as discarded 'inconclusive-budget'), or (b) when "
               "it exceeds its step budget. The step budget is a count of executed library steps, NOT a time limit: it does "
               "not depend on the machine or its load, numpy.random is seeded from the case, so a replay counts the same "
               "steps and gives the same verdict. It is sound because a correct build performs at most max(0, N-leaf) "
               "successful splits and, per node, at most d attempts with O(1) expected pivot draws, each a constant number of "
               "vectorised calls, and a correct query visits each of the <= 2*max(0, N-leaf)+1 nodes and each point at most "
               "once with the O(log N) heap work done in compiled code: O(W) steps, W = N + 2*max(0, N-leaf) + 3 (the present "
               "code cannot need more than about 60 per unit even if every node retried all d <= 4 axes; the maxima measured "
               "are 13.5 / 8.0 / 5.7). The budgets of 3500 / 2000 / 1500 steps per unit leave a factor >= 250 over everything "
               "measured and still admit any re-implementation that spends up to a thousand Python-level calls or loop "
               "iterations per point (e.g. pure-Python loops over the points on each of O(log N) levels); an implementation "
               "needing more than that is assumed not to exist for N <= 65537, d <= 4",
               "loops that spin inside compiled code (numpy) or in Python code outside the mouette package execute no counted "
               "step: they end in the runner's watchdog and are only counted as inconclusive; if sys.monitoring is "
               "unavailable (Python < 3.12, tool id 4 taken) the calls run uncounted and are labelled "
               "'step-counter-unavailable'"]

KINDS = ["uniform", "lattice", "cluster", "collinear", "identical", "maxheavy"]
KIND_WEIGHTS = ["uniform"] * 3 + ["lattice"] * 3 + ["cluster"] * 2 + ["collinear"] * 2 + ["identical"] + ["maxheavy"] * 2
REL_TOL = 1e-12


# ------------------------------------------------------------------------------------------ generators
class HypSrc:
    """choices drawn from Hypothesis (small cases: shrinkable)"""
    def __init__(self, draw):
        self.draw = draw

    def integer(self, lo, hi):
        return self.draw(st.integers(lo, hi))

    def real(self, lo, hi):
        if not hi > lo:
            return float(lo)
        return self.draw(st.floats(min_value=float(lo), max_value=float(hi), allow_nan=False, allow_infinity=False))

    def choice(self, seq):
        return self.draw(st.sampled_from(list(seq)))

    def boolean(self):
        return self.draw(st.booleans())


class RndSrc:
    """choices from a seeded generator (large clouds: thousands of Hypothesis draws would overrun its buffer)"""
    def __init__(self, seed):
        self.r = random.Random(seed)

    def integer(self, lo, hi):
        return self.r.randint(lo, hi)

    def real(self, lo, hi):
        return self.r.uniform(lo, hi)

    def choice(self, seq):
        return self.r.choice(list(seq))

    def boolean(self):
        return self.r.random() < 0.5


def _fl(S):
    return st.floats(min_value=-S, max_value=S, allow_nan=False, allow_infinity=False, width=64)


def _is_int_array(pts):
    return all(float(x) == int(x) for p in pts for x in p)


NP_DTYPES = {"float64": np.float64, "float32": np.float32, "float16": np.float16, "int8": np.int8, "uint8": np.uint8,
             "int16": np.int16, "int32": np.int32, "int64": np.int64}
INT_KIND_DTYPES = ["float64"] * 3 + ["int64", "int64", "int32", "int16", "int8", "uint8", "float32", "float16"]
FLOAT_KIND_DTYPES = ["float64"] * 4 + ["float32"] * 2 + ["float16"]


def place(src, pts, d, integral):
    """Second generation stage: choose the array dtype, a uniform scale and a translation (cloud far from the origin
    compared with its size) and realise the coordinates *as stored in that dtype*. Returns (pts, dtype name, tags)."""
    tags = []
    N = len(pts)
    if integral:
        dtype = src.choice(INT_KIND_DTYPES)
        maxabs = max([0] + [abs(int(x)) for p in pts for x in p])
        lim = {"int8": 127, "uint8": 255, "int16": 32767, "int32": 2 * 10 ** 9, "int64": 10 ** 12, "float64": 10 ** 12,
               "float32": 2 ** 24, "float16": 2048}[dtype]
        if maxabs * 2 > lim:                     # cannot happen with the shapes below; keep the case valid anyway
            dtype, lim = "int64", 10 ** 12
        far = dtype == "uint8" or src.integer(0, 2) == 0
        off = [0] * d
        if far:
            tags.append("far-from-origin")
            for a in range(d):
                if dtype == "uint8":
                    off[a] = src.integer(maxabs, lim - maxabs)
                else:
                    L = lim - maxabs
                    off[a] = src.integer(L // 2, L) * (1 if src.boolean() else -1)
        out = [[int(p[a]) + off[a] for a in range(d)] for p in pts]
        arr = np.array(out, dtype=NP_DTYPES[dtype]).reshape((N, d))
        assert arr.astype(object).tolist() == out or N == 0, "integer lattice not representable in " + dtype
        if dtype.startswith("float"):
            out = [[int(x) for x in p] for p in arr.astype(np.float64).tolist()]
        return out, dtype, tags
    dtype = src.choice(FLOAT_KIND_DTYPES)
    S = src.choice({"float64": [1.0, 1.0, 1e-8, 1e-3, 1e3, 1e6], "float32": [1.0, 1.0, 1e-8, 1e-3, 1e3, 1e6],
                    "float16": [1.0, 1e-3, 100.0]}[dtype])
    off = [0.0] * d
    if src.integer(0, 2) == 0:
        e = src.choice({"float64": [3, 4, 5, 6, 7, 8], "float32": [3, 3, 4, 5, 6], "float16": [1, 2]}[dtype])
        tags.append("far-from-origin")
        for a in range(d):
            off[a] = S * 10.0 ** e * src.real(0.5, 1.0) * (1 if src.boolean() else -1)
    if S != 1.0:
        tags.append(f"scale={S:g}")
    arr = np.array([[float(p[a]) * S + off[a] for a in range(d)] for p in pts], dtype=np.float64).reshape((N, d))
    arr = arr.astype(NP_DTYPES[dtype]).astype(np.float64)
    assert np.all(np.isfinite(arr)), "generator produced a non-finite coordinate"
    return arr.tolist(), dtype, tags


DY_LIMIT = 2.0 ** 44


def _dy(x):
    x = float(x)
    return abs(x) <= DY_LIMIT and x * 4 == int(x * 4)


def make_queries(src, pts, d, leaf, nq):
    """queries for a realised point list (python numbers = stored values)"""
    N = len(pts)
    dyadic = all(_dy(x) for p in pts for x in p)
    if N > 0:
        lo = [min(p[a] for p in pts) for a in range(d)]
        hi = [max(p[a] for p in pts) for a in range(d)]
    else:
        lo, hi = [-1] * d, [1] * d
    S = max([abs(float(x)) for x in lo + hi])          # coordinate magnitude
    ext = max(float(hi[a]) - float(lo[a]) for a in range(d))
    if not ext > 0:
        ext = S if S > 0 else 1.0
    if not S > 0:
        S = 1.0
    queries = []
    for _ in range(nq):
        kinds = ["on", "inside", "outside", "mid", "near-on", "near-mid"] if N > 0 else ["inside", "outside"]
        qkind = src.choice(kinds)
        if qkind in ("on", "near-on"):
            q = [float(x) for x in pts[src.integer(0, N - 1)]]
        elif qkind in ("mid", "near-mid"):
            p1, p2 = pts[src.integer(0, N - 1)], pts[src.integer(0, N - 1)]
            q = [(float(p1[a]) + float(p2[a])) / 2 for a in range(d)]
        else:
            if dyadic:
                q = [src.integer(2 * math.floor(lo[a]), 2 * math.ceil(hi[a])) / 2 for a in range(d)]
            else:
                q = [src.real(float(lo[a]), float(hi[a])) for a in range(d)]
            if qkind == "outside":
                for a in sorted({src.integer(0, d - 1) for _ in range(src.integer(1, d))}):
                    delta = src.integer(1, 8) / 2 if dyadic else src.real(0.0, ext)
                    q[a] = (float(hi[a]) + delta) if src.boolean() else (float(lo[a]) - delta)
        if qkind.startswith("near"):
            # a perturbation far above round-off of float64 but below single precision: a decisive near-tie
            eps = 10.0 ** -src.integer(5, 10) * src.choice([S, S, ext])
            u = [src.integer(-1, 1) for _ in range(d)]
            if not any(u):
                u[src.integer(0, d - 1)] = 1
            q = [q[a] + eps * u[a] for a in range(d)]
        q = [float(x) for x in q]
        km = src.integer(0, 9)
        if km <= 4:
            k = src.integer(1, N + 3)
        elif km <= 8:
            k = src.integer(1, min(N + 3, leaf + 3))
        else:
            k = src.choice([N + 50, 1000, 2 ** 53 + 1, 2 ** 64] + ([255, 256, 257, N - 1] if N >= 257 else []))
        q_dyadic = dyadic and all(_dy(x) for x in q)
        rk = src.choice(["zero", "free", "point", "point", "point-eps", "point-rel", "huge"] if N > 0 else ["zero", "free", "huge"])
        if rk == "zero":
            r = 0.0
        elif rk == "huge":
            r = src.choice([1e300, float(2 ** 53), 1e30])
        elif rk == "point-rel":
            # within 1e-5..1e-9 (relative to the radius itself) of the distance to a data point
            p = pts[src.integer(0, N - 1)]
            r = math.sqrt(math.fsum((q[a] - float(p[a])) ** 2 for a in range(d)))
            r = r * (1.0 + 10.0 ** -src.integer(5, 9) * (1 if src.boolean() else -1))
        elif rk in ("point", "point-eps"):
            p = pts[src.integer(0, N - 1)]
            if q_dyadic and rk == "point":
                D = sum((int(4 * q[a]) - int(4 * float(p[a]))) ** 2 for a in range(d))      # 16 * dist^2
                r = math.isqrt(D) / 4         # the exact distance when it is dyadic, else the dyadic just below it
            else:
                r = math.sqrt(math.fsum((q[a] - float(p[a])) ** 2 for a in range(d)))
                if rk == "point-eps":
                    r = max(0.0, r + 10.0 ** -src.integer(5, 10) * S * (1 if src.boolean() else -1))
                elif src.integer(0, 3) == 0:
                    r = math.nextafter(r, math.inf)
        else:
            if q_dyadic:
                r = src.integer(0, 4 * (2 * math.ceil(ext) + 4)) / 4
            else:
                r = src.real(0.0, 2.5 * ext * math.sqrt(d))
        rform = src.choice(["float", "float", "np64", "np32", "int"])
        if rform == "np32":
            r32 = float(np.float32(r))
            if math.isfinite(r32):
                r = r32
            else:
                rform = "float"
        if rform == "int" and not (float(r) == int(r) and abs(r) < 2 ** 53):
            rform = "float"
        kform = src.choice(["int", "int", "np"]) if k < 2 ** 62 else "int"
        qform = src.choice(["vec", "vec", "array", "list", "tuple"])
        if all(x == int(x) and abs(x) < 2 ** 53 for x in q) and src.integer(0, 3) == 0:
            qform = src.choice(["intlist", "intarray"])          # integer-valued positions given as integers
        same_kr = False
        if queries and src.boolean():
            # same k and r (value and form) as the previous query: only the position differs
            same_kr = True
            k, kform, r, rform, rk = (queries[-1][x] for x in ("k", "kform", "r", "rform", "rkind"))
        queries.append({"q": q, "k": int(k), "r": float(r), "qkind": qkind, "rkind": rk, "qform": qform, "kform": kform,
                        "rform": rform, "repeat": src.integer(0, 2) == 0, "same_kr": same_kr})
    return queries


def history_options(src, N, large=False):
    """how the objects are (re)used over the case: one query buffer overwritten in place for all queries, a second / third
    tree on the same number of points after dropping (or next to) the first one, clones of the tree"""
    rounds = src.choice([1, 1, 1, 1, 2, 2, 3]) if N > 0 else 1
    return {"buffer": src.choice([None, "array", "list", "vec"]),
            "rounds": rounds,
            "round_mode": src.choice(["drop", "drop-reuse-array", "keep"]),
            "clone": src.choice([None, None, None, None, "copy", "deepcopy", "pickle"])}


def spell(src, strategy):
    return {0: strategy, 1: strategy.upper(), 2: strategy.capitalize()}[src.choice([0, 0, 0, 0, 0, 1, 2])]


@st.composite
def kd_case(draw, with_queries=True):
    src = HypSrc(draw)
    kind = draw(st.sampled_from(KIND_WEIGHTS))
    d = draw(st.integers(1, 4))
    N = draw(st.one_of(st.integers(0, 12), st.integers(0, 80), st.integers(9, 80)))
    leaf = draw(st.integers(1, 8)) if draw(st.integers(0, 7)) else draw(st.sampled_from([10, 16, 50, 100]))
    strategy = spell(src, draw(st.sampled_from(["balanced", "fast", "random"])))
    if kind == "lattice":
        R = draw(st.sampled_from([1, 2, 3, 6]))
        pts = draw(st.lists(st.lists(st.integers(-R, R), min_size=d, max_size=d), min_size=N, max_size=N))
    elif kind == "uniform":
        pts = draw(st.lists(st.lists(_fl(1.0), min_size=d, max_size=d), min_size=N, max_size=N))
    elif kind == "cluster":
        nc = draw(st.integers(1, 4))
        centres = draw(st.lists(st.lists(_fl(0.9), min_size=d, max_size=d), min_size=nc, max_size=nc))
        pts = []
        for _ in range(N):
            c = centres[draw(st.integers(0, nc - 1))]
            if draw(st.integers(0, 2)) == 0:
                pts.append(list(c))                      # exact duplicate of the centre
            else:
                pts.append([c[a] + draw(_fl(1e-3)) for a in range(d)])
    elif kind == "collinear":
        base = draw(st.lists(st.integers(-3, 3), min_size=d, max_size=d))
        direc = draw(st.lists(st.integers(-2, 2), min_size=d, max_size=d))
        f = draw(st.sampled_from([1, 1, 0.5, 0.1, 1.0 / 3.0]))
        ts = draw(st.lists(st.integers(-6, 6), min_size=N, max_size=N))
        pts = [[(base[a] + t * direc[a]) * f for a in range(d)] for t in ts]
    elif kind == "identical":
        if draw(st.booleans()):
            p = draw(st.lists(st.integers(-3, 3), min_size=d, max_size=d))
        else:
            p = draw(st.lists(_fl(1.0), min_size=d, max_size=d))
        pts = [list(p) for _ in range(N)]
    else:  # maxheavy: more than half of the points carry the maximum on the chosen axes
        R = draw(st.sampled_from([1, 2, 3]))
        pts = draw(st.lists(st.lists(st.integers(-R, R), min_size=d, max_size=d), min_size=N, max_size=N))
        if draw(st.integers(0, 2)) > 0:
            axes = list(range(d))
        else:
            axes = sorted(set(draw(st.lists(st.integers(0, d - 1), min_size=1, max_size=d))))
        if N > 0:
            m = draw(st.integers(N // 2 + 1, N))
            off = draw(st.integers(0, N - 1))
            for i in range(m):
                for a in axes:
                    pts[(off + i) % N][a] = R
    pts, dtype, tags = place(src, pts, d, _is_int_array(pts))
    queries = make_queries(src, pts, d, leaf, draw(st.integers(1, 4))) if with_queries else []
    case = {"kind": kind, "d": d, "points": pts, "dtype": dtype, "tags": tags, "leaf": leaf, "strategy": strategy,
            "queries": queries, "bad_first": bool(with_queries and draw(st.integers(0, 7)) == 0)}
    case.update(history_options(src, N))
    return case


def realise_large(seed, N, d, kind, leaf, strategy, nq):
    src = RndSrc(seed)
    rs = np.random.RandomState(seed % (2 ** 32))
    if kind == "lattice":
        R = src.choice([2, 5, 20])
        pts = rs.randint(-R, R + 1, size=(N, d)).tolist()
    elif kind == "cluster":
        nc = src.integer(1, 6)
        C = rs.uniform(-0.9, 0.9, size=(nc, d))
        which = rs.randint(0, nc, size=N)
        noise = rs.normal(0, 1e-3, size=(N, d)) * (rs.randint(0, 3, size=(N, 1)) > 0)     # a third are exact duplicates
        pts = (C[which] + noise).tolist()
    else:
        pts = rs.uniform(-1, 1, size=(N, d)).tolist()
    pts, dtype, tags = place(src, pts, d, kind == "lattice")
    case = {"kind": kind, "d": d, "points": pts, "dtype": dtype, "tags": tags + ["large"], "leaf": leaf,
            "strategy": spell(src, strategy), "queries": make_queries(src, pts, d, leaf, nq), "bad_first": False}
    case.update(history_options(src, N))
    if N > 10000:
        case.update({"rounds": 1, "clone": None})
    return case


@st.composite
def large_case(draw):
    seed = draw(st.integers(0, 2 ** 32 - 1))
    N = draw(st.one_of(st.integers(100, 400), st.integers(1000, 5000), st.sampled_from([255, 256, 257, 511, 512, 513])))
    d = draw(st.sampled_from([1, 2, 2, 3, 3, 4]))
    kind = draw(st.sampled_from(["uniform", "uniform", "lattice", "cluster"]))
    leaf = draw(st.sampled_from([1, 3, 10, 10, 32, 33, 64, 100]))
    strategy = draw(st.sampled_from(["balanced", "fast", "fast", "random"]))
    return realise_large(seed, N, d, kind, leaf, strategy, draw(st.integers(2, 4)))


@st.composite
def huge_case(draw):
    """sizes around 2**16 (16-bit index / counter boundaries)"""
    seed = draw(st.integers(0, 2 ** 32 - 1))
    N = draw(st.sampled_from([65535, 65536, 65537]))
    d = draw(st.sampled_from([1, 2, 3]))
    kind = draw(st.sampled_from(["uniform", "lattice", "cluster"]))
    leaf = draw(st.sampled_from([10, 64]))
    strategy = draw(st.sampled_from(["balanced", "fast", "random"]))
    return realise_large(seed, N, d, kind, leaf, strategy, 2)


# ------------------------------------------------------------------------------------------ termination monitor
class Divergence(BaseException):
    """raised from inside the wrapped splitter to abort a build that provably never ends (BaseException: the library
    cannot swallow it)"""


class BudgetExhausted(BaseException):
    pass


class SplitMonitor:
    def __init__(self, points, strategy, budget):
        self.P = points
        self.strategy = strategy
        self.budget = budget
        self.steps = 0
        self.noprogress = 0
        self.seen = set()

    def deterministic_for(self, idx):
        """is the pivot of this index set independent of numpy.random?"""
        if self.strategy == "balanced":
            return True, "balanced pivot = median"
        if self.strategy == "fast" and len(idx) <= 50:
            return True, "fast pivot = median of a permutation of all (<=50) values"
        if len(idx) > 0 and bool(np.all(self.P[idx] == self.P[idx[0]])):
            return True, "all points of the node are identical (every pivot rule returns their common value)"
        return False, ""

    def observe(self, idx, axis, result):
        self.steps += 1
        try:
            _, less, more = result
            nl, nm = len(less), len(more)
        except Exception:
            return
        n = len(idx)
        if n > 0 and ((nl == n and nm == 0) or (nm == n and nl == 0)):
            self.noprogress += 1
            det, why = self.deterministic_for(idx)
            if det:
                key = (tuple(sorted(int(i) for i in idx)), int(axis))
                if key in self.seen:
                    raise Divergence(f"the {n} indices {list(key[0])[:12]}{'...' if n > 12 else ''} were split on axis {axis} a second "
                                     f"time with no change ({why}): the build repeats this state forever "
                                     f"(after {self.steps} splits)")
                self.seen.add(key)
        if self.steps > self.budget:
            raise BudgetExhausted()


_WATCHED = {}


def watched_class(KDTree):
    W = _WATCHED.get(KDTree)
    if W is None:
        class Watched(KDTree):
            _mon = None

            def _split_points(self, pt_idx, axis):
                res = KDTree._split_points(self, pt_idx, axis)
                if Watched._mon is not None:
                    Watched._mon.observe(np.asarray(pt_idx), axis, res)
                return res
        Watched.__module__, Watched.__qualname__ = __name__, "WatchedKDTree"     # importable by name: pickle round trips
        globals()["WatchedKDTree"] = Watched
        W = _WATCHED[KDTree] = Watched
    return W


# ------------------------------------------------------------------------------------------ deterministic step budget
class StepBudget(BaseException):
    """raised by the step counter from inside library code once a call has executed more steps than its budget
    (BaseException: the library cannot swallow it with `except Exception`; it is raised again at every further step)"""


# Steps allowed per unit of work W(N, leaf) = N + 2*max(0, N - leaf) + 3: every point is handled once, and a tree over N points
# with leaves of at most `leaf` points has at most max(0, N - leaf) inner nodes, hence at most 2*max(0, N - leaf) + 1 nodes.
# Measured on the unchanged library over the quick tier at VERIF_SEED=1..4 and a 0.1-scaled thorough run (86,000 builds, 325,000
# queries of each sort, every strategy with its seeded random choices, d <= 4, leaf size >= 1, N up to 65537): a build never
# needed more than 13.5 steps per unit (N=11, d=3, leaf size 1), a kNN query 8.0 (N=513, leaf size 1, k=256), a radius query 5.7
# (N=1099, d=4, leaf size 1). The budgets are >= 250x that.
STEPS_PER_UNIT = {"build": 3500, "knn": 2000, "radius": 1500}
STATED_MARGIN = 200
STEP_BUDGET_ON = True           # False: calls run uncounted (termination then rests on the split certificate + watchdog)


def work_units(N, leaf):
    return N + 2 * max(0, N - leaf) + 3


def step_budget(what, N, leaf):
    return STEPS_PER_UNIT[what] * work_units(N, leaf)


class StepCounter:
    """Counts *steps* of the library's own Python code with sys.monitoring (Python >= 3.12): a line event, a jump event (every
    loop iteration ends in one, also in a loop written on one line) or a function start in mouette/spatial/kdtree.py, and a
    jump event in any other file of the mouette package. Only those code objects are instrumented, so that harness, numpy and
    Hypothesis code run at full speed. The count is a function of the executed library code path alone (numpy.random is
    seeded from the case): no clock is involved and a replay counts the same steps."""
    TOOL = 4                    # a free, non-reserved tool id (Hypothesis' explain phase, not used here, takes 3)

    def __init__(self):
        self.cell = [0, math.inf]          # [steps of the current window, budget of the current window]
        self.state = None                  # None = not installed yet, True = counting, str = why it is unavailable
        self.n_codes = 0

    def _callbacks(self):
        cell = self.cell

        def on_jump(code, offset, destination):
            cell[0] += 1
            if cell[0] > cell[1]:
                raise StepBudget()

        def on_call(code, offset, callee, arg0):
            cell[0] += 1
            if cell[0] > cell[1]:
                raise StepBudget()
        return on_jump, on_call

    @staticmethod
    def library_codes(root):
        """every code object defined in a file under `root` that some live function uses (incl. nested ones)"""
        seen, out = set(), []

        def add(c):
            if c in seen or not c.co_filename.startswith(root):
                return
            seen.add(c)
            out.append(c)
            for k in c.co_consts:
                if isinstance(k, types.CodeType):
                    add(k)
        for o in gc.get_objects():
            if isinstance(o, types.FunctionType):
                add(o.__code__)
        return out

    def instrument(self, code, full):
        E = sys.monitoring.events
        sys.monitoring.set_local_events(self.TOOL, code, (E.JUMP | E.CALL) if full else E.JUMP)

    def install(self):
        if self.state is not None:
            return self.state is True
        mon = getattr(sys, "monitoring", None)
        if mon is None:
            self.state = "sys.monitoring needs Python >= 3.12"
            return False
        try:
            import mouette
            import mouette.spatial.kdtree as kd
            root = os.path.dirname(os.path.abspath(mouette.__file__)) + os.sep
            kdfile = os.path.abspath(kd.__file__)
            mon.use_tool_id(self.TOOL, "c11-step-counter")
            on_jump, on_call = self._callbacks()
            mon.register_callback(self.TOOL, mon.events.JUMP, on_jump)
            mon.register_callback(self.TOOL, mon.events.CALL, on_call)
            for c in self.library_codes(root):
                self.instrument(c, os.path.abspath(c.co_filename) == kdfile)
                self.n_codes += 1
            self.state = True
        except Exception as e:              # tool id taken, ...: the check then rests on the split certificate + watchdog
            self.state = f"{type(e).__name__}: {e}"
        return self.state is True


STEPS = StepCounter()


def budgeted_call(ctx, sig, N, leaf, what, f, *a):
    """ctx.call(sig, f, *a) under the step budget of `sig`; returns (ok, value). Exceeding the budget is the violation
    '<sig>:step-budget' - a count of executed library steps, not a time limit."""
    if not STEP_BUDGET_ON or not STEPS.install():
        ctx.label("step-counter-unavailable")
        return ctx.call(sig, f, *a)
    cell = STEPS.cell
    budget = step_budget(sig, N, leaf)
    cell[0], cell[1] = 0, budget
    try:
        ok, val = ctx.call(sig, f, *a)
    except StepBudget:
        cell[1] = math.inf
        ctx.fail(sig + ":step-budget", f"{what} had not finished after {cell[0]} steps of library code (calls made and loop iterations "
                 f"in mouette/spatial/kdtree.py + loop iterations elsewhere in mouette); the budget for N={N}, leaf size {leaf} is "
                 f"{STEPS_PER_UNIT[sig]}*(N+2*max(0,N-leaf)+3) = {budget}, more than {STATED_MARGIN}x what the unchanged library "
                 f"ever needed")
        return False, None
    finally:
        cell[1] = math.inf
    used = cell[0]
    if used * STATED_MARGIN > budget:
        ctx.label(sig + "-steps>budget/%d" % STATED_MARGIN)          # evidence against the stated margin: expected never
    elif used * 1000 > budget:
        ctx.label(sig + "-steps>budget/1000")
    return ok, val


# ------------------------------------------------------------------------------------------ brute force
def is_dyadic4(x):
    x = float(x)
    return abs(x) <= DY_LIMIT and x * 4 == int(x * 4)


def exact_d2(pts, q):
    """16 * squared distance, as Python ints (inputs are multiples of 1/4)"""
    q4 = [int(4 * float(x)) for x in q]
    return [sum((q4[a] - int(4 * float(p[a]))) ** 2 for a in range(len(q))) for p in pts]


def float_dist(pts, q):
    return [math.sqrt(math.fsum((float(p[a]) - q[a]) ** 2 for a in range(len(q)))) for p in pts]


def as_index_list(res, N):
    """validate that a query result is a flat sequence of integer indices in range; returns (list, error)"""
    if isinstance(res, np.ndarray):
        if res.ndim != 1:
            return None, f"result has shape {res.shape}"
        res = list(res)
    if not isinstance(res, (list, tuple)):
        return None, f"result is a {type(res).__name__}, not a list"
    out = []
    for x in res:
        if isinstance(x, (bool, np.bool_)) or not isinstance(x, (numbers.Integral, np.integer)):
            return None, f"entry {x!r} is not an integer index"
        if not (0 <= int(x) < N):
            return None, f"index {int(x)} out of range [0,{N})"
        out.append(int(x))
    return out, None


def self_test():
    assert exact_d2([[3, 4], [0.5, 0]], [0, 0]) == [16 * 25, 4]
    assert abs(float_dist([[3, 4]], [0.0, 0.0])[0] - 5.0) < 1e-15
    P = np.zeros((3, 2))
    m = SplitMonitor(P, "random", 100)
    idx = np.arange(3)
    m.observe(idx, 0, (0.0, idx, idx[:0]))
    m.observe(idx, 1, (0.0, idx, idx[:0]))
    try:
        m.observe(idx, 0, (0.0, idx, idx[:0]))
        raise AssertionError("no certificate on a repeated identical-point split")
    except Divergence:
        pass
    P2 = np.array([[0.0, 0], [1, 1], [1, 1]])
    m = SplitMonitor(P2, "random", 100)
    for _ in range(5):
        m.observe(idx, 0, (1.0, idx, idx[:0]))      # random rule, points differ: never a certificate
    assert as_index_list([np.int64(1), 2], 3)[0] == [1, 2] and as_index_list([3], 3)[0] is None
    # the step counter sees every iteration of a loop, also of one written on a single line, and aborts a call over budget
    if STEPS.install():
        import mouette.spatial.kdtree as kd
        g = {}
        exec(compile("def spin(n):\n    i = 0\n    while i < n: i += 1\n    return i\n"
                     "def comp(n):\n    return [i for i in range(n) if i >= 0]\n", os.path.abspath(kd.__file__), "exec"), g)
        for f in (g["spin"], g["comp"]):
            STEPS.instrument(f.__code__, True)
            STEPS.cell[0], STEPS.cell[1] = 0, math.inf
            f(500)
            assert 499 <= STEPS.cell[0] <= 2000, f"step counter counted {STEPS.cell[0]} steps for 500 loop iterations"
            STEPS.cell[0], STEPS.cell[1] = 0, 100
            try:
                f(500)
                raise AssertionError("no StepBudget for a loop over its budget")
            except StepBudget:
                assert STEPS.cell[0] == 101
            finally:
                STEPS.cell[1] = math.inf
        from mouette.spatial import KDTree
        STEPS.cell[0] = 0
        KDTree(np.arange(40.0).reshape((20, 2)), 2, "balanced").query(np.zeros(2), 3)
        assert 50 < STEPS.cell[0] < step_budget("build", 20, 2) // STATED_MARGIN, f"{STEPS.cell[0]} steps for a 20-point tree"
    # the generators realise coordinates exactly as the chosen dtype stores them
    c = realise_large(5, 120, 2, "uniform", 10, "fast", 2)
    A = np.array(c["points"], dtype=NP_DTYPES[c["dtype"]])
    assert A.astype(np.float64).tolist() == np.array(c["points"], dtype=np.float64).tolist()


# ------------------------------------------------------------------------------------------ the check
def fn_build(case, ctx):
    run_case(case, ctx, "build")


def fn_queries(case, ctx):
    run_case(case, ctx, "queries")


def knn_oracle(ctx, res, idx_D, k, N, exact, tol, where):
    """idx_D: brute-force distances (16*d^2 ints when exact, floats otherwise) of every point"""
    D = idx_D
    idx, err = as_index_list(res, N)
    if not ctx.check(err is None, "knn:type", f"{where} k={k}: {err}; result {res!r}"):
        return
    want = min(k, N)
    good = ctx.check(len(idx) == want, "knn:count", f"{where} k={k}: {len(idx)} indices returned, expected min(k,N)={want}; "
                     f"result {idx[:40]}")
    good = ctx.check(len(set(idx)) == len(idx), "knn:distinct", f"{where} k={k}: repeated index in {idx[:40]}") and good
    got = [D[i] for i in idx]
    slack = 0 if exact else tol
    unit = "16*d^2" if exact else "distances"
    bad = [j for j in range(len(got) - 1) if not got[j] <= got[j + 1] + slack]
    ctx.check(not bad, "knn:order", f"{where} k={k}: {unit} not non-decreasing at position {bad[:1]}: "
              f"{got[max(0, bad[0] - 1):bad[0] + 3] if bad else ''} (indices {idx[:40]})")
    best = sorted(D)[:len(idx)] if good else sorted(D)[:want]
    sg = sorted(got)
    same = len(sg) == len(best) and all((a == b) if exact else (abs(a - b) <= tol) for a, b in zip(sg, best))
    if not same:
        j = next((j for j, (a, b) in enumerate(zip(sg, best)) if (a != b if exact else abs(a - b) > tol)), None)
        ctx.check(False, "knn:nearest", f"{where} k={k}: returned {idx[:40]}; sorted {unit} differ from the {len(best)} smallest "
                  f"at rank {j}: returned {sg[j] if j is not None else None!r}, brute force {best[j] if j is not None else None!r}")
    else:
        ctx.check(True, "knn:nearest")


def radius_oracle(ctx, res, D, r, N, exact, tol, where):
    idx, err = as_index_list(res, N)
    if not ctx.check(err is None, "radius:type", f"{where} r={r}: {err}; result {res!r}"):
        return
    ctx.check(len(set(idx)) == len(idx), "radius:distinct", f"{where} r={r}: repeated index in {sorted(idx)[:40]}")
    got = set(idx)
    if exact:
        r2 = int(4 * r) ** 2
        exp = {i for i in range(N) if D[i] <= r2}
        if any(D[i] == r2 for i in range(N)):
            ctx.label("point-exactly-on-sphere")
        ctx.check(got == exp, "radius:set", f"{where} r={r}: missing {sorted(exp - got)[:10]} extra {sorted(got - exp)[:10]} "
                  f"(16*d^2 of those: {[D[i] for i in sorted(exp ^ got)[:10]]}, 16*r^2={r2})")
    else:
        must = {i for i in range(N) if D[i] <= r - tol}
        may = {i for i in range(N) if r - tol < D[i] <= r + tol}       # exempt: within tol of the sphere
        ctx.check(must <= got and got <= (must | may), "radius:set",
                  f"{where} r={r!r}: missing {sorted(must - got)[:10]} extra {sorted(got - must - may)[:10]} "
                  f"(distances {[D[i] for i in sorted((must - got) | (got - must - may))[:10]]}, tol {tol:g})")
    if len(got) not in (0, N):
        ctx.label("radius-proper-subset")


def scribble(res):
    """what a caller may do with a list it was handed: overwrite and extend it"""
    if isinstance(res, list):
        for j in range(len(res)):
            res[j] = -7
        res.append(-1)
    elif isinstance(res, np.ndarray) and res.flags.writeable:
        res[...] = -7


def round_points(pts, rd):
    """the point set of the rd-th tree of a case: the same rows in another order (same shape, same dtype, other answers)"""
    N = len(pts)
    if rd == 0 or N == 0:
        return pts
    if rd == 1:
        return pts[::-1]
    s = max(1, N // 3)
    return pts[s:] + pts[:s]


def run_case(case, ctx, mode):
    import gc
    rounds = int(case.get("rounds", 1)) if mode == "queries" else 1
    rmode = case.get("round_mode", "drop")
    state = {"buffer": None, "P": None}
    first = None
    for rd in range(rounds):
        pts = round_points(case["points"], rd)
        if rd > 0:
            ctx.label(f"trees>={rd + 1}", "round-mode=" + rmode)
        R = one_round(case, ctx, mode, pts, rd, state, rmode)
        if R is None:
            return
        if rmode == "keep":
            if first is None:
                first = R
            else:
                # two trees alive: the first one still answers for its own points
                ctx.label("interleaved-trees")
                if not run_queries(case, ctx, first, state, " (first tree again, after another tree was built and queried)"):
                    return
        else:
            # drop the tree (freed at once by reference counting; a young-generation pass for good measure - a full
            # collection in a process that holds Hypothesis' data structures costs far more than the case itself)
            state["P"] = R["P"] if rmode == "drop-reuse-array" else None
            R = None
            if rd + 1 < rounds:
                gc.collect(0)


def one_round(case, ctx, mode, pts, rd, state, rmode):
    import copy, pickle
    from mouette.spatial import KDTree
    d, leaf, strategy = case["d"], case["leaf"], case["strategy"]
    N = len(pts)
    dtname = case.get("dtype") or ("int64" if case.get("int_dtype") else "float64")
    P0 = np.array(pts, dtype=NP_DTYPES[dtname]).reshape((N, d))
    if not np.array_equal(P0.astype(np.float64), np.array(pts, dtype=np.float64).reshape((N, d))):
        raise AssertionError(f"case coordinates are not representable in {dtname}")       # harness error: invalid case
    if state.get("P") is not None and state["P"].shape == P0.shape:
        P = state["P"]                  # the caller's array of the previous (dropped) tree, overwritten in place
        P[...] = P0
        ctx.label("point-array-overwritten-in-place")
    else:
        P = P0.copy()
    pts_dyadic = all(is_dyadic4(x) for p in pts for x in p)
    if rd == 0:
        distinct_pts = len({tuple(float(x) for x in p) for p in pts})
        ctx.label("kind=" + case["kind"], f"d={d}", "strategy=" + strategy.lower(), "dtype=" + dtname,
                  "leaf<=2" if leaf <= 2 else ("leaf<=8" if leaf <= 8 else ("leaf<=32" if leaf <= 32 else "leaf>32")))
        ctx.label(*[t for t in case.get("tags", [])])
        if strategy != strategy.lower():
            ctx.label("strategy-spelled-with-capitals")
        ctx.label("N=0" if N == 0 else ("N<=leaf" if N <= leaf else "inner-node"))
        if N >= 1000:
            ctx.label("N>=1000")
        if N in (255, 256, 257, 511, 512, 513, 65535, 65536, 65537):
            ctx.label(f"N={N}")
        if distinct_pts < N:
            ctx.label("duplicate-points")
        if N > leaf and distinct_pts == 1:
            ctx.label("identical>leaf")
        ctx.label("dyadic-points" if pts_dyadic else "float-points")
        # classes in which some oversized node cannot be separated along its split axis (the pivot rule sees equal values)
        degenerate = []
        if N > leaf and any(all(p[a] == pts[0][a] for p in pts) for a in range(d)):
            degenerate.append("axis-constant-over-cloud>leaf")
        mult = {}
        for p in pts:
            t = tuple(float(x) for x in p)
            mult[t] = mult.get(t, 0) + 1
        if N > 0 and max(mult.values()) > leaf:
            degenerate.append("point-repeated>leaf-times")
        ctx.label(*degenerate)
        if degenerate:
            ctx.label("degenerate-node&strategy=" + strategy.lower())

    # ---- build under the termination monitor
    W = watched_class(KDTree)
    # the split budget only matters without the step counter: with it, the step budget (>= 250x the need) is the authority
    mon = SplitMonitor(P0, strategy.lower(), math.inf if (STEP_BUDGET_ON and STEPS.install()) else 200 * (N + 10))
    W._mon = mon
    try:
        ok, tree = budgeted_call(ctx, "build", N, leaf, f"KDTree(N={N}, d={d}, max_leaf_size={leaf}, strategy={strategy!r}, "
                                 f"kind={case['kind']})", W, P, leaf, strategy)
    except Divergence as e:
        if mode == "queries":
            # reported by sub-check 'build'; without a tree there is nothing to query
            ctx.discard("queries: build diverges (see sub-check build)")
            return None
        ctx.fail("build:diverges", f"KDTree(N={N}, d={d}, max_leaf_size={leaf}, strategy={strategy!r}, kind={case['kind']}) "
                                   f"never terminates: {e}")
        return None
    except BudgetExhausted:
        ctx.label("budget-exhausted")
        ctx.discard("inconclusive-budget")
        return None
    finally:
        W._mon = None
    if not ok:
        return None
    if mode == "build":
        ctx.nontrivial(N > leaf)
    if mon.noprogress:
        ctx.label("noprogress-split-but-terminates")
    if N > leaf and mon.steps == 0:
        ctx.label("split-hook-not-called")      # termination then rests on the runner's watchdog only

    # ---- every index in exactly one leaf
    nodes = getattr(tree, "nodes", None)
    if not ctx.check(isinstance(nodes, list) and len(nodes) >= 1, "build:nodes", f"tree.nodes is {type(nodes).__name__} of length "
                     f"{len(nodes) if hasattr(nodes, '__len__') else '?'}"):
        return None
    count = [0] * N
    n_leaves = 0
    biggest = 0
    for nd in nodes:
        if isinstance(nd, KDTree.Leaf):
            n_leaves += 1
            lst, err = as_index_list(np.asarray(nd.points).ravel(), N)
            if not ctx.check(err is None, "build:leaf-content", f"leaf {nd.id}: {err}"):
                return None
            biggest = max(biggest, len(lst))
            for i in lst:
                count[i] += 1
    bad = [i for i in range(N) if count[i] != 1]
    if not ctx.check(not bad, "build:partition", f"N={N} leaf={leaf} strategy={strategy}: indices not in exactly one leaf "
                     f"(index: multiplicity) {[(i, count[i]) for i in bad[:10]]}"):
        return None
    ctx.check(n_leaves >= 1, "build:partition", "tree has no leaf")
    if biggest > 32 and n_leaves > 1:
        ctx.label("non-root-leaf>32-points")
    R = {"tree": tree, "P": P, "P0": P0, "pts": pts, "pts_dyadic": pts_dyadic, "dtname": dtname, "rd": rd}
    if not points_unchanged(ctx, R, "after construction"):
        return None
    if mode != "queries":
        return R

    # ---- a call that fails on a bad argument must not disturb the following ones
    if case.get("bad_first") and rd == 0:
        import mouette as M
        ctx.label("bad-call-first")
        for f, arg in ((tree.query, 1), (tree.query_radius, 1.0)):
            try:
                f(M.Vec([0.0] * (d + 1)), arg)
            except Exception:
                pass
        if not points_unchanged(ctx, R, "after a query with a point of the wrong dimension"):
            return None

    # ---- queries, all on the same tree object
    if not run_queries(case, ctx, R, state, "" if rd == 0 else f" (tree #{rd + 1} of the case: same rows in another order)"):
        return None

    # ---- a copy of the tree answers like the tree
    how = case.get("clone")
    if how and rd == 0:
        try:
            clone = {"copy": copy.copy, "deepcopy": copy.deepcopy, "pickle": lambda t: pickle.loads(pickle.dumps(t))}[how](tree)
        except Exception:
            ctx.label("clone-failed:" + how)       # copying protocols are not part of the property: not asserted
            clone = None
        if clone is not None:
            ctx.label("clone=" + how)
            R2 = dict(R, tree=clone)
            if not run_queries(case, ctx, R2, state, f" (on a {how} of the tree)"):
                return None
            if not run_queries(case, ctx, R, state, f" (on the original after querying its {how})"):
                return None
    return R


def points_unchanged(ctx, R, what):
    P, P0, tree = R["P"], R["P0"], R["tree"]
    ok1 = ctx.check(P.dtype == P0.dtype and np.array_equal(P, P0), "side-effect:input", f"{what}: the caller's point array was modified")
    tp = getattr(tree, "points", None)
    ok2 = ctx.check(isinstance(tp, np.ndarray) and tp.shape == P0.shape and np.array_equal(tp, P0), "side-effect:tree-points",
                    f"{what}: tree.points differs from the input")
    return ok1 and ok2


def run_queries(case, ctx, R, state, tag):
    """all queries of the case on one tree, each answer against brute force on R['pts']; False = stop the case"""
    import mouette as M
    tree, pts, P0, pts_dyadic, dtname = R["tree"], R["pts"], R["P0"], R["pts_dyadic"], R["dtname"]
    d, leaf, strategy = case["d"], case["leaf"], case["strategy"]
    N = len(pts)
    inner = N > leaf
    bufmode = case.get("buffer")
    maxabs = float(np.max(np.abs(P0.astype(np.float64)))) if N else 0.0
    for qi, Q in enumerate(case["queries"]):
        q, k, r = [float(x) for x in Q["q"]], int(Q["k"]), float(Q["r"])
        where = f"N={N} d={d} dtype={dtname} leaf={leaf} strategy={strategy} query#{qi}{tag} q={q}"
        q_exact = pts_dyadic and all(is_dyadic4(x) for x in q) and \
            all(abs(q[a] - float(p[a])) <= 2 ** 20 for p in pts for a in range(d))
        r_exact = q_exact and is_dyadic4(r) and r <= 2 ** 22
        scale = max([maxabs] + [abs(x) for x in q])
        tol = REL_TOL * scale
        qform, kform, rform = Q.get("qform", "vec"), Q.get("kform", "int"), Q.get("rform", "float")
        if bufmode:
            qform = bufmode
        if not tag:
            ctx.label("q-" + str(Q.get("qkind")), "r-" + str(Q.get("rkind")))
            ctx.label("knn-exact" if q_exact else "knn-tol", "radius-exact" if r_exact else "radius-tol")
            if k > N: ctx.label("k>N")
            elif k == N: ctx.label("k==N")
            if k > leaf: ctx.label("k>leaf")
            if k >= 2 ** 53: ctx.label("k>=2**53")
            if Q.get("same_kr"): ctx.label("same-k-and-r-as-previous-query")
            ctx.label("qform=" + qform + ("-buffer" if bufmode else ""), "rform=" + rform)
            if inner and (k > 1 or r > 0):
                ctx.nontrivial()
        if bufmode:
            # one query buffer per case, overwritten in place before every call (also across the trees of the case)
            buf = state.get("buffer")
            if buf is None:
                buf = state["buffer"] = {"array": lambda: np.zeros(d), "list": lambda: [0.0] * d,
                                         "vec": lambda: M.Vec(np.zeros(d))}[bufmode]()
            buf[:] = q
            qv = buf
        else:
            qv = {"vec": lambda: M.Vec(q), "array": lambda: np.array(q, dtype=np.float64), "list": lambda: list(q),
                  "tuple": lambda: tuple(q), "intlist": lambda: [int(x) for x in q],
                  "intarray": lambda: np.array([int(x) for x in q], dtype=np.int64)}[qform]()
        kv = np.int64(k) if kform == "np" else k
        rv = {"float": lambda: r, "np64": lambda: np.float64(r), "np32": lambda: np.float32(r), "int": lambda: int(r)}[rform]()
        if float(rv) != r:
            raise AssertionError(f"case radius {r!r} is not representable as {rform}")

        def q_unchanged(what):
            if qform in ("list", "tuple", "intlist"):
                same = type(qv) in (list, tuple) and list(qv) == q and all(type(x) is (int if qform == "intlist" else float) for x in qv)
            else:
                same = isinstance(qv, np.ndarray) and qv.dtype == (np.int64 if qform == "intarray" else np.float64) \
                    and qv.shape == (d,) and qv.tolist() == q
            return ctx.check(same, "side-effect:query-point", f"{where}: the query point object was modified by {what}: {qv!r}") \
                and points_unchanged(ctx, R, what)

        D_exact = exact_d2(pts, q) if q_exact else None
        D_float = float_dist(pts, q) if not (q_exact and r_exact) else None
        reps = 2 if Q.get("repeat") else 1
        if reps == 2 and not tag:
            ctx.label("repeated-after-overwriting-result")

        # kNN
        for rep in range(reps):
            ok, res = budgeted_call(ctx, "knn", N, leaf, f"{where}: query(k={k})", tree.query, qv, kv)
            if not ok:
                break
            knn_oracle(ctx, res, D_exact if q_exact else D_float, k, N, q_exact, tol, where + (" (repeated call)" if rep else ""))
            if not q_unchanged(f"query(k={k})"):
                return False
            scribble(res)

        # radius
        for rep in range(reps):
            ok, res = budgeted_call(ctx, "radius", N, leaf, f"{where}: query_radius(r={r!r})", tree.query_radius, qv, rv)
            if not ok:
                break
            radius_oracle(ctx, res, D_exact if r_exact else D_float, r, N, r_exact, tol, where + (" (repeated call)" if rep else ""))
            if not q_unchanged(f"query_radius(r={r})"):
                return False
            scribble(res)
    return True


SUBCHECKS = [
    SubCheck("queries", kd_case(True), fn_queries, quick=7000, thorough=24000),
    SubCheck("build", kd_case(False), fn_build, quick=3000, thorough=10000),
    SubCheck("large", large_case(), fn_queries, quick=16, thorough=60),
    SubCheck("huge", huge_case(), fn_queries, quick=8, thorough=2, watchdog=(90, 300)),
]

MATCHERS = {}
