"""C14 - procedural generators give valid meshes of the promised shape, for all parameters.

One sub-check per generator family, so that an open finding in one family cannot hide the others.
Every case is {"gen": <function name>, <integer / boolean parameters>, <realised real parameters>}.

What is asserted (per family, see the functions below):
  * type of the returned container (SurfaceMesh / VolumeMesh / PolyLine / PointCloud),
  * indices in range, faces with >=3 pairwise distinct vertices, no repeated face, no unused vertex,
  * consistently oriented manifold (reference validator vlib.topo.SurfRef, computed from the face list only),
  * topology of the named shape (Euler characteristic, number of border loops, number of components),
  * element counts = the formulas of the docstrings / of tests/test_procedural.py, also for unequal resolutions,
  * geometry: vertices on the named surface (1e-9 relative to the input scale), requested corners / end points / centres,
  * switches: triangulate => all triangles, volume => VolumeMesh holding the cell, colored / generate_uvs => attribute,
  * a ring's apex has the requested defect (its own corner-angle sum, 1e-5),
  * dual_mesh of a closed surface swaps |V| and |F|, keeps chi / components, is consistently oriented, face v = ring of v,
  * polyline builders give exactly the stated chains / segments,
  * history: each case makes two calls with the same argument objects and edits the first returned mesh in place in
    between; the second result must be as valid as the first, no argument (nor a shared default Vec or module-level
    constant / cache, observed through the second call) may be modified, and the two results must not share state,
  * call spelling: every call is made in one of three spellings of the documented signature (required arguments by position
    and optional ones by keyword / everything by position in the documented order / everything by keyword), optional
    parameters are left out so that the DOCUMENTED default applies (the oracle then expects the documented value), switches
    are passed as bool / numpy.bool_ / 0-1, reals as float / int / numpy.float64, resolutions as int / numpy.int32 / int64,
  * vector_field gets its arrays as ndarray / nested list / nested tuple / list of Vec, spherify_vertices also a list or
    tuple of Vec; chain_of_vertices / vector_field of an empty (0,3) array give the empty polyline,
  * dual_mesh / cylindrify_edges on an input mesh the caller has used before (attributes stored under their default names,
    connectivity queried), also when the caller moved the vertices afterwards: the result describes the mesh as it is now.

NOT asserted: outwardness of the orientation (undocumented, differs between generators; only sphere_fibonacci states it),
face order, which diagonal triangulates a quad, the colours themselves, `colored`/`triangulate` combined with
`volume=True` of `hexahedron` (faces are then produced by cell completion), positions of `dual_mesh(mode="circumcenter")`
(that is `geometry.circumcenter`, property C07), aliasing of the caller's point objects (C06/C12), inadmissible
parameters (periodic resolutions < 3, n_lat < 2, grids with a resolution < 2, fibonacci hull of < 4 points, a closed
chain of < 3 vertices, ring with N < 3, defects outside [0, 2pi-0.01]).
"""
import itertools
import math
from collections import Counter

import numpy as np
from hypothesis import strategies as st

from vlib.runner import SubCheck
from vlib import gen_surface as G
from vlib.topo import SurfRef, key
from vlib.build import surface_from, polyline_from, pointcloud_from

PROPERTY = "C14"
RULE = ("One sub-check per generator family of mouette.procedural (all 20 public functions). A case is a point of the family's "
        "integer / boolean lattice (resolutions 2..9, resp. 3..9 in periodic directions, incl. every unequal pair and the "
        "minimum; N; n_cover; n_refine 0..3; n_pts 1..40; every combination of the boolean switches; axis class of a cylinder; "
        "input form of the transformations; explicit / defaulted optional arguments) plus realised real parameters (radii, "
        "centres, corner / end points, defects, length factors: a mix of round values, interval end points and arbitrary "
        "floats). Family sub-checks sample the lattice point and draw the reals with Hypothesis; sub-check 'lattice' holds "
        "every lattice point of every family x 3 fixed pseudo-random real draws as a finite list (about 4400 realised cases, plus the documented default and test-suite resolutions) behind "
        "a bare sampled_from, which Hypothesis enumerates without repetition: every thorough shard runs the whole list, the "
        "quick tier a random 1/8 per shard. dual_mesh is run on closed oriented manifold polygon surfaces built by the "
        "harness (platonic solids, prisms, antiprisms, bipyramids, tori, connected sums, unions; split / merge / flip / "
        "1-3 modifications; relabelled), modes barycenter (any case spelling) and circumcenter. Every case calls its "
        "generator TWICE with the same caller-owned argument objects (Vec corners / centres, arrays, input meshes; second "
        "call with the radius halved where there is one, a ring defect shifted by 4e-4, or the centre / radius defaulted "
        "again, dual_mesh with a second drawn mode on the same mesh object). Between the two calls every vertex of the first "
        "returned mesh is overwritten in place (what a caller may do with its mesh); both results get the full oracle, after "
        "each call every argument object is compared with an independent snapshot (<gen>:argument-mutated), the second call "
        "must leave the first result alone and editing the second result must not change the first "
        "(<gen>:results-share-state; skipped when the results legitimately store the caller's own Vec objects, class "
        "'result-aliases-argument', whose values are then written back before the second call). Argument classes: uniform scale 1 / tiny "
        "(1e-3..1e-6) / huge (1e3..1e6) with tolerances relative to the scale, integer-typed Vec / arrays, centre and radius "
        "left at their (shared, mutable) defaults, unit-size data placed 1e3..1e6 away from the origin (tolerance 1e-9 x local "
        "size + ~16 ulp of the offset), resolutions passed as numpy integer scalars, point arrays of dtype float32 / int16 / "
        "int32. Wide resolutions: every 'rounding hazard' resolution n in 10..256 (x/(x/n) != n for x = 1 or 2pi, or (1/n)*n "
        "!= 1: 48 values incl. 49, 61, 98, 122, 197, 244) is a lattice point of every resolution parameter (other resolution "
        "minimal), and ~10% of the sampled cases replace one resolution by an arbitrary value in 10..300. Each case also draws "
        "one library-wide config switch to flip (sort_neighborhoods, complete_edges_from_faces, complete_faces_from_cells, "
        "display_duplicate_attribute_warning, export_edges_in_obj; 6/11 none; not drawn where the unchanged library fails, see "
        "config_excluded) and makes, between its two calls, a call of the same generator with an inadmissible argument "
        "(float resolution, wrong type, too few points: it normally raises); the config switches must be what the case set "
        "after every call (<gen>:config-changed) and the edge container must be the set of face sides. Sizes around powers "
        "of two: every factor pair with a*b in 250..262 (torus, sphere_uv, unit_grid; also (nu-1)(nv-1) in 255..257 and "
        "2ab in 126..130) and N in {126..129, 254..258} for the one-resolution generators and chain / segment counts are "
        "lattice points; sub-check 'big' holds 19 realised cases, 14 of them with 2**15 / 2**16-sized results (255x257, 256x256, 257x255 "
        "tori, uv spheres and grids, N = 32767 / 32768 cylinders, 65536-vertex chains; one call each; all of them in every "
        "thorough shard, one random case per quick shard). Reals close to special values: radius 1 +- 8e-6 / 1e-7 / 3e-10 "
        "(also with the centre left at its default), torus radii 1 +- 8e-6 and ratio 0.3 +- 2e-6, cylinder length 1 +- 8e-6, "
        "defects 1e-7, 1e-5, pi(1 +- 8e-6), max - 1e-7; integral reals passed as python int. dual_mesh, spherify_vertices "
        "and cylindrify_edges get a third call on a NEW input object of the same element counts (rigidly moved copy) after "
        "the first input was deleted and garbage collected. CALL SPELLING (every case, every generator): the documented "
        "parameter list is passed 'mixed' (required arguments by position, optional ones by keyword), 'pos' (all by position "
        "in the documented order) or 'kw' (all by keyword, required ones included: P1=, mesh=, points=, vertices=, origins=), "
        "1/3 each; with probability 1/3 a random non-empty subset of the optional parameters is OMITTED and the case takes "
        "their documented defaults as expected values (cylinder radius 1 / N 50 / fill_caps True, torus 50 / 30 / 1 / 0.3 / "
        "False, sphere_uv 30 / 50, icosphere 3, sphere_fibonacci radius 1 / build_surface True, ring open False / n_cover 1, "
        "flat_ring n_cover 1, unit_grid / unit_triangle / hexahedra / tetrahedron / quad / chain switches False, "
        "spherify_vertices n_subdiv 1 / radius 1e-2, cylindrify_edges N 50 / radius 5e-2, vector_field length_mult 1, "
        "dual_mesh mode; resolution defaults only 1/4 of those times); boolean switches go as bool (1/2), numpy.bool_ or "
        "0 / 1; real parameters as float, python int when integral, or numpy.float64 (1/4); integer parameters as int, "
        "numpy.int32 or numpy.int64. COLLECTION FORMS: vector_field arrays as ndarray / list of lists / tuple of tuples / "
        "list of Vec, spherify_vertices points also as list / tuple of Vec; chain_of_vertices and vector_field also on empty "
        "(0,3) arrays (result: empty polyline). INPUT USED BEFORE (dual_mesh, cylindrify_edges; half of the cases): before "
        "the first call the caller runs other library computations on the input mesh that store attributes under their "
        "default names (face barycentres, circumcentres, areas, edge lengths) and query connectivity; class 'fresh' on the "
        "geometry of the case, class 'stale' on an earlier geometry after which every vertex was moved in place to the "
        "coordinates of the case - the oracle is the same (positions from the current vertices). Sub-check 'big' also holds "
        "5 cases beyond 10**5 elements (317x317 uv sphere - the first case, run by every quick run -, 317x317 grid, "
        "100003-point fibonacci cloud, 100001-vertex chain, 50001 vectors). non-trivial = two "
        "resolutions differ, or a boolean switch / n_cover / mode / optional argument is not at its default, or (for "
        "generators without such parameters) a centre / radius differs from the default; distinct = distinct realised cases.")
ASSUMPTIONS = [
    "admissible integer parameters: periodic resolutions (cylinder N, torus segments, sphere_uv n_long, ring N) >= 3, "
    "sphere_uv n_lat >= 2, unit_grid / unit_triangle resolutions >= 2, sphere_fibonacci n_pts >= 4 when a surface is built, "
    "a closed chain has >= 3 vertices, n_cover >= 1, n_refine >= 0",
    "admissible reals: radii > 0, torus minor radius < major radius, cylinder end points distinct, ring defect in [0, 2pi-0.01]",
    "dual_mesh: input closed, every vertex has >= 3 faces and the combinatorial dual is representable (two faces share at "
    "most one edge, dual faces have distinct vertex sets); config.sort_neighborhoods at its default (True)",
    "corner / centre points are passed as mouette Vec (what the docstrings name)",
    "a documented parameter may be passed by position (documented order) or by its documented name; a boolean switch may be "
    "a bool, a numpy.bool_ or 0 / 1; a real a float, int or numpy.float64; an integer an int or numpy.int32 / int64; an "
    "omitted optional parameter takes the default its docstring / signature states",
    "vector_field accepts whatever numpy.array turns into an (N,K) array (it says it sanitises its inputs); spherify_vertices "
    "iterates over any sequence of points that is not a mesh; chain_of_vertices needs an ndarray (it reads .shape)",
    "attributes a caller stored on an input mesh (under the library's default names) are the caller's data: a "
    "transformation computes from the current vertices, whatever is stored",
    "an empty point set for spherify_vertices is NOT generated (mesh.merge of nothing returns None in the unchanged library; "
    "the statement promises nothing for it)",
    "config switch values under which the unchanged library already fails are not drawn (reported as findings): "
    "sort_neighborhoods=False for dual_mesh / octahedron / dodecahedron, complete_edges_from_faces=False for icosphere and "
    "spherify_vertices with >= 1 subdivision, complete_faces_from_cells=False for volume=True",
]

TOL = 1e-9


# ================================================================================================ helpers

def vec(p):
    import mouette as M
    return M.Vec(float(p[0]), float(p[1]), float(p[2]))


class Args:
    """Caller-owned argument objects of one case. Every object argument (Vec, array, mesh) is created once, passed to the
    generator in BOTH calls of the case, and compared after each call with an independent snapshot taken from the case."""

    def __init__(self):
        self.round = 1
        self.objs = {}
        self.snap = {}
        self.read = {}

    def vec(self, name, p, ints=False):
        if name not in self.objs:
            import mouette as M
            self.objs[name] = M.Vec(*[int(x) for x in p]) if ints else M.Vec(*[float(x) for x in p])
            self.snap[name] = [float(x) for x in p]
            self.read[name] = lambda o: [float(x) for x in o]
        return self.objs[name]

    def vecs(self, name, pts, ints=False):
        return [self.vec(f"{name}{i}", p, ints) for i, p in enumerate(pts)]

    def arr(self, name, a, ints=False, dtype=None):
        if name not in self.objs:
            self.objs[name] = np.array(a, dtype=np.dtype(dtype) if dtype else (int if ints else float))
            self.snap[name] = np.array(a, dtype=float).tolist()
            self.read[name] = lambda o: np.asarray(o, dtype=float).tolist()
        return self.objs[name]

    def seq(self, name, a, form, ints=False, dtype=None):
        """a point collection in the form the case names: numpy array (default), list of lists, tuple of tuples, list / tuple of Vec"""
        if form in (None, "ndarray"):
            return self.arr(name, a, ints, dtype)
        if name not in self.objs:
            import mouette as M
            num = (lambda x: int(x)) if ints else (lambda x: float(x))
            rows = [[num(x) for x in r] for r in a]
            if form == "list":
                o = rows
            elif form == "tuple":
                o = tuple(tuple(r) for r in rows)
            elif form == "vecs":
                o = [M.Vec(*r) for r in rows]
            elif form == "vectuple":
                o = tuple(M.Vec(*r) for r in rows)
            else:
                raise AssertionError("unknown collection form " + str(form))
            self.objs[name] = o
            self.snap[name] = [[float(x) for x in r] for r in a]
            self.read[name] = lambda o: [[float(x) for x in r] for r in o]
        return self.objs[name]

    def obj(self, name, factory, reader):
        if name not in self.objs:
            self.objs[name] = factory()
            self.snap[name] = reader(self.objs[name])
            self.read[name] = reader
        return self.objs[name]

    def changed(self):
        out = []
        for name, o in self.objs.items():
            try:
                if self.read[name](o) != self.snap[name]:
                    out.append(name)
            except Exception:
                out.append(name)
        return out

    def restore(self):
        """write the snapshot values back into the (same) argument objects"""
        for name in self.changed():
            o, sn = self.objs[name], self.snap[name]
            try:
                if isinstance(sn, dict):
                    for i, row in enumerate(sn["V"]):
                        o.vertices[i][:] = row
                else:
                    o[...] = np.array(sn).astype(np.asarray(o).dtype)
            except Exception:
                pass

    def check_unchanged(self, ctx, pre):
        for name, o in self.objs.items():
            try:
                now = self.read[name](o)
            except Exception as e:
                now = f"unreadable ({type(e).__name__}: {e})"
            ctx.check(now == self.snap[name], pre + ":argument-mutated",
                      f"call #{self.round} changed its argument '{name}' in place: passed {str(self.snap[name])[:200]}, afterwards {str(now)[:200]}")


class RecordingCtx:
    """proxy that records every mesh returned through ctx.call (the generator results of this call round); in the second
    round it also marks the messages"""

    def __init__(self, ctx, store, note=""):
        self._c = ctx
        self._store = store
        self._note = note

    def __getattr__(self, name):
        return getattr(self._c, name)

    def check(self, cond, signature, message="", **detail):
        return self._c.check(cond, signature, self._note + str(message), **detail)

    def fail(self, signature, message, **detail):
        return self._c.fail(signature, self._note + str(message), **detail)

    def call(self, signature, f, *a, **kw):
        ok, val = self._c.call(signature, f, *a, **kw)
        if ok and isinstance(val, tuple(classes().values())):
            self._store.append(val)
        return ok, val


def read_vertices(m):
    try:
        return [[float(x) for x in v] for v in m.vertices]
    except Exception as e:
        return f"unreadable ({type(e).__name__})"


def edit_in_place(m):
    """what a caller may do with a mesh it received: overwrite every vertex coordinate through the stored arrays"""
    n = 0
    try:
        for i in range(len(m.vertices)):
            v = m.vertices[i]
            v[:] = [3.0 * float(x) + 1.0 for x in v]
            n += 1
    except Exception:
        pass
    return n


_GC_FROZEN = []


def two_calls(fn):
    """History of one case: call the generator, run the oracle, EDIT THE RETURNED MESH IN PLACE, call the generator again
    with the same caller-owned argument objects (radius halved / defect shifted by 4e-4 / defaults defaulted again), run the
    oracle on the second result. After each call the arguments must be unchanged; the second call must not disturb the
    first result, and (when the results do not legitimately share the caller's own Vec objects) editing the second
    result must not change the first."""
    def run(case, ctx):
        import mouette as M
        gen = str(case.get("gen", "?"))
        for k, v in (case.get("config") or {}).items():       # library-wide switches of this case (the runner restores them)
            setattr(M.config, k, v)
        cfg = {k: getattr(M.config, k) for k in CONFIG_SWITCHES}

        def check_config(when):
            now = {k: getattr(M.config, k) for k in CONFIG_SWITCHES}
            ok = ctx.check(now == cfg, gen + ":config-changed", f"{when}: library-wide config switches changed from {cfg} to {now}")
            for k, v in cfg.items():
                setattr(M.config, k, v)
            return ok
        A = Args()
        res1, res2 = [], []
        fn(case, RecordingCtx(ctx, res1), A)
        A.check_unchanged(ctx, gen)
        check_config("after the first call")
        edited = sum(edit_in_place(m) for m in res1)
        if edited:
            ctx.label("first-result-edited-in-place")
        aliased = A.changed()
        if aliased:
            # the returned mesh stores the caller's own Vec / array objects (aliasing of arguments: C06 / C12, not asserted
            # here); put the caller's values back so that the second call is made with the arguments of the case
            ctx.label("result-aliases-argument")
            A.restore()
            if A.changed():
                ctx.discard("aliased arguments could not be restored")
                return
        # a call of the same generator with an inadmissible argument (expected to raise) must not leave anything behind
        bad = POISON.get(gen)
        if bad is not None:
            ctx.label("failed-call-in-between")
            try:
                bad(M, A)
            except Exception:
                pass
            A.check_unchanged(ctx, gen)
            check_config("after a call with an inadmissible argument (which may raise)")
        snap1 = [read_vertices(m) for m in res1]
        A.round = 2
        fn(case, RecordingCtx(ctx, res2, "[second call of the generator in this case, same argument objects, after the first result was edited in place] "), A)
        A.check_unchanged(ctx, gen)
        check_config("after the second call")
        now1 = [read_vertices(m) for m in res1]
        ctx.check(now1 == snap1, gen + ":results-share-state", "the second call of the generator changed the vertices of the mesh returned by the first call")
        if not aliased and res1 and res2:
            for m in res2:
                edit_in_place(m)
            ctx.check([read_vertices(m) for m in res1] == now1, gen + ":results-share-state",
                      "editing the vertices of the second returned mesh in place changed the mesh returned by the first call (results share coordinate arrays)")
        if gen in ("dual_mesh", "spherify_vertices", "cylindrify_edges") and not case.get("far"):
            # the input object is dropped and collected; a NEW input of the same element counts (moved rigidly) follows,
            # possibly at the recycled address: a cache keyed by id(mesh) / id(array) would answer for the old one
            import gc
            ctx.label("new-input-after-gc")
            if not _GC_FROZEN:
                gc.collect()
                gc.freeze()          # long-lived harness objects (case lists, strategies) out of the collector's way
                _GC_FROZEN.append(True)
            res1, res2, snap1, now1 = [], [], None, None
            A.objs.clear()
            A = None
            gc.collect()
            A = Args()
            case = sibling_case(case)
            fn(case, RecordingCtx(ctx, [], "[call on a new input object of the same size, after the previous input was deleted and garbage collected] "), A)
            A.check_unchanged(ctx, gen)
    run.__name__ = fn.__name__
    return run


CONFIG_SWITCHES = ("complete_edges_from_faces", "complete_faces_from_cells", "export_edges_in_obj", "sort_neighborhoods",
                   "display_duplicate_attribute_warning")


def _some_vec(A, M):
    for o in A.objs.values():
        if isinstance(o, M.Vec):
            return o
    return M.Vec(0., 0., 0.)


def _some_obj(A, name, M):
    return A.objs.get(name)


# one call per generator with an inadmissible argument (most of them raise inside the generator; none is required to)
POISON = {
    "tetrahedron": lambda M, A: M.procedural.tetrahedron(_some_vec(A, M), _some_vec(A, M), "x", _some_vec(A, M)),
    "hexahedron": lambda M, A: M.procedural.hexahedron(*([_some_vec(A, M)] * 7), "x", colored=True),
    "axis_aligned_cube": lambda M, A: M.procedural.axis_aligned_cube(colored="x", triangulate=2.5, volume=True),
    "hexahedron_4pts": lambda M, A: M.procedural.hexahedron_4pts(_some_vec(A, M), _some_vec(A, M), "x", _some_vec(A, M), volume=True),
    "octahedron": lambda M, A: M.procedural.octahedron(3),
    "dodecahedron": lambda M, A: M.procedural.dodecahedron(3),
    "icosahedron": lambda M, A: M.procedural.icosahedron("x", 2.0),
    "cylinder": lambda M, A: M.procedural.cylinder(_some_vec(A, M), _some_vec(A, M) + M.Vec(0., 0., 1.), 1., 2.5),
    "torus": lambda M, A: M.procedural.torus(3, 3.5),
    "sphere_uv": lambda M, A: M.procedural.sphere_uv(3, 4.5),
    "icosphere": lambda M, A: M.procedural.icosphere(2.0),
    "sphere_fibonacci": lambda M, A: M.procedural.sphere_fibonacci(3, 1., True),
    "ring": lambda M, A: M.procedural.ring(4.5, 0.1, False, 1),
    "flat_ring": lambda M, A: M.procedural.flat_ring(2.5, 0.1),
    "triangle": lambda M, A: M.procedural.triangle(_some_vec(A, M), "x"),
    "quad": lambda M, A: M.procedural.quad(_some_vec(A, M), _some_vec(A, M), "x"),
    "unit_grid": lambda M, A: M.procedural.unit_grid(3, 2.5, generate_uvs=True),
    "unit_triangle": lambda M, A: M.procedural.unit_triangle(3, 2.5, generate_uvs=True),
    "chain_of_vertices": lambda M, A: M.procedural.chain_of_vertices(np.zeros((2, 5))),
    "vector_field": lambda M, A: M.procedural.vector_field(np.zeros((2, 3)), np.zeros((3, 3))),
    "spherify_vertices": lambda M, A: M.procedural.spherify_vertices(np.zeros((2, 3)), 0.1, 1.5),
    "cylindrify_edges": lambda M, A: M.procedural.cylindrify_edges(_some_obj(A, "mesh", M), 0.1, 2.5),
    "dual_mesh": lambda M, A: M.procedural.dual_mesh(_some_obj(A, "mesh", M), "no-such-mode"),
}


def used_before(M, make, X, how, size):
    """The input mesh of a transformation as the caller hands it over. how = None: freshly built. Otherwise the caller has
    USED the mesh with other library calls before (attributes stored on it under their default names: face barycentres,
    circumcentres, areas, edge lengths; connectivity and border queries answered). 'fresh': those were computed on
    the geometry the mesh has now. 'stale': they were computed before the caller moved every vertex (in place) to the
    coordinates of the case - whatever was stored on the mesh then describes the OLD geometry; the transformation is
    documented as a function of the mesh (its current vertices), so it must not pick such values up."""
    X = np.asarray(X, dtype=float)
    if not how:
        return make(X.tolist())
    X0 = X if how == "fresh" else 0.5 * X[:, [1, 2, 0]] + np.array([0.75, -1.5, 0.25]) * float(size)
    m = make(X0.tolist())
    A = M.attributes
    probes = [lambda: A.edge_length(m), lambda: m.connectivity.vertex_to_vertices(0)]
    if hasattr(m, "faces"):
        probes += [lambda: A.face_barycenter(m), lambda: A.face_circumcenter(m), lambda: A.face_area(m),
                   lambda: m.connectivity.vertex_to_faces(0), lambda: m.is_vertex_on_border(0)]
    for f in probes:
        try:                    # these calls are the business of other properties; whether they succeed does not matter here
            f()
        except Exception:
            pass
    if how == "stale":
        for i, row in enumerate(X.tolist()):
            m.vertices[i][:] = row
    return m


def sibling_case(case):
    """the same case with its input geometry moved rigidly (coordinates cyclically permuted + translated): same element
    counts and connectivity, different coordinates"""
    S = float(case.get("scale", 1.0) or 1.0)
    t = [2.0 * S, -1.0 * S, 3.0 * S]
    out = dict(case)
    for k in ("V", "points"):
        if k in case:
            out[k] = [[p[1] + t[0], p[2] + t[1], p[0] + t[2]] for p in case[k]]
    return out


def mesh_reader(m):
    out = {"V": [[float(x) for x in v] for v in m.vertices]}
    for cont in ("edges", "faces"):
        if hasattr(m, cont):
            out[cont] = [[int(x) for x in r] for r in getattr(m, cont)]
    return out


def label_args(case, ctx):
    sc = case.get("scale", 1.0)
    ctx.label("scale=tiny" if sc < 1 else "scale=huge" if sc > 1 else "scale=unit")
    if case.get("int_args"):
        ctx.label("int-typed-args")
    if case.get("defaults"):
        ctx.label("defaulted-centre-radius" if case["defaults"] is True else "defaulted-centre")
    if case.get("far"):
        ctx.label("far-from-origin")
    if case.get("np_ints"):
        ctx.label("numpy-int-parameters", "numpy-int=" + ("int64" if case["np_ints"] == "int64" else "int32"))
    if case.get("np_floats"):
        ctx.label("numpy-float-scalars")
    ctx.label("flag-form=" + str(case.get("flag_form") or "bool"))
    if case.get("wide") == "pow2":
        ctx.label("pow2-boundary-size")
    if case.get("near_special"):
        ctx.label("near-special-value")
    for k in ("radius", "major_radius", "defect"):
        if case.get("int_scalars") and isinstance(case.get(k), float) and case[k] == int(case[k]):
            ctx.label("int-valued-scalars")
    if case.get("wide") in ("hazard", "random"):
        ctx.label("wide-resolution", "hazard-resolution" if case["wide"] == "hazard" else "random-wide-resolution")
    if case.get("array_dtype"):
        ctx.label("array-dtype=" + case["array_dtype"])
    for k, v in sorted((case.get("config") or {}).items()):
        ctx.label(f"config.{k}={v}")


def classes():
    import mouette as M
    return {"SurfaceMesh": M.mesh.SurfaceMesh, "VolumeMesh": M.mesh.VolumeMesh, "PolyLine": M.mesh.PolyLine,
            "PointCloud": M.mesh.PointCloud}


def vertex_array(ctx, pre, m):
    """vertices as an (n,3) float array, or None after reporting"""
    try:
        rows = [[float(x) for x in v] for v in m.vertices]
    except Exception as e:  # malformed container content
        ctx.fail(pre + ":malformed-vertices", f"vertex container cannot be read as float rows: {type(e).__name__}: {e}")
        return None
    if not ctx.check(all(len(r) == 3 for r in rows), pre + ":malformed-vertices",
                     f"vertices are not all 3-d: lengths {sorted(set(len(r) for r in rows))}"):
        return None
    V = np.array(rows, dtype=float).reshape(-1, 3)
    if not ctx.check(bool(np.all(np.isfinite(V))), pre + ":non-finite-vertex", f"non finite coordinates: {V[~np.isfinite(V).all(axis=1)][:3].tolist()}"):
        return None
    return V


def index_rows(ctx, pre, cont, what):
    try:
        rows = [tuple(int(x) for x in r) for r in cont]
    except Exception as e:
        ctx.fail(pre + ":malformed-" + what, f"{what} container cannot be read as integer rows: {type(e).__name__}: {e}")
        return None
    return rows


def check_type(ctx, pre, m, cls):
    K = classes()
    return ctx.check(type(m) is K[cls], pre + ":type", f"returned a {type(m).__name__}, expected a {cls}")


def check_surface(ctx, pre, m, nV=None, nF=None, arity=None, chi=None, loops=None, comps=1, cls="SurfaceMesh"):
    """Generic validity + counts + topology. Returns (V, F, ref) or None if nothing further can be checked."""
    if not check_type(ctx, pre, m, cls):
        return None
    V = vertex_array(ctx, pre, m)
    if V is None:
        return None
    F = index_rows(ctx, pre, m.faces, "faces")
    if F is None:
        return None
    n = len(V)
    bad = [(i, f) for i, f in enumerate(F) if any(v < 0 or v >= n for v in f)]
    if not ctx.check(not bad, pre + ":index-range", f"{len(bad)} face(s) index outside 0..{n - 1}, first: face {bad[:1]} (|V|={n}, |F|={len(F)})"):
        return None
    bad = [(i, f) for i, f in enumerate(F) if len(f) < 3 or len(set(f)) != len(f)]
    if not ctx.check(not bad, pre + ":degenerate-face", f"{len(bad)} face(s) with <3 or repeated vertices, first: {bad[:1]}"):
        return None
    cnt = Counter(key(f) for f in F)
    rep = sorted(k for k, c in cnt.items() if c > 1)
    ok_rep = ctx.check(not rep, pre + ":repeated-face", f"{len(rep)} vertex set(s) carried by more than one face, first: {rep[:1]}")
    used = set(v for f in F for v in f)
    unused = sorted(set(range(n)) - used)
    ctx.check(not unused, pre + ":unused-vertex", f"{len(unused)} of {n} vertices belong to no face: {unused[:12]}", unused=unused)
    if nV is not None:
        ctx.check(n == nV, pre + ":vertex-count", f"|V| = {n}, the documented / tested count is {nV}")
    if not ok_rep:
        return None
    ref = SurfRef(n, F)
    err = ref.validate()
    if not ctx.check(err is None, pre + ":manifold-orientation", f"face list is not a consistently oriented manifold: {err} (|V|={n}, |F|={len(F)})"):
        return None
    if nF is not None:
        ctx.check(len(F) == nF, pre + ":face-count", f"|F| = {len(F)}, expected {nF}")
    if arity is not None:
        ar = sorted(set(len(f) for f in F))
        ctx.check(ar == [arity], pre + ":face-arity", f"face sizes {ar}, expected all {arity}")
    E = index_rows(ctx, pre, m.edges, "edges")
    if E is not None:
        import mouette as M
        ek = [key(e) for e in E]
        if M.config.complete_edges_from_faces:
            ctx.check(len(set(ek)) == len(ek) and set(ek) == ref.uedges, pre + ":edges",
                      f"the edge container ({len(ek)} edges, {len(set(ek))} distinct) is not the set of the {len(ref.uedges)} face sides "
                      f"(config.complete_edges_from_faces is True)")
        else:
            ctx.check(set(ek) <= ref.uedges, pre + ":edges", "the edge container holds pairs that are no face sides")
    bl = ref.border_loops()
    if not ctx.check(bl is not None, pre + ":manifold-orientation", "border is not a union of simple loops"):
        return None
    got = (ref.euler(), len(bl), ref.n_face_components())
    exp = (chi, loops, comps)
    ctx.check(all(e is None or g == e for g, e in zip(got, exp)), pre + ":topology",
              f"(chi, border loops, components) = {got}, the named shape has {exp}")
    return V, F, ref


def scale_of(*xs):
    """size of the input data (largest absolute coordinate / radius); tolerances are relative to it"""
    s = 0.0
    for x in xs:
        a = np.abs(np.asarray(x, dtype=float))
        if a.size:
            s = max(s, float(a.max()))
    return s if s > 0 else 1.0


FAR_DIR = np.array([1.0, -1.0, 0.5])


def sc_of(case, *xs):
    """tolerance scale of a case: size of the data; for data placed far from the origin (case['far'] = offset magnitude)
    the LOCAL size (offset removed) plus ~16 ulp of the offset expressed in units of TOL"""
    m = float(case.get("far", 0.0) or 0.0)
    if not m:
        return scale_of(*xs)
    loc = []
    for x in xs:
        a = np.asarray(x, dtype=float)
        loc.append(a - m * FAR_DIR if a.ndim >= 1 and a.shape[-1] == 3 else a)
    return scale_of(*loc) + 2e-6 * m


def I(case, n):
    """integer parameter as passed to the generator: python int, or a numpy integer scalar (class 'numpy-int-parameters':
    numpy.int32, or numpy.int64 when the case says 'int64')"""
    k = case.get("np_ints")
    return np.int64(n) if k == "int64" else np.int32(n) if k else int(n)


def B(case, v):
    """a boolean switch as passed to the generator: bool, numpy.bool_ or the integers 0 / 1 (class 'flag-form=...')"""
    form = case.get("flag_form") or "bool"
    return np.bool_(bool(v)) if form == "numpy" else int(bool(v)) if form == "int" else bool(v)


REQUIRED = "<required>"


def omitted(case, *more):
    """names of the optional parameters this case leaves out of the call (their documented defaults then apply)"""
    return set(case.get("omit") or ()) | set(m for m in more if m)


def spelled_call(ctx, pre, f, case, params, npos, omit=()):
    """Call f with the parameters `params` = [(name, value)] (documented order) spelled as the case says:
      spell 'mixed' (default): the first `npos` parameters by position, the others by keyword,
      spell 'pos': all by position in the documented order, spell 'kw': all by keyword.
    Parameters named in `omit` are left out (the case holds their documented default as the expected value); after an
    omitted parameter the remaining ones are passed by keyword."""
    spell = case.get("spell") or "mixed"
    omit = set(omit)
    args, kw, positional = [], {}, True
    for i, (name, val) in enumerate(params):
        if name in omit:
            positional = False
            continue
        if spell == "kw" or (spell == "mixed" and i >= npos) or not positional:
            kw[name] = val
        else:
            args.append(val)
    ctx.label("spell=" + spell)
    if omit:
        ctx.label("omitted-defaults", *[f"omitted:{pre}.{n}" for n in sorted(omit)])
    return ctx.call(pre, f, *args, **kw)


def check_close(ctx, sig, got, exp, scale, what, tol=TOL):
    got = np.asarray(got, dtype=float)
    exp = np.asarray(exp, dtype=float)
    if not ctx.check(got.shape == exp.shape, sig, f"{what}: shape {got.shape} instead of {exp.shape}"):
        return False
    if got.size == 0:
        return True
    d = np.abs(got - exp)
    i = int(np.argmax(d.reshape(-1)))
    return ctx.check(bool(np.all(np.isfinite(got))) and float(d.max()) <= tol * scale, sig,
                     f"{what}: max deviation {float(d.max()):.3e} (> {tol:g} x scale {scale:g}); got {got.reshape(-1)[i]!r} expected {exp.reshape(-1)[i]!r} at flat index {i}")


def corner_angle_sum(V, F, v):
    """sum of the corner angles at vertex v over the faces containing it (atan2 form, accurate for tiny and flat angles)"""
    tot = 0.0
    for f in F:
        if v in f:
            i = f.index(v)
            a = V[f[(i + 1) % len(f)]] - V[v]
            b = V[f[(i - 1) % len(f)]] - V[v]
            tot += math.atan2(float(np.linalg.norm(np.cross(a, b))), float(np.dot(a, b)))
    return tot


def vector_area(V, f):
    """vector area of a polygon (fan from its first vertex)"""
    a = np.zeros(3)
    for k in range(1, len(f) - 1):
        a += np.cross(V[f[k]] - V[f[0]], V[f[k + 1]] - V[f[0]]) / 2
    return a


def signed_volume(V, F):
    vol = 0.0
    for f in F:
        for k in range(1, len(f) - 1):
            vol += float(np.dot(V[f[0]], np.cross(V[f[k]], V[f[k + 1]]))) / 6
    return vol


def edge_lengths(V, ref):
    return np.array([np.linalg.norm(V[a] - V[b]) for a, b in sorted(ref.uedges)])


def self_test():
    V = np.array([[0, 0, 0], [1, 0, 0], [1, 1, 0], [0, 1, 0], [.5, .5, 0]], dtype=float)
    F = [(4, 0, 1), (4, 1, 2), (4, 2, 3), (4, 3, 0)]
    assert abs(corner_angle_sum(V, F, 4) - 2 * math.pi) < 1e-12
    assert abs(corner_angle_sum(V, F, 0) - math.pi / 2) < 1e-12
    assert np.allclose(vector_area(V, (0, 1, 2, 3)), [0, 0, 1])
    cubeV = np.array([[x, y, z] for z in (0, 1) for y in (0, 1) for x in (0, 1)], dtype=float)
    cubeF = [(0, 2, 3, 1), (4, 5, 7, 6), (0, 1, 5, 4), (2, 6, 7, 3), (0, 4, 6, 2), (1, 3, 7, 5)]
    r = SurfRef(8, cubeF)
    assert r.validate() is None and r.euler() == 2 and r.border_loops() == []
    assert abs(signed_volume(cubeV, cubeF) - 1.0) < 1e-12
    assert SurfRef(4, [(1, 2, 3), (0, 2, 3), (0, 1, 3), (0, 1, 2)]).validate() is not None
    d = ref_dual(r)
    assert d is not None and len(d) == 8 and SurfRef(6, d).validate() is None and SurfRef(6, d).euler() == 2


# ---------------------------------------------------------------------------------------------- strategies

# A case = one point of the family's integer / boolean lattice + real parameters. The same builder realises a case from
# either source of reals: Hypothesis draws (family sub-checks: sampled lattice point, shrinkable reals) or a seeded
# random.Random (sub-check "lattice": every lattice point of every family, REAL_VARIANTS fixed real draws each, enumerated
# exhaustively by Hypothesis because the strategy is a bare sampled_from over the finite list).

def fl(lo, hi):
    return st.floats(lo, hi, allow_nan=False, allow_infinity=False).map(lambda x: float(min(hi, max(lo, round(x, 6)))))


class HypSrc:
    def __init__(self, draw):
        self.draw = draw

    def real(self, lo, hi, nice=()):
        return self.draw(st.one_of(st.sampled_from(list(nice)), fl(lo, hi)) if nice else fl(lo, hi))

    def choice(self, seq):
        return self.draw(st.sampled_from(list(seq)))

    def integer(self, lo, hi):
        return self.draw(st.integers(lo, hi))


class RngSrc:
    def __init__(self, rnd, no_omit=False):
        self.rnd = rnd
        self.no_omit = no_omit          # variant 0 of every lattice point keeps the lattice point's own optional parameters

    def real(self, lo, hi, nice=()):
        if nice and self.rnd.random() < 0.3:
            return float(self.rnd.choice(list(nice)))
        return float(min(hi, max(lo, round(self.rnd.uniform(lo, hi), 6))))

    def choice(self, seq):
        return self.rnd.choice(list(seq))

    def integer(self, lo, hi):
        return self.rnd.randint(lo, hi)


def coord(src):
    return src.real(-10.0, 10.0, nice=[float(i) for i in range(-5, 6)])


def point(src):
    return [coord(src), coord(src), coord(src)]


def center(src):
    return [0.0, 0.0, 0.0] if src.choice([0, 1, 2]) == 0 else point(src)


NEAR = (8e-6, -7e-6, 1e-7, -1e-7, 3e-10)


def near(x):
    """values within 1e-5 relative of a special value x (where an isclose()-style shortcut would wrongly trigger)"""
    return [float(x * (1 + d)) for d in NEAR]


def radius(src):
    return src.real(0.05, 20.0, nice=[1.0, 0.5, 2.0, 1.2] + near(1.0))


POW2_N = [126, 127, 128, 129, 254, 255, 256, 257, 258]


def pow2_pairs(min_a, min_b, prods=range(250, 263)):
    """all (a, b) whose product (a vertex / face count) lies around 256"""
    return [[a, q // a] for q in prods for a in range(min_a, q + 1) if q % a == 0 and q // a >= min_b]


def is_pow2_size(*counts):
    return any(abs(c - 256) <= 6 or abs(c - 128) <= 2 or abs(c - 65536) <= 600 or abs(c - 32768) <= 2 for c in counts)


def Rv(case, x):
    """a real parameter as passed to the generator: float, a python int when it is integral (class 'int-valued-scalars'),
    or a numpy.float64 scalar (class 'numpy-float-scalars')"""
    if case.get("int_scalars") and float(x) == int(x):
        return int(x)
    return np.float64(x) if case.get("np_floats") else float(x)


HEAVY_DEFAULTS = ("n_lat", "n_long", "major_segments", "minor_segments", "N", "n_refine")      # documented defaults 30 / 50 / 3: large results


def omit_defaults(src, case, table):
    """With probability 1/3 (never for wide resolutions) a random non-empty subset of the optional parameters in `table`
    ({case key = parameter name: documented default}) is left at its documented default: the case gets the default as
    the value the oracle expects and the name is listed in case['omit'] (the call then does not pass it). Resolution
    parameters (their defaults give results of 100 .. 1500 vertices) are kept in that subset only one time in four."""
    case["omit"] = []
    if case.get("wide") or getattr(src, "no_omit", False) or src.choice([0, 0, 1]) == 0:
        return case
    names = list(table)
    sure = src.choice(names)
    for name in names:
        if (name == sure or src.choice([0, 0, 1])) and (name not in HEAVY_DEFAULTS or src.choice([0, 0, 0, 1])):
            case[name] = table[name]
            case["omit"].append(name)
    return case


def distinct_points(src, n, sep=0.25, ints=False):
    """n points, pairwise at least `sep` apart (deterministic shifting along x)"""
    pts = []
    for _ in range(n):
        p = point(src)
        if ints:
            p = [float(round(x)) for x in p]
        while any(math.dist(p, q) < sep for q in pts):
            p = [p[0] + 1.0, p[1], p[2]]
        pts.append(p)
    return pts


def _hazard_resolutions(lo=10, hi=256):
    """resolutions at which n -> x/n -> x/(x/n) or (1/n)*n does not round-trip in float64 (x = 1, 2pi): the values at
    which arange / linspace / floor based sampling of a period typically produces one sample too many or too few"""
    out = []
    for n in range(lo, hi + 1):
        if any(x / (x / n) != n for x in (1.0, 2 * math.pi)) or (1.0 / n) * n != 1.0:
            out.append(n)
    return out


HAZARD = _hazard_resolutions()


def far_offset(src, S, ints=False):
    """offset magnitude of the 'far from the origin' class (only at unit scale): 0 mostly, else 1e3 .. 1e6"""
    if S != 1.0:
        return 0.0
    return float(src.choice([0.0] * 5 + [1e3, 1e5, 1e6]))


def placed(pts, S, far):
    return [[float(x * S + far * FAR_DIR[k]) for k, x in enumerate(p)] for p in pts]


def config_excluded(case, cfg):
    """switch values under which the UNCHANGED library already fails for this generator (reported as findings, not drawn):
    dual_mesh (hence octahedron, dodecahedron) needs sorted neighbourhoods; loop subdivision (icosphere, spherify_vertices
    with n >= 1) walks the completed edge set; a hexahedral cell cannot be prepared without completing its faces"""
    gen = case.get("gen")
    if "sort_neighborhoods" in cfg and gen in ("dual_mesh", "octahedron", "dodecahedron"):
        return True
    if "complete_edges_from_faces" in cfg and (gen == "icosphere" and case.get("n_refine", 0) >= 1 or
                                               gen == "spherify_vertices" and case.get("n_subdiv", 0) >= 1):
        return True
    if "complete_faces_from_cells" in cfg and case.get("volume"):
        return True
    return False


def common_flags(src, case):
    """flags every case carries: library-wide config switches of the case and the form of integer parameters"""
    flags = {"np_ints": src.choice([False] * 5 + [True]), "int_scalars": src.choice([False, False, True])}
    if flags["np_ints"] and src.choice([0, 1]):
        flags["np_ints"] = "int64"
    # how the caller spells the call: required arguments by position + optional ones by keyword ('mixed'), everything by
    # position in the documented order, or everything by keyword; switches as bool / numpy.bool_ / 0-1; reals as float or
    # numpy.float64 (integral ones as int when int_scalars)
    flags["spell"] = src.choice(["mixed", "pos", "kw"])
    flags["flag_form"] = src.choice(["bool", "bool", "numpy", "int"])
    flags["np_floats"] = src.choice([False, False, False, True])
    switches = [{}] * 6 + [{"sort_neighborhoods": False}, {"complete_edges_from_faces": False}, {"complete_faces_from_cells": False},
                           {"display_duplicate_attribute_warning": True}, {"export_edges_in_obj": False}]
    cfg = src.choice(switches)
    flags["config"] = {} if config_excluded(case, cfg) else dict(cfg)
    return flags


def widen(src, n):
    """a resolution: the lattice value mostly, sometimes an arbitrary value of a wide range; returns (value, class)"""
    if n < 100 and src.choice([0] * 9 + [1]):
        return src.integer(10, 300), "random"
    return n, None


def tag_sizes(case):
    """class 'pow2-boundary-size': a vertex / face / element count of the result lies around 128, 256, 32768 or 65536"""
    g = case.get("gen")
    c = []
    if g == "torus":
        ab = case["major_segments"] * case["minor_segments"]
        c = [ab, 2 * ab if case["triangulate"] else ab]
    elif g == "sphere_uv":
        ab = case["n_lat"] * case["n_long"]
        c = [ab, ab + 2]
    elif g == "unit_grid":
        c = [case["nu"] * case["nv"], (case["nu"] - 1) * (case["nv"] - 1) * (2 if case["triangulate"] else 1)]
    elif g == "unit_triangle":
        c = [case["nu"] * (case["nu"] + 1) // 2, (case["nu"] - 1) ** 2]
    elif g == "cylinder":
        c = [2 * case["N"], 2 * case["N"] + 2, 4 * case["N"]]
    elif g == "ring":
        c = [case["N"] * case["n_cover"], case["N"] * case["n_cover"] + 1, case["N"] * case["n_cover"] + 2]
    elif g == "flat_ring":
        c = [case["N"] * case["n_cover"], case["N"] * case["n_cover"] + 2]
    elif g == "sphere_fibonacci":
        c = [case["n_pts"], 2 * case["n_pts"] - 4]
    elif g == "chain_of_vertices":
        c = [len(case["points"])]
    elif g == "vector_field":
        c = [2 * len(case["origins"])]
    elif g == "cylindrify_edges":
        c = [2 * case["N"], 2 * case["N"] * max(1, len(case["edges"]))]
    if c and is_pow2_size(*c) and case.get("wide") in (None, "hazard"):
        case["wide"] = "pow2"
    return case


def arg_class(src):
    """(uniform scale factor, integer-typed arguments): unit scale mostly, tiny / huge scale and integer Vec / arrays sometimes"""
    k = src.choice(["unit", "unit", "unit", "tiny", "huge", "int"])
    if k == "tiny":
        return src.choice([1e-3, 1e-4, 1e-6]), False
    if k == "huge":
        return src.choice([1e3, 1e4, 1e6]), False
    return 1.0, k == "int"


def scaled(pts, S):
    return [[float(x * S) for x in p] for p in pts]


def product(*axes):
    return [list(p) for p in itertools.product(*axes)]


BOOL = (False, True)
FAMILIES = {}        # family -> (lattice, builder(params, src) -> case, fn)
REAL_VARIANTS = 3


def family_strategy(name):
    lat, build, _ = FAMILIES[name]

    @st.composite
    def strat(draw):
        src = HypSrc(draw)
        case = build(draw(st.sampled_from(lat)), src)
        case.update(common_flags(src, tag_sizes(case)))
        return case
    return strat()


# ================================================================================================ tetrahedron

def build_tet(p, src):
    S, ints = arg_class(src)
    far = far_offset(src, S)
    return {"gen": "tetrahedron", "P": placed(distinct_points(src, 4, ints=ints), S, far), "volume": p[0], "explicit": p[1],
            "scale": S, "int_args": ints, "far": far}


def fn_tetrahedron(case, ctx, A):
    import mouette as M
    P = case["P"]
    vol = bool(case["volume"])
    ctx.label(f"volume={vol}")
    label_args(case, ctx)
    ctx.nontrivial(vol)
    pre = "tetrahedron"
    args = A.vecs("P", P, case.get("int_args"))
    ok, m = spelled_call(ctx, pre, M.procedural.tetrahedron, case,
                         list(zip(("P1", "P2", "P3", "P4"), args)) + [("volume", B(case, vol))], 4,
                         omitted(case, None if vol or case["explicit"] else "volume"))
    if not ok:
        return
    r = check_surface(ctx, pre, m, nV=4, nF=4, arity=3, chi=2, loops=0, comps=1, cls="VolumeMesh" if vol else "SurfaceMesh")
    V = r[0] if r else vertex_array(ctx, pre, m)
    if V is not None:
        check_close(ctx, pre + ":corners", V, P, sc_of(case, P), "vertices are not the four requested points in order", 1e-12)
    if vol:
        if not check_type(ctx, pre, m, "VolumeMesh"):
            return
        C = index_rows(ctx, pre, m.cells, "cells")
        if C is not None:
            ctx.check(len(C) == 1 and sorted(C[0]) == [0, 1, 2, 3], pre + ":cells", f"volume=True: cells = {C}, expected the single cell on vertices 0,1,2,3")


# ================================================================================================ hexahedra

HEX_QUADS = [{0, 1, 2, 3}, {0, 1, 5, 4}, {1, 2, 6, 5}, {2, 3, 7, 6}, {3, 0, 4, 7}, {4, 5, 6, 7}]
UNIT_CUBE = [[-.5, -.5, -.5], [.5, -.5, -.5], [.5, .5, -.5], [-.5, .5, -.5], [-.5, -.5, .5], [.5, -.5, .5], [.5, .5, .5], [-.5, .5, .5]]


HEXA_LATTICE = ([["hexahedron", c, t, v] for c in BOOL for t in BOOL for v in BOOL] +
                [["axis_aligned_cube", c, t, False] for c in BOOL for t in BOOL] +
                [["hexahedron_4pts", c, False, v] for c in BOOL for v in BOOL])


def build_hexa(p, src):
    gen, colored, triangulate, volume = p
    case = {"gen": gen, "colored": colored, "triangulate": triangulate, "volume": volume}
    omit_defaults(src, case, {"colored": False, "triangulate": False, "volume": False} if gen == "hexahedron" else
                  {"colored": False, "triangulate": False} if gen == "axis_aligned_cube" else {"colored": False, "volume": False})
    if gen == "axis_aligned_cube":
        return case
    S, ints = arg_class(src)
    far = far_offset(src, S)
    case.update(scale=S, int_args=ints, far=far)
    if gen == "hexahedron":
        # the combinatorial cube of the docstring diagram in an arbitrary (jittered, sheared, moved) configuration
        o = point(src)
        s = src.real(0.2, 5.0)
        jit = [[src.real(-0.3, 0.3, nice=[0.0]) for _ in range(3)] for _ in range(8)]
        if ints:
            o, s, jit = [float(round(x)) for x in o], 2.0, [[0.0] * 3] * 8
        case["P"] = placed([[o[k] + s * (UNIT_CUBE[i][k] + jit[i][k]) for k in range(3)] for i in range(8)], S, far)
    else:
        case["P"] = placed(distinct_points(src, 4, ints=ints), S, far)
    return case


def fn_hexahedron(case, ctx, A):
    import mouette as M
    gen = case["gen"]
    colored, tri, vol = bool(case["colored"]), bool(case["triangulate"]), bool(case["volume"])
    ctx.label(gen, f"{gen}:colored={colored},triangulate={tri},volume={vol}")
    label_args(case, ctx)
    ints = case.get("int_args")
    ctx.nontrivial(colored or tri or vol)
    pre = gen
    om = omitted(case)
    if gen == "hexahedron":
        P = case["P"]
        ok, m = spelled_call(ctx, pre, M.procedural.hexahedron, case,
                             list(zip(["P%d" % k for k in range(1, 9)], A.vecs("P", P, ints))) +
                             [("colored", B(case, colored)), ("triangulate", B(case, tri)), ("volume", B(case, vol))], 8, om)
        corners = P
    elif gen == "axis_aligned_cube":
        ok, m = spelled_call(ctx, pre, M.procedural.axis_aligned_cube, case, [("colored", B(case, colored)), ("triangulate", B(case, tri))], 0, om)
        corners = UNIT_CUBE
    else:
        P = np.array(case["P"], dtype=float)
        ok, m = spelled_call(ctx, pre, M.procedural.hexahedron_4pts, case,
                             list(zip(("P1", "P2", "P3", "P4"), A.vecs("P", case["P"], ints))) +
                             [("colored", B(case, colored)), ("volume", B(case, vol))], 4, om)
        X, Y = P[1] - P[0], P[2] - P[0]
        corners = [P[0], P[0] + X, P[0] + X + Y, P[0] + Y, P[3], P[3] + X, P[3] + X + Y, P[3] + Y]
    if not ok:
        return
    sc = sc_of(case, corners)
    if vol:
        if not check_type(ctx, pre, m, "VolumeMesh"):
            return
        V = vertex_array(ctx, pre, m)
        if V is None:
            return
        check_close(ctx, pre + ":corners", V, corners, sc, "volume=True: vertices are not the eight corners in diagram order")
        C = index_rows(ctx, pre, m.cells, "cells")
        if C is not None:
            ctx.check(C == [tuple(range(8))], pre + ":cells", f"volume=True: cells = {C}, expected the single hexahedron (0,...,7)")
        F = index_rows(ctx, pre, m.faces, "faces")
        if F is not None:
            sets = [set(f) for f in F]
            ctx.check(all(s in HEX_QUADS for s in sets) and len(set(map(frozenset, sets))) == len(sets), pre + ":cell-faces",
                      f"volume=True: faces {F} are not (distinct) faces of the hexahedron")
        return
    r = check_surface(ctx, pre, m, nV=8, nF=12 if tri else 6, arity=3 if tri else 4, chi=2, loops=0, comps=1)
    if r is None:
        return
    V, F, ref = r
    check_close(ctx, pre + ":corners", V, corners, sc, "vertices are not the eight corners in diagram order")
    if tri:
        per = Counter()
        for f in F:
            qs = [i for i, q in enumerate(HEX_QUADS) if set(f) <= q]
            if not ctx.check(len(qs) == 1, pre + ":faces", f"triangle {f} lies in no face of the diagram's hexahedron"):
                return
            per[qs[0]] += 1
        ctx.check(all(per[i] == 2 for i in range(6)), pre + ":faces", f"triangles per hexahedron face: {dict(per)}, expected two each")
    else:
        ctx.check(sorted(map(sorted, F)) == sorted(map(sorted, HEX_QUADS)), pre + ":faces", f"quads {F} are not the six faces of the diagram")
    ok, has = ctx.call(pre + ":colored", m.faces.has_attribute, "color")
    if not ok:
        return
    if not ctx.check(bool(has) == colored, pre + ":colored", f"colored={colored} but faces.has_attribute('color') = {has}"):
        return
    if colored:
        ok, attr = ctx.call(pre + ":colored", m.faces.get_attribute, "color")
        if not ok:
            return
        try:
            cols = np.array([[float(x) for x in attr[i]] for i in range(len(F))], dtype=float)
            n_entries = len(attr)
        except Exception as e:
            ctx.fail(pre + ":colored", f"colour attribute unreadable: {type(e).__name__}: {e}")
            return
        ctx.check(cols.shape == (len(F), 3) and bool(np.all(np.isfinite(cols))) and bool(np.all(np.abs(cols).sum(axis=1) > 0)),
                  pre + ":colored", f"some face has no colour: {cols.tolist()}")
        ctx.check(n_entries <= len(F), pre + ":colored-extent",
                  f"the face colour attribute holds {n_entries} entries but the mesh has {len(F)} faces (colours written for faces that do not exist)")


# ================================================================================================ platonic solids

PLATONIC_LATTICE = [["octahedron", False, False], ["dodecahedron", False, False], ["icosahedron", False, False],
                    ["icosahedron", True, False], ["icosahedron", False, True], ["icosahedron", False, "near1"]]


def centre_radius(src, defaults):
    """centre, radius, scale, int flag of a sphere-like generator (defaults: arguments omitted in the call)"""
    if defaults == "near1":     # centre left at its default (the origin), radius close to but different from 1
        return {"center": [0.0, 0.0, 0.0], "radius": src.choice(near(1.0)), "defaults": "radius-only", "near_special": True}
    if defaults:
        return {"center": [0.0, 0.0, 0.0], "radius": 1.0, "defaults": True}
    S, ints = arg_class(src)
    c = center(src)
    if ints:
        c = [float(round(x)) for x in c]
    far = far_offset(src, S)
    return {"center": placed([c], S, far)[0], "radius": float(radius(src) * S), "scale": S, "int_args": ints, "defaults": False,
            "far": far}


def build_platonic(p, src):
    case = {"gen": p[0]}
    if p[0] == "icosahedron":
        case.update(centre_radius(src, p[2]), uv=p[1])
    return case


def fn_platonic(case, ctx, A):
    import mouette as M
    gen = case["gen"]
    pre = gen
    ctx.label(gen)
    c = np.zeros(3)
    rad = 1.0
    if gen == "octahedron":
        ok, m = ctx.call(pre, M.procedural.octahedron)
        nV, nF, ar = 6, 8, 3
    elif gen == "dodecahedron":
        ok, m = ctx.call(pre, M.procedural.dodecahedron)
        nV, nF, ar = 20, 12, 5
    else:
        c = np.array(case["center"], dtype=float)
        rad = float(case["radius"]) * (0.5 if A.round == 2 and case.get("defaults") is not True else 1.0)
        uv = bool(case["uv"])
        ctx.label(f"icosahedron:uv={uv}")
        label_args(case, ctx)
        ctx.nontrivial(uv or rad != 1.0 or bool(np.any(c != 0)))
        dfl = case.get("defaults")
        om = omitted(case, "center" if dfl else None, "radius" if dfl is True else None,
                     "uv" if not uv and (case.get("spell") or "mixed") == "mixed" else None)
        ok, m = spelled_call(ctx, pre, M.procedural.icosahedron, case,
                             [("center", None if dfl else A.vec("center", c, case.get("int_args"))), ("radius", Rv(case, rad)), ("uv", B(case, uv))],
                             2 if uv else 0, om)
        nV, nF, ar = 12, 20, 3
    if not ok:
        return
    r = check_surface(ctx, pre, m, nV=nV, nF=nF, arity=ar, chi=2, loops=0, comps=1)
    if r is None:
        return
    V, F, ref = r
    sc = sc_of(case, c, rad)
    d = np.linalg.norm(V - c, axis=1)
    ctx.check(float(d.max() - d.min()) <= TOL * sc, pre + ":on-sphere", f"vertices are not equidistant from the centre {c.tolist()}: distances in [{float(d.min())!r}, {float(d.max())!r}]")
    L = edge_lengths(V, ref)
    ctx.check(float(L.max() - L.min()) <= TOL * sc, pre + ":regular", f"edge lengths differ: [{float(L.min())!r}, {float(L.max())!r}]")
    if gen == "icosahedron":
        # the radius parameter is a scale factor: the circumscribed radius is proportional to it
        ok, m1 = ctx.call(pre, M.procedural.icosahedron)
        if ok:
            V1 = vertex_array(ctx, pre, m1)
            if V1 is not None and len(V1) == 12:
                check_close(ctx, pre + ":radius", d, rad * np.linalg.norm(V1, axis=1), sc, "distance to the centre is not radius x (distance in the default icosahedron)")
        if case["uv"]:
            names = []
            for cont in ("vertices", "face_corners", "faces"):
                try:
                    names += [f"{cont}.{a}" for a in getattr(m, cont).attributes]
                except Exception:
                    pass
            ctx.check(any("uv" in a.lower() for a in names), pre + ":uv-attribute", f"uv=True ('whether to generate uv coordinates') but the mesh carries no uv attribute (attributes: {names})")


# ================================================================================================ cylinder

AXES = ["x", "y", "z", "-z", "near-z", "random"]


def build_cylinder(p, src):
    N, caps, ax = p
    P1 = center(src)
    h = src.real(0.1, 10.0, nice=[1.0, 2.0] + near(1.0)[:2])
    if ax == "random":
        d = [src.real(-1, 1), src.real(-1, 1), src.real(-1, 1)]
        n = math.sqrt(sum(x * x for x in d))
        d = [x / n for x in d] if n > 0.1 else [0.6, 0.0, 0.8]
    elif ax == "near-z":
        e = src.choice([1e-7, 5e-7, 2e-6, 1e-5, 1e-3])
        d = [e, src.choice([0.0, e, -e]), src.choice([1.0, -1.0])]
    else:
        d = {"x": [1.0, 0.0, 0.0], "y": [0.0, 1.0, 0.0], "z": [0.0, 0.0, 1.0], "-z": [0.0, 0.0, -1.0]}[ax]
    S, ints = arg_class(src)
    if ints and ax in ("x", "y", "z", "-z"):
        P1, h = [float(round(x)) for x in P1], float(max(1, round(h)))
    else:
        ints = False
    P2 = [P1[k] + h * d[k] for k in range(3)]
    far = far_offset(src, S)
    N, wide = (N, "hazard") if N in HAZARD and N > 12 else widen(src, N)
    case = {"gen": "cylinder", "N": N, "fill_caps": caps, "axis": ax, "P1": placed([P1], S, far)[0], "P2": placed([P2], S, far)[0],
            "radius": float(radius(src) * S), "scale": S, "int_args": ints, "far": far, "wide": wide}
    return omit_defaults(src, case, {"radius": 1.0, "N": 50, "fill_caps": True})


def check_tube_geometry(ctx, pre, V, idx, A, B, rad, N, sc, what=""):
    """vertices idx: N on the circle of radius rad around A, N around B, in the planes orthogonal to AB; regular spacing"""
    A, B = np.asarray(A, float), np.asarray(B, float)
    h = float(np.linalg.norm(B - A))
    a = (B - A) / h
    W = V[idx] - A
    t = W @ a
    radial = np.linalg.norm(W - np.outer(t, a), axis=1)
    ok = ctx.check(float(np.max(np.abs(radial - rad))) <= TOL * sc, pre + ":radius",
                   f"{what}distance to the axis in [{float(radial.min())!r}, {float(radial.max())!r}], requested radius {rad!r}")
    at0 = [i for i, x in zip(idx, t) if abs(x) <= TOL * sc]
    at1 = [i for i, x in zip(idx, t) if abs(x - h) <= TOL * sc]
    ok = ctx.check(len(at0) == N and len(at1) == N and len(at0) + len(at1) == len(idx), pre + ":end-planes",
                   f"{what}{len(at0)} vertices in the plane of P1, {len(at1)} in the plane of P2, {len(idx) - len(at0) - len(at1)} elsewhere; expected {N} + {N}") and ok
    return ok, at0, at1


def check_regular_polygon(ctx, pre, V, loop, rad, sc, what):
    n = len(loop)
    chord = np.array([np.linalg.norm(V[loop[i]] - V[loop[(i + 1) % n]]) for i in range(n)])
    return ctx.check(float(np.max(np.abs(chord - 2 * rad * math.sin(math.pi / n)))) <= TOL * sc, pre + ":spacing",
                     f"{what}: consecutive rim vertices are not 2pi/{n} apart (chords in [{float(chord.min())!r}, {float(chord.max())!r}], expected {2 * rad * math.sin(math.pi / n)!r})")


def fn_cylinder(case, ctx, A):
    import mouette as M
    om = omitted(case)
    N, caps, rad = int(case["N"]), bool(case["fill_caps"]), float(case["radius"]) * (0.5 if A.round == 2 and "radius" not in om else 1.0)
    P1, P2 = np.array(case["P1"], float), np.array(case["P2"], float)
    ctx.label("axis=" + case["axis"], f"fill_caps={caps}", f"N={N}")
    label_args(case, ctx)
    ctx.nontrivial(not caps)
    pre = "cylinder"
    ints = case.get("int_args")
    ok, m = spelled_call(ctx, pre, M.procedural.cylinder, case,
                         [("P1", A.vec("P1", P1, ints)), ("P2", A.vec("P2", P2, ints)), ("radius", Rv(case, rad)), ("N", I(case, N)),
                          ("fill_caps", B(case, caps))], 2, om)
    if not ok:
        return
    r = check_surface(ctx, pre, m, nV=2 * N + (2 if caps else 0), nF=4 * N if caps else 2 * N, arity=3,
                      chi=2 if caps else 0, loops=0 if caps else 2, comps=1)
    if r is None:
        return
    V, F, ref = r
    sc = sc_of(case, P1, P2, rad)
    if caps:
        check_close(ctx, pre + ":cap-centres", V[2 * N:], [P1, P2], sc, "the two cap centres are not P1, P2")
    okg, at0, at1 = check_tube_geometry(ctx, pre, V, list(range(2 * N)), P1, P2, rad, N, sc)
    if not okg:
        return
    # each rim is a regular N-gon and a cycle of the mesh
    if caps:
        for c, rim in ((2 * N, at0), (2 * N + 1, at1)):
            ring = ref.ring(c)
            if ctx.check(ring is not None and ring[0] and sorted(ring[2]) == sorted(rim), pre + ":caps", f"cap centre {c} is not surrounded by the {N} rim vertices of its end"):
                check_regular_polygon(ctx, pre, V, ring[2], rad, sc, f"rim around cap centre {c}")
    else:
        for lp in ref.border_loops():
            if ctx.check(sorted(lp) in (sorted(at0), sorted(at1)), pre + ":rims", f"border loop {lp} is not one of the two end circles"):
                check_regular_polygon(ctx, pre, V, lp, rad, sc, f"border loop {lp[:3]}..")


# ================================================================================================ torus

def build_torus(p, src):
    a, b, tri = p
    S, _ = arg_class(src)
    R = src.real(0.5, 10.0, nice=[1.0] + near(1.0)[:2])
    r = float(round(src.real(0.05, 0.9, nice=[0.3, 0.300002, 0.299998]) * R, 6))
    wide = "hazard" if max(a, b) > 50 or (max(a, b) in HAZARD and min(a, b) == 3) else None
    if wide is None and max(a, b) < 10:
        if src.choice([0, 1]):
            a, wide = widen(src, a)
        else:
            b, wide = widen(src, b)
    case = {"gen": "torus", "major_segments": a, "minor_segments": b, "triangulate": tri, "major_radius": float(R * S),
            "minor_radius": float(r * S), "scale": S, "wide": wide}
    omit_defaults(src, case, {"major_segments": 50, "minor_segments": 30, "major_radius": 1.0, "minor_radius": 0.3, "triangulate": False})
    if "major_radius" in case["omit"] or "minor_radius" in case["omit"]:
        # the documented default radii (1 and 0.3) are absolute: unit scale, and the drawn radius keeps minor < major
        R1 = 1.0 if "major_radius" in case["omit"] else float(R)
        r1 = 0.3 if "minor_radius" in case["omit"] else float(round(r / R * R1, 6))
        case.update(major_radius=R1, minor_radius=r1, scale=1.0)
    return case


def fn_torus(case, ctx, A):
    import mouette as M
    a, b, tri = int(case["major_segments"]), int(case["minor_segments"]), bool(case["triangulate"])
    R, r0 = float(case["major_radius"]), float(case["minor_radius"])
    ctx.label(f"triangulate={tri}", "equal" if a == b else "unequal", f"major={a}", f"minor={b}")
    label_args(case, ctx)
    ctx.nontrivial(a != b or tri)
    pre = "torus"
    ok, m = spelled_call(ctx, pre, M.procedural.torus, case,
                         [("major_segments", I(case, a)), ("minor_segments", I(case, b)), ("major_radius", Rv(case, R)),
                          ("minor_radius", Rv(case, r0)), ("triangulate", B(case, tri))], 4, omitted(case))
    if not ok:
        return
    r = check_surface(ctx, pre, m, nV=a * b, nF=a * b * (2 if tri else 1), arity=3 if tri else 4, chi=0, loops=0, comps=1)
    if r is None:
        return
    V, F, ref = r
    sc = sc_of(case, R + r0)
    d = np.sqrt((np.hypot(V[:, 0], V[:, 1]) - R) ** 2 + V[:, 2] ** 2)
    ctx.check(float(np.max(np.abs(d - r0))) <= TOL * sc, pre + ":on-torus",
              f"distance to the core circle (radius {R}, plane z=0) in [{float(d.min())!r}, {float(d.max())!r}], requested minor radius {r0!r}")
    # the vertices are a x b distinct points: a meridian planes, b positions around the tube
    ang_u = np.round(np.mod(np.arctan2(V[:, 1], V[:, 0]), 2 * math.pi) / (2 * math.pi) * a, 6) % a
    ang_v = np.round(np.mod(np.arctan2(V[:, 2], np.hypot(V[:, 0], V[:, 1]) - R), 2 * math.pi) / (2 * math.pi) * b, 6) % b
    ctx.check(sorted(zip(ang_u.tolist(), ang_v.tolist())) == [(float(i), float(j)) for i in range(a) for j in range(b)], pre + ":segments",
              f"the vertices are not one per (major segment, minor segment) pair of a regular {a} x {b} subdivision")


# ================================================================================================ spheres

def build_sphere_uv(p, src):
    n_lat, n_long = p[0], p[1]
    wide = "hazard" if (max(n_lat, n_long) in HAZARD and min(n_lat, n_long) <= 3) else None
    if wide is None and max(n_lat, n_long) < 10:
        if src.choice([0, 1]):
            n_lat, wide = widen(src, n_lat)
        else:
            n_long, wide = widen(src, n_long)
    case = {"gen": "sphere_uv", "n_lat": n_lat, "n_long": n_long, "wide": wide}
    case.update(centre_radius(src, p[2]))
    return omit_defaults(src, case, {"n_lat": 30, "n_long": 50})


def fn_sphere_uv(case, ctx, A):
    import mouette as M
    n_lat, n_long = int(case["n_lat"]), int(case["n_long"])
    dflt = case.get("defaults") is True
    c, rad = np.array(case["center"], float), float(case["radius"]) * (0.5 if A.round == 2 and not dflt else 1.0)
    ctx.label("equal" if n_lat == n_long else "unequal", f"n_lat={n_lat}", f"n_long={n_long}")
    label_args(case, ctx)
    ctx.nontrivial(n_lat != n_long)
    pre = "sphere_uv"
    dfl = case.get("defaults")
    ok, m = spelled_call(ctx, pre, M.procedural.sphere_uv, case,
                         [("n_lat", I(case, n_lat)), ("n_long", I(case, n_long)),
                          ("center", None if dfl else A.vec("center", c, case.get("int_args"))), ("radius", Rv(case, rad))], 2,
                         omitted(case, "center" if dfl else None, "radius" if dflt else None))
    if not ok:
        return
    # vertex count pinned by tests/test_procedural.py::test_sphere_uv ("don't forget the poles")
    r = check_surface(ctx, pre, m, nV=n_lat * n_long + 2, chi=2, loops=0, comps=1)
    if r is None:
        return
    V, F, ref = r
    sc = sc_of(case, c, rad)
    d = np.linalg.norm(V - c, axis=1)
    ctx.check(float(np.max(np.abs(d - rad))) <= TOL * sc, pre + ":on-sphere", f"distance to the centre in [{float(d.min())!r}, {float(d.max())!r}], requested radius {rad!r}")
    used = sorted(set(v for f in F for v in f))
    W = (V[used] - c) / rad
    poles = [i for i, w in zip(used, W) if math.hypot(w[0], w[1]) <= 1e-7]
    ctx.check(len(poles) == 2 and abs(W[used.index(poles[0])][2] + W[used.index(poles[1])][2]) <= 1e-9 if len(poles) == 2 else False,
              pre + ":poles", f"the used vertices on the axis are {poles}; expected exactly the north and the south pole")
    longs = set(round(math.atan2(w[1], w[0]) / (2 * math.pi) * n_long, 6) % n_long for i, w in zip(used, W) if i not in poles)
    ctx.check(longs == set(float(j) for j in range(n_long)), pre + ":longitudes", f"longitudes (in units of 2pi/n_long): {sorted(longs)}; expected 0..{n_long - 1}")
    ar = Counter(len(f) for f in F)
    ctx.check(set(ar) <= {3, 4} and ar[3] == 2 * n_long, pre + ":face-arity", f"face sizes {dict(ar)}: expected two fans of {n_long} triangles around the poles and quads elsewhere")


def build_icosphere(p, src):
    case = {"gen": "icosphere", "n_refine": p[0]}
    case.update(centre_radius(src, p[1]))
    return omit_defaults(src, case, {"n_refine": 3})


def fn_icosphere(case, ctx, A):
    import mouette as M
    n = int(case["n_refine"])
    dflt = case.get("defaults") is True
    c, rad = np.array(case["center"], float), float(case["radius"]) * (0.5 if A.round == 2 and not dflt else 1.0)
    ctx.label(f"n_refine={n}")
    label_args(case, ctx)
    ctx.nontrivial(rad != 1.0 or bool(np.any(c != 0)))
    pre = "icosphere"
    dfl = case.get("defaults")
    ok, m = spelled_call(ctx, pre, M.procedural.icosphere, case,
                         [("n_refine", I(case, n)), ("center", None if dfl else A.vec("center", c, case.get("int_args"))), ("radius", Rv(case, rad))],
                         1, omitted(case, "center" if dfl else None, "radius" if dflt else None))
    if not ok:
        return
    r = check_surface(ctx, pre, m, nV=10 * 4 ** n + 2, nF=20 * 4 ** n, arity=3, chi=2, loops=0, comps=1)
    if r is None:
        return
    V, F, ref = r
    d = np.linalg.norm(V - c, axis=1)
    ctx.check(float(np.max(np.abs(d - rad))) <= TOL * sc_of(case, c, rad), pre + ":on-sphere", f"distance to the centre in [{float(d.min())!r}, {float(d.max())!r}], requested radius {rad!r}")


FIB_LATTICE = ([[n, s] for n in list(range(1, 41)) + [100, 300] for s in BOOL if n >= 4 or not s] +
               [[n, bool(n % 2)] for n in HAZARD if n > 40] + [[n, s] for n in POW2_N for s in BOOL])


def build_fibonacci(p, src):
    S, _ = arg_class(src)
    n, wide = (p[0], "hazard") if p[0] > 40 else widen(src, p[0])
    case = {"gen": "sphere_fibonacci", "n_pts": n, "build_surface": p[1], "radius": float(radius(src) * S), "scale": S, "wide": wide}
    return omit_defaults(src, case, {"radius": 1.0, "build_surface": True}) if n >= 4 else case


def fn_fibonacci(case, ctx, A):
    import mouette as M
    om = omitted(case)
    n, surf, rad = int(case["n_pts"]), bool(case["build_surface"]), float(case["radius"]) * (0.5 if A.round == 2 and "radius" not in om else 1.0)
    label_args(case, ctx)
    ctx.label(f"build_surface={surf}", "n<=8" if n <= 8 else "n>40" if n > 40 else "n>8")
    ctx.nontrivial(not surf or rad != 1.0)
    pre = "sphere_fibonacci"
    ok, m = spelled_call(ctx, pre, M.procedural.sphere_fibonacci, case,
                         [("n_pts", I(case, n)), ("radius", Rv(case, rad)), ("build_surface", B(case, surf))], 1, om)
    if not ok:
        return
    if surf:
        r = check_surface(ctx, pre, m, nV=n, nF=2 * n - 4, arity=3, chi=2, loops=0, comps=1)
        if r is None:
            return
        V, F, ref = r
        ctx.check(signed_volume(V, F) > 0, pre + ":outward", f"faces are not oriented with outward normals (signed volume {signed_volume(V, F)!r})")
    else:
        if not check_type(ctx, pre, m, "PointCloud"):
            return
        V = vertex_array(ctx, pre, m)
        if V is None:
            return
        ctx.check(len(V) == n, pre + ":vertex-count", f"|V| = {len(V)}, requested n_pts = {n}")
    d = np.linalg.norm(V, axis=1)
    ctx.check(float(np.max(np.abs(d - rad))) <= TOL * sc_of(case, rad), pre + ":on-sphere", f"distance to the origin in [{float(d.min())!r}, {float(d.max())!r}], requested radius {rad!r}")
    if n >= 2:
        if n <= 2000:
            dmin = float((np.linalg.norm(V[:, None, :] - V[None, :, :], axis=2) + np.eye(n) * 1e9 * rad).min())
        else:
            from scipy.spatial import cKDTree
            dmin = float(cKDTree(V).query(V, k=2)[0][:, 1].min())
        ctx.check(dmin > 1e-6 * rad, pre + ":distinct", f"two sample points coincide (min distance {dmin!r})")


# ================================================================================================ rings

MAX_DEFECT = 2 * math.pi - 0.01


def defect(src):
    return src.real(0.0, MAX_DEFECT, nice=[0.0, 0.1, 0.3, math.pi / 2, math.pi, 5.0, MAX_DEFECT, 1e-7, 1e-5, MAX_DEFECT - 1e-7] + near(math.pi)[:2])


def build_ring(p, src):
    N, wide = (p[0], "hazard") if p[0] > 10 else widen(src, p[0])
    case = {"gen": "ring", "N": N, "open": p[1], "n_cover": p[2], "defect": defect(src), "wide": wide}
    return omit_defaults(src, case, {"open": False, "n_cover": 1})


def fn_ring(case, ctx, A):
    import mouette as M
    N, opn, nc, defect = int(case["N"]), bool(case["open"]), int(case["n_cover"]), float(case["defect"])
    if A.round == 2:    # a nearby, different request
        defect = defect + 4e-4 if defect + 4e-4 <= MAX_DEFECT else defect - 4e-4
    ctx.label(f"open={opn}", f"n_cover={nc}", "defect=0" if defect == 0 else "defect=max" if defect >= MAX_DEFECT else "defect>pi" if defect > math.pi else "defect<=pi")
    ctx.nontrivial(opn or nc != 1)
    label_args(case, ctx)
    pre = "ring"
    ok, m = spelled_call(ctx, pre, M.procedural.ring, case,
                         [("N", I(case, N)), ("defect", Rv(case, defect)), ("open", B(case, opn)), ("n_cover", I(case, nc))], 2, omitted(case))
    if not ok:
        return
    K = N * nc
    r = check_surface(ctx, pre, m, nV=K + (2 if opn else 1), nF=K, arity=3, chi=1, loops=1, comps=1)
    if r is None:
        return
    V, F, ref = r
    ctx.check(all(0 in f for f in F), pre + ":fan", "not every triangle contains the centre vertex 0")
    on_border = 0 in ref.border_vertices()
    ctx.check(on_border == opn, pre + ":open", f"open={opn} but the centre vertex is {'on the border' if on_border else 'interior'}")
    rim = np.array([[math.cos(2 * i * math.pi / N), math.sin(2 * i * math.pi / N), 0.0] for i in range(len(V) - 1)])
    check_close(ctx, pre + ":rim", V[1:], rim, 1.0, "rim vertex k is not at angle 2(k-1)pi/N on the unit circle of the plane z=0")
    ctx.check(abs(V[0][0]) <= TOL and abs(V[0][1]) <= TOL, pre + ":apex-axis", f"the centre vertex {V[0].tolist()} is not on the axis of the ring")
    s = corner_angle_sum(V, F, 0)
    exp = nc * (2 * math.pi - defect)
    ctx.check(abs(s - exp) <= 1e-5 * nc, pre + ":defect",
              f"corner angles at the centre sum to {s!r}; with defect {defect!r} and n_cover {nc} they must sum to {exp!r} (difference {s - exp:.3e})")


def build_flat_ring(p, src):
    N, wide = (p[0], "hazard") if p[0] > 10 else widen(src, p[0])
    case = {"gen": "flat_ring", "N": N, "n_cover": p[1], "defect": defect(src), "wide": wide}
    return omit_defaults(src, case, {"n_cover": 1})


def fn_flat_ring(case, ctx, A):
    import mouette as M
    N, nc, defect = int(case["N"]), int(case["n_cover"]), float(case["defect"])
    if A.round == 2:
        defect = defect + 4e-4 if defect + 4e-4 <= MAX_DEFECT else defect - 4e-4
    ctx.label(f"n_cover={nc}", "N<3" if N < 3 else "N>=3", "defect=0" if defect == 0 else "defect>0")
    ctx.nontrivial(nc != 1)
    label_args(case, ctx)
    pre = "flat_ring"
    ok, m = spelled_call(ctx, pre, M.procedural.flat_ring, case,
                         [("N", I(case, N)), ("defect", Rv(case, defect)), ("n_cover", I(case, nc))], 2, omitted(case))
    if not ok:
        return
    K = N * nc
    # counts pinned by tests/test_procedural.py::test_flat_ring (N*n_cover+2 vertices, N*n_cover faces)
    r = check_surface(ctx, pre, m, nV=K + 2, nF=K, arity=3, chi=1, loops=1, comps=1)
    if r is None:
        return
    V, F, ref = r
    ctx.check(all(0 in f for f in F), pre + ":fan", "not every triangle contains the centre vertex 0")
    ctx.check(0 in ref.border_vertices(), pre + ":open", "the centre vertex of a flat (cut open) ring must be on the border")
    ang = (2 * math.pi - defect) / N
    check_close(ctx, pre + ":apex", V[0], [0.0, 0.0, 0.0], 1.0, "centre vertex is not the origin")
    R = V[1:]
    ctx.check(float(np.max(np.abs(np.linalg.norm(R[:, :2], axis=1) - 1))) <= TOL and float(np.max(np.abs(R[:, 2]))) <= TOL, pre + ":rim",
              "rim vertices are not on the unit circle of the plane z=0")
    z = R[:, 0] + 1j * R[:, 1]
    step = z[1:] / z[:-1]
    dev_p = float(np.max(np.abs(step - np.exp(1j * ang))))
    dev_m = float(np.max(np.abs(step - np.exp(-1j * ang))))
    ctx.check(min(dev_p, dev_m) <= 1e-9, pre + ":defect",
              f"consecutive rim vertices are not turned by (2pi - defect)/N = {ang!r} (deviation {min(dev_p, dev_m):.3e}); total corner angle at the centre would not be n_cover*(2pi-defect)")
    if ang < math.pi - 1e-3:
        s = corner_angle_sum(V, F, 0)
        ctx.check(abs(s - nc * (2 * math.pi - defect)) <= 1e-9 * K, pre + ":defect", f"corner angles at the centre sum to {s!r}, expected {nc * (2 * math.pi - defect)!r}")


# ================================================================================================ triangle / quad

FLAT_LATTICE = [["triangle", False, False], ["quad", False, False], ["quad", False, True], ["quad", True, True]]


def build_flat(p, src):
    S, ints = arg_class(src)
    far = far_offset(src, S)
    return {"gen": p[0], "triangulate": p[1], "P": placed(distinct_points(src, 3, ints=ints), S, far), "explicit": p[2],
            "scale": S, "int_args": ints, "far": far}


def fn_flat(case, ctx, A):
    import mouette as M
    gen, tri = case["gen"], bool(case["triangulate"])
    P = np.array(case["P"], float)
    ctx.label(gen, f"{gen}:triangulate={tri}")
    label_args(case, ctx)
    args = A.vecs("P", P, case.get("int_args"))
    ctx.nontrivial(tri)
    pre = gen
    sc = sc_of(case, P)
    if gen == "triangle":
        ok, m = spelled_call(ctx, pre, M.procedural.triangle, case, list(zip(("P0", "P1", "P2"), args)), 3)
        if not ok:
            return
        r = check_surface(ctx, pre, m, nV=3, nF=1, arity=3, chi=1, loops=1, comps=1)
        if r:
            check_close(ctx, pre + ":corners", r[0], P, sc, "vertices are not the three requested points in order", 1e-12)
            ctx.check(r[1][0] in ((0, 1, 2), (1, 2, 0), (2, 0, 1)), pre + ":orientation", f"the face {r[1][0]} does not run P0, P1, P2")
        return
    ok, m = spelled_call(ctx, pre, M.procedural.quad, case, list(zip(("P0", "P1", "P2"), args)) + [("triangulate", B(case, tri))], 3,
                         omitted(case, None if tri or case["explicit"] else "triangulate"))
    if not ok:
        return
    r = check_surface(ctx, pre, m, nV=4, nF=2 if tri else 1, arity=3 if tri else 4, chi=1, loops=1, comps=1)
    if r is None:
        return
    V, F, ref = r
    # vertex order P0, P1, P1+P2-P0, P2 is pinned by tests/test_procedural.py::test_quad
    check_close(ctx, pre + ":corners", V, [P[0], P[1], P[1] + P[2] - P[0], P[2]], sc, "vertices are not P0, P1, P1+P2-P0, P2")
    lp = ref.border_loops()[0]
    i0 = lp.index(0)
    cyc = lp[i0:] + lp[:i0]
    ctx.check(cyc in ([0, 1, 2, 3], [0, 3, 2, 1]), pre + ":outline", f"the outline {cyc} is not the parallelogram P0, P1, P1+P2-P0, P2")


# ================================================================================================ unit grid / unit triangle

def planar_tiling(ctx, pre, V, F, total, cell, what):
    """faces lie in z=0, all have the same orientation and area `cell`, and their areas add up to `total`"""
    ctx.check(float(np.max(np.abs(V[:, 2]))) <= TOL, pre + ":planar", "vertices are not in the plane z=0")
    A = np.array([vector_area(V, f)[2] for f in F])
    ok = ctx.check(bool(np.all(A > 0)) or bool(np.all(A < 0)), pre + ":embedding", f"faces are not all oriented alike in the plane (signed areas {np.round(A, 6).tolist()[:12]})")
    ok = ctx.check(float(np.max(np.abs(np.abs(A) - cell))) <= TOL, pre + ":embedding", f"{what}: face areas in [{np.abs(A).min()!r}, {np.abs(A).max()!r}], expected {cell!r} each") and ok
    return ctx.check(abs(float(np.abs(A).sum()) - total) <= 1e-9, pre + ":embedding", f"{what}: face areas add up to {float(np.abs(A).sum())!r}, expected {total!r}") and ok


def check_uvs(ctx, pre, m, V, want):
    ok, has = ctx.call(pre + ":uvs", m.vertices.has_attribute, "uv_coords")
    if not ok:
        return
    if not ctx.check(bool(has) == want, pre + ":uvs", f"generate_uvs={want} but vertices.has_attribute('uv_coords') = {has}"):
        return
    if want:
        ok, attr = ctx.call(pre + ":uvs", m.vertices.get_attribute, "uv_coords")
        if not ok:
            return
        try:
            uv = np.array([[float(x) for x in attr[i]] for i in range(len(V))], dtype=float)
        except Exception as e:
            ctx.fail(pre + ":uvs", f"uv attribute unreadable: {type(e).__name__}: {e}")
            return
        check_close(ctx, pre + ":uvs", uv, V[:, :2], 1.0, "uv_coords of a vertex differ from its (x, y) position")


def build_grid(p, src):
    nu, nv = p[0], p[1]
    wide = "hazard" if max(nu, nv) > 13 else None
    if wide is None and max(nu, nv) < 10:
        if src.choice([0, 1]):
            nu, wide = widen(src, nu)
        else:
            nv, wide = widen(src, nv)
    case = {"gen": "unit_grid", "nu": nu, "nv": nv, "triangulate": p[2], "generate_uvs": p[3], "wide": wide}
    return omit_defaults(src, case, {"triangulate": False, "generate_uvs": False})


def fn_unit_grid(case, ctx, A):
    import mouette as M
    nu, nv, tri, uvs = int(case["nu"]), int(case["nv"]), bool(case["triangulate"]), bool(case["generate_uvs"])
    ctx.label("equal" if nu == nv else "nu<nv" if nu < nv else "nu>nv", f"triangulate={tri}", f"generate_uvs={uvs}")
    ctx.nontrivial(nu != nv or tri or uvs)
    label_args(case, ctx)
    pre = "unit_grid"
    ok, m = spelled_call(ctx, pre, M.procedural.unit_grid, case,
                         [("nu", I(case, nu)), ("nv", I(case, nv)), ("triangulate", B(case, tri)), ("generate_uvs", B(case, uvs))], 2, omitted(case))
    if not ok:
        return
    cells = (nu - 1) * (nv - 1)
    r = check_surface(ctx, pre, m, nV=nu * nv, nF=cells * (2 if tri else 1), arity=3 if tri else 4, chi=1, loops=1, comps=1)
    if r is None:
        return
    V, F, ref = r
    exp = sorted([i / (nu - 1), j / (nv - 1), 0.0] for i in range(nu) for j in range(nv))
    check_close(ctx, pre + ":lattice", sorted(V.tolist()), exp, 1.0, f"the vertices are not the {nu} x {nv} lattice of the unit square")
    planar_tiling(ctx, pre, V, F, 1.0, 1.0 / cells / (2 if tri else 1), f"{nu} x {nv} grid")
    check_uvs(ctx, pre, m, V, uvs)


def build_unit_triangle(p, src):
    case = {"gen": "unit_triangle", "nu": p[0], "nv": p[1], "generate_uvs": p[2], "wide": "hazard" if p[0] > 13 else None}
    return omit_defaults(src, case, {"generate_uvs": False})


def fn_unit_triangle(case, ctx, A):
    import mouette as M
    nu, nv, uvs = int(case["nu"]), int(case["nv"]), bool(case["generate_uvs"])
    ctx.label("equal" if nu == nv else "nu<nv" if nu < nv else "nu>nv", f"generate_uvs={uvs}")
    ctx.nontrivial(nu != nv or uvs)
    label_args(case, ctx)
    pre = "unit_triangle"
    ok, m = spelled_call(ctx, pre, M.procedural.unit_triangle, case,
                         [("nu", I(case, nu)), ("nv", I(case, nv)), ("generate_uvs", B(case, uvs))], 2, omitted(case))
    if not ok:
        return
    n = nu if nu == nv else None     # |V| = n(n+1)/2 pinned by test_unit_triangle; no formula is documented for nu != nv
    r = check_surface(ctx, pre, m, nV=n * (n + 1) // 2 if n else None, nF=(n - 1) ** 2 if n else None, arity=3, chi=1, loops=1, comps=1)
    if r is None:
        return
    V, F, ref = r
    inside = bool(np.all(V[:, 0] >= -TOL) and np.all(V[:, 1] >= -TOL) and np.all(V[:, 0] + V[:, 1] <= 1 + TOL))
    ctx.check(inside, pre + ":in-triangle", "a vertex lies outside the unit right triangle x>=0, y>=0, x+y<=1")
    have = [bool(np.any(np.max(np.abs(V - np.array(c)), axis=1) <= TOL)) for c in ([0, 0, 0], [1, 0, 0], [0, 1, 0])]
    if not ctx.check(all(have), pre + ":corners", f"corners (0,0), (1,0), (0,1) present: {have}; x range [{V[:, 0].min()}, {V[:, 0].max()}], y range [{V[:, 1].min()}, {V[:, 1].max()}]"):
        return
    A = np.array([vector_area(V, f)[2] for f in F])
    ctx.check(float(np.max(np.abs(V[:, 2]))) <= TOL, pre + ":planar", "vertices are not in the plane z=0")
    ctx.check((bool(np.all(A > 0)) or bool(np.all(A < 0))) and abs(float(np.abs(A).sum()) - 0.5) <= 1e-9, pre + ":embedding",
              f"faces do not tile the unit right triangle: signed areas sum {float(A.sum())!r}, absolute {float(np.abs(A).sum())!r}, expected 0.5 with one sign")
    if n:
        ctx.check(float(np.max(np.abs(np.abs(A) - 0.5 / (n - 1) ** 2))) <= TOL, pre + ":embedding", "faces are not congruent cells of the subdivision")
    check_uvs(ctx, pre, m, V, uvs)


# ================================================================================================ polylines

POLYLINE_LATTICE = ([["chain_of_vertices", n, loop, K, ex] for n in range(1, 9) for loop in BOOL for K in (2, 3) for ex in BOOL
                     if (n >= 3 or not loop) and (ex or not loop)] +
                    [["vector_field", n, K, dflt] for n in range(1, 7) for K in (1, 2, 3) for dflt in BOOL] +
                    [["chain_of_vertices", 0, False, 3, ex] for ex in BOOL] + [["vector_field", 0, 3, dflt] for dflt in BOOL] +
                    [["chain_of_vertices", n, bool(n % 2), 3, True] for n in POW2_N] + [["vector_field", n, 3, False] for n in (127, 128, 129)])


def build_polyline(p, src):
    gen = p[0]
    S, ints = arg_class(src)

    dt = src.choice(["int16", "int32", "int64"]) if ints else src.choice(["float64"] * 4 + ["float32"]) if S == 1.0 else "float64"

    def rows(n, K):
        if ints:
            return [[float(round(coord(src))) for _ in range(K)] for _ in range(n)]
        if dt == "float32":        # coordinates that float32 represents exactly
            return [[float(round(coord(src) * 8) / 8) for _ in range(K)] for _ in range(n)]
        return [[float(coord(src) * S) for _ in range(K)] for _ in range(n)]
    if gen == "chain_of_vertices":
        _, n, loop, K, ex = p
        return {"gen": gen, "loop": loop, "dim": K, "points": rows(n, K), "explicit": ex, "scale": S, "int_args": ints, "array_dtype": dt}
    _, n, K, dflt = p
    # vector_field converts its inputs with numpy.array ("sanitize input arrays"): nested lists / tuples and sequences of Vec too
    form = src.choice(["ndarray"] * 3 + ["list", "tuple", "vecs", "vecs"]) if n >= 1 else "ndarray"
    if form != "ndarray":
        dt = "int64" if ints else "float64"
    if form == "vecs" and K != 3:
        form = "list"
    org = rows(n, K)
    vecs = rows(n, K)
    return {"gen": gen, "dim": K, "origins": org, "vectors": vecs, "scale": S, "int_args": ints, "array_dtype": dt, "seq_form": form,
            "length_mult": None if dflt else src.real(-5.0, 5.0, nice=[1.0, 0.5, -2.0, 0.0])}


def pad3(A):
    A = np.asarray(A, dtype=float)
    return np.pad(A, ((0, 0), (0, 3 - A.shape[1])))


def fn_polylines(case, ctx, A):
    import mouette as M
    gen = case["gen"]
    pre = gen
    ctx.label(gen, f"{gen}:dim={case['dim']}")
    label_args(case, ctx)
    ints = case.get("int_args")
    dt = case.get("array_dtype")
    f32 = 1e-6 if dt == "float32" else TOL        # results computed in the precision of the given arrays
    if gen == "chain_of_vertices":
        loop = bool(case["loop"])
        pts = np.array(case["points"], dtype=float).reshape(-1, int(case["dim"]))
        n = len(pts)
        ctx.label(f"loop={loop}", "empty-input" if n == 0 else "one-vertex" if n == 1 else "n>=2")
        ctx.nontrivial(loop)
        ok, m = spelled_call(ctx, pre, M.procedural.chain_of_vertices, case,
                             [("vertices", A.arr("vertices", pts, ints, dt)), ("loop", B(case, loop))], 1,
                             omitted(case, None if loop or case["explicit"] else "loop"))
        if not ok or not check_type(ctx, pre, m, "PolyLine"):
            return
        V = vertex_array(ctx, pre, m)
        E = index_rows(ctx, pre, m.edges, "edges")
        if V is None or E is None:
            return
        check_close(ctx, pre + ":vertices", V, pad3(pts), sc_of(case, pts), "vertices are not the given positions in order", 1e-12)
        exp = [(i, i + 1) for i in range(n - 1)] + ([(0, n - 1)] if loop else [])
        ctx.check(sorted(key(e) for e in E) == sorted(exp), pre + ":edges", f"edges {E}; a {'closed' if loop else 'open'} chain of {n} vertices has {exp}")
        return
    K = int(case["dim"])
    org, vecs = np.array(case["origins"], float).reshape(-1, K), np.array(case["vectors"], float).reshape(-1, K)
    mult = case["length_mult"]
    form = case.get("seq_form") or "ndarray"
    ctx.label("collection=" + form, "empty-input" if len(org) == 0 else "n>=1")
    ctx.nontrivial(mult is not None and mult != 1.0)
    ok, m = spelled_call(ctx, pre, M.procedural.vector_field, case,
                         [("origins", A.seq("origins", org, form, ints, dt)), ("vectors", A.seq("vectors", vecs, form, ints, dt)),
                          ("length_mult", None if mult is None else Rv(case, mult))], 2, omitted(case, "length_mult" if mult is None else None))
    mult = 1.0 if mult is None else mult
    if not ok or not check_type(ctx, pre, m, "PolyLine"):
        return
    V = vertex_array(ctx, pre, m)
    E = index_rows(ctx, pre, m.edges, "edges")
    if V is None or E is None:
        return
    n = len(org)
    exp = np.empty((2 * n, 3))
    exp[0::2] = pad3(org)
    exp[1::2] = pad3(org) + float(mult) * pad3(vecs)
    check_close(ctx, pre + ":vertices", V, exp, sc_of(case, exp), "vertices are not origin_i, origin_i + length_mult * vector_i", f32)
    ctx.check([key(e) for e in E] == [(2 * i, 2 * i + 1) for i in range(n)], pre + ":edges", f"edges {E}, expected one segment (2i, 2i+1) per vector")


# ================================================================================================ transformations

TRANSFORM_LATTICE = ([["spherify_vertices", n, k, form, dflt] for n in range(1, 5) for k in (0, 1, 2)
                      for form in ("pointcloud", "array", "polyline", "vecs") for dflt in BOOL] +
                     [["cylindrify_edges", shape, N, dflt] for shape in ("path", "cycle", "star", "triangle_mesh", "segments")
                      for N in range(3, 9) for dflt in BOOL] +
                     [["cylindrify_edges", "path", N, False] for N in HAZARD if N <= 128])


def build_transform(p, src):
    gen = p[0]
    if gen == "spherify_vertices":
        _, n, k, form, dflt = p
        S, ints = arg_class(src)
        if dflt:
            S = 1.0        # the default radius 1e-2 is absolute
        far = far_offset(src, S)
        if form == "vecs":      # a plain sequence of Vec (the function iterates over whatever is not a mesh)
            form = src.choice(["vecs", "vectuple"])
        case = {"gen": gen, "points": placed(distinct_points(src, n, sep=0.5, ints=ints), S, far), "n_subdiv": k, "form": form,
                "radius": None if dflt else float(src.real(0.01, 3.0) * S), "scale": S, "int_args": ints, "far": far,
                "array_dtype": (src.choice(["int32", "int64"] if far else ["int16", "int32", "int64"]) if ints else "float64") if form == "array" else None}
        return omit_defaults(src, case, {"n_subdiv": 1})
    _, shape, N, dflt = p
    n = src.integer(3, 6)
    S, ints = arg_class(src)
    far = far_offset(src, S)
    pts = placed(distinct_points(src, n, sep=0.5, ints=ints), S, far)
    N, wide = (N, "hazard") if N > 12 else widen(src, N)
    if shape == "path":
        E = [[i, i + 1] for i in range(n - 1)]
    elif shape == "cycle":
        E = [[i, (i + 1) % n] for i in range(n)]
    elif shape == "star":
        E = [[0, i] for i in range(1, n)]
    elif shape == "segments":
        E = [[2 * i, 2 * i + 1] for i in range(n // 2)]
    else:
        E = []
    case = {"gen": gen, "shape": shape, "points": pts, "edges": E, "N": N, "radius": None if dflt else src.real(0.01, 0.5),
            "scale": S, "int_args": ints, "far": far, "wide": wide, "warm": src.choice([None, None, "fresh", "stale"])}
    return omit_defaults(src, case, {"N": 50})


def match_components(ctx, pre, V, ref, n_expected, fits, what):
    """every connected component of the output must fit exactly one of the expected primitives (bijection)"""
    comps = [sorted(c) for c in ref.components()]
    if not ctx.check(len(comps) == n_expected, pre + ":components", f"{len(comps)} components, expected one per {what} = {n_expected}"):
        return
    taken = set()
    for c in comps:
        cand = [k for k in range(n_expected) if k not in taken and fits(k, c)]
        if not ctx.check(len(cand) >= 1, pre + ":placement", f"component with vertices {c[:4]}.. fits no (remaining) {what} at the requested radius"):
            return
        taken.add(cand[0])


def fn_transformations(case, ctx, A):
    import mouette as M
    gen = case["gen"]
    pre = gen
    P = np.array(case["points"], float)
    rad = case["radius"]
    label_args(case, ctx)
    if gen == "spherify_vertices":
        k, form = int(case["n_subdiv"]), case["form"]
        ctx.label(gen, "form=" + form, f"n_subdiv={k}")
        ctx.nontrivial(k != 1 or rad is not None)
        if form == "pointcloud":
            inp = A.obj("points", lambda: pointcloud_from(P.tolist()), mesh_reader)
        elif form == "polyline":
            inp = A.obj("points", lambda: polyline_from(P.tolist(), [(i, i + 1) for i in range(len(P) - 1)]), mesh_reader)
        elif form in ("vecs", "vectuple"):
            inp = A.seq("points", P, form, case.get("int_args"))
        else:
            inp = A.arr("points", P, case.get("int_args"), case.get("array_dtype"))
        ok, m = spelled_call(ctx, pre, M.procedural.spherify_vertices, case,
                             [("points", inp), ("radius", None if rad is None else Rv(case, rad)), ("n_subdiv", I(case, k))], 1,
                             omitted(case, "radius" if rad is None else None))
        rad = 1e-2 if rad is None else float(rad)
        if not ok:
            return
        n = len(P)
        r = check_surface(ctx, pre, m, nV=n * (10 * 4 ** k + 2), nF=n * 20 * 4 ** k, arity=3, chi=2 * n, loops=0, comps=n)
        if r is None:
            return
        V, F, ref = r
        sc = sc_of(case, P, rad)

        def fits(j, comp):
            d = np.linalg.norm(V[comp] - P[j], axis=1)
            return len(comp) == 10 * 4 ** k + 2 and float(np.max(np.abs(d - rad))) <= TOL * sc
        match_components(ctx, pre, V, ref, n, fits, "input point")
        return
    N = int(case["N"])
    shape = case["shape"]
    ctx.label(gen, "input=" + shape)
    ctx.nontrivial(True)
    warm = case.get("warm")
    if warm:
        ctx.label("input-used-before", "input-caches=" + warm)
    if shape == "triangle_mesh":
        inp = A.obj("mesh", lambda: used_before(M, lambda X: surface_from(X, [[0, 1, 2]]), P[:3], warm, sc_of(case, P)), mesh_reader)
        E = [(0, 1), (1, 2), (0, 2)] if M.config.complete_edges_from_faces else []     # the input surface then has no edges
    else:
        E = [tuple(e) for e in case["edges"]]
        inp = A.obj("mesh", lambda: used_before(M, lambda X: polyline_from(X, E), P, warm, sc_of(case, P)), mesh_reader)
    ok, m = spelled_call(ctx, pre, M.procedural.cylindrify_edges, case,
                         [("mesh", inp), ("radius", None if rad is None else Rv(case, rad)), ("N", I(case, N))], 1,
                         omitted(case, "radius" if rad is None else None))
    rad = 5e-2 if rad is None else float(rad)
    if not ok:
        return
    nE = len(E)
    if nE == 0:
        if check_type(ctx, pre, m, "SurfaceMesh"):
            ctx.check(len(m.vertices) == 0 and len(m.faces) == 0, pre + ":empty", "a mesh without edges must give an empty surface")
        return
    r = check_surface(ctx, pre, m, nV=2 * N * nE, nF=2 * N * nE, arity=3, chi=0, loops=2 * nE, comps=nE)
    if r is None:
        return
    V, F, ref = r
    L = float(np.mean([np.linalg.norm(P[a] - P[b]) for a, b in E]))
    sc = sc_of(case, P)

    def fits(j, comp):
        a, b = E[j]
        for A, B in ((P[a], P[b]), (P[b], P[a])):
            h = np.linalg.norm(B - A)
            ax = (B - A) / h
            W = V[comp] - A
            t = W @ ax
            radial = np.linalg.norm(W - np.outer(t, ax), axis=1)
            if len(comp) == 2 * N and float(np.max(np.abs(radial - L * rad))) <= TOL * sc and \
                    sum(abs(x) <= TOL * sc for x in t) == N and sum(abs(x - h) <= TOL * sc for x in t) == N:
                return True
        return False
    match_components(ctx, pre, V, ref, nE, fits, "edge (radius = mean edge length x radius)")


# ================================================================================================ dual mesh

def ref_dual(ref):
    """combinatorial dual of a closed surface from the reference rings; None if it is not representable"""
    if ref.border_loops() != []:
        return None
    D = []
    for v in range(ref.nV):
        r = ref.ring(v)
        if r is None or not r[0] or len(r[1]) < 3:
            return None
        D.append(tuple(r[1]))
    if SurfRef(len(ref.F), D).validate() is not None:
        return None
    return D


def dual_admissible(s):
    return ref_dual(SurfRef(len(s["V"]), s["F"])) is not None


CLOSED_BASES = ["torus", "tet", "cube", "octa", "icosa", "prism", "antiprism", "bipyramid"]


@st.composite
def dual_case(draw):
    tri = draw(st.booleans())
    s = draw(G.surfaces(max_faces=60, bases=CLOSED_BASES, triangulated=tri, max_ops=4, jitter_amp=0.03).filter(dual_admissible))
    is_tri = all(len(f) == 3 for f in s["F"])
    # circumcentres are only defined for non-degenerate triangles
    circ_ok = is_tri and G.min_angle_deg(s["V"], s["F"]) >= 10.0
    modes = [None, "barycenter", "Barycenter", "circumcenter", "circumcenter"] if circ_ok else [None, "barycenter", "BARYCENTER"]
    case = {"gen": "dual_mesh", "V": s["V"], "F": s["F"], "tags": s["tags"], "mode": draw(st.sampled_from(modes)),
            "mode2": draw(st.sampled_from(modes)), "warm": draw(st.sampled_from([None, None, "fresh", "stale"]))}
    case.update(common_flags(HypSrc(draw), case))
    return case


def fn_dual(case, ctx, A):
    import mouette as M
    Vp = np.array(case["V"], float)
    Fp = [tuple(f) for f in case["F"]]
    mode = case["mode"] if A.round == 1 else case.get("mode2", case["mode"])
    refp = SurfRef(len(Vp), Fp)
    D = ref_dual(refp) if refp.validate() is None else None
    if D is None:
        raise AssertionError("invalid generated case for dual_mesh")
    for t in case.get("tags", []):
        if t.startswith(("base=", "genus=", "comps=", "sum=", "union=")) or t in ("tri", "quad", "mixed34", "polygon"):
            ctx.label(t)
    label_args(case, ctx)
    ctx.label("mode=" + str(mode), f"modes={str(case['mode']).lower()}->{str(case.get('mode2')).lower()}")
    ctx.nontrivial(mode not in (None, "barycenter") or any(len(f) != 3 for f in Fp))
    pre = "dual_mesh"
    warm = case.get("warm")
    if warm:
        ctx.label("input-used-before", "input-caches=" + warm)
    # the same mesh object in both calls
    prim = A.obj("mesh", lambda: used_before(M, lambda X: surface_from(X, Fp), Vp, warm, sc_of(case, Vp)), mesh_reader)
    ok, m = spelled_call(ctx, pre, M.procedural.dual_mesh, case, [("mesh", prim), ("mode", mode)], 1,
                         omitted(case, "mode" if mode is None else None))
    if not ok:
        return
    r = check_surface(ctx, pre, m, nV=len(Fp), nF=len(Vp), chi=refp.euler(), loops=0, comps=refp.n_face_components())
    if r is None:
        return
    V, F, ref = r
    for v, f in enumerate(F):
        exp = list(D[v])
        n = len(exp)
        rots = [exp[s:] + exp[:s] for s in range(n)]
        rev = exp[::-1]
        rots_rev = [rev[s:] + rev[:s] for s in range(n)]
        if not ctx.check(list(f) in rots or list(f) in rots_rev, pre + ":rings", f"dual face {v} = {f} is not the cycle of primal faces around vertex {v} ({exp})"):
            return
    if mode is None or mode.lower() == "barycenter":
        bary = np.array([Vp[list(f)].mean(axis=0) for f in Fp])
        check_close(ctx, pre + ":positions", V, bary, sc_of(case, Vp), "dual vertex f is not the barycentre of primal face f")
    # the primal mesh is left as it was
    V2 = vertex_array(ctx, pre, prim)
    F2 = index_rows(ctx, pre, prim.faces, "faces")
    if V2 is not None and F2 is not None:
        ctx.check(F2 == Fp and V2.shape == Vp.shape and bool(np.all(V2 == Vp)), pre + ":input-changed", "dual_mesh changed its input mesh")


# ================================================================================================ registration

FAMILIES.update({
    "tetrahedron": (product(BOOL, BOOL), build_tet, fn_tetrahedron),
    "hexahedra": (HEXA_LATTICE, build_hexa, fn_hexahedron),
    "platonic": (PLATONIC_LATTICE, build_platonic, fn_platonic),
    "cylinder": (product(range(3, 13), BOOL, AXES) + product((20, 50), BOOL, ("z", "random")) +
                 [[n, bool(n % 2), "random"] for n in HAZARD] + [[n, c, "random"] for n in POW2_N[:4] for c in BOOL],
                 build_cylinder, fn_cylinder),
    "torus": (product(range(3, 10), range(3, 10), BOOL) + product((50, 30, 10), (30, 20, 10), BOOL) +
              [[n, 3, bool(n % 2)] for n in HAZARD] + [[3, n, bool(n % 2)] for n in HAZARD] +
              [[a, b, False] for a, b in pow2_pairs(3, 3)] + [[a, b, True] for a, b in pow2_pairs(3, 3, range(126, 131))],
              build_torus, fn_torus),
    "sphere_uv": (product(range(2, 10), range(3, 10), BOOL) + product((30, 20), (50, 30, 20), BOOL) +
                  [[n, 3, False] for n in HAZARD] + [[2, n, False] for n in HAZARD] + [[a, b, False] for a, b in pow2_pairs(2, 3)] +
                  [[3, 4, "near1"], [2, 3, "near1"], [9, 9, "near1"]], build_sphere_uv, fn_sphere_uv),
    "icosphere": (product(range(0, 4), (False, True, "near1")), build_icosphere, fn_icosphere),
    "sphere_fibonacci": (FIB_LATTICE, build_fibonacci, fn_fibonacci),
    "ring": (product(range(3, 11), BOOL, (1, 2, 3)) + [[n, bool(n % 2), 1] for n in HAZARD] + [[n, o, 1] for n in POW2_N for o in BOOL] +
             [[n, False, 2] for n in (64, 127, 128)], build_ring, fn_ring),
    "flat_ring": (product(range(1, 11), (1, 2, 3)) + [[n, 1] for n in HAZARD] + [[n, 1] for n in POW2_N], build_flat_ring, fn_flat_ring),
    "triangle_quad": (FLAT_LATTICE, build_flat, fn_flat),
    "unit_grid": (product(range(2, 10), range(2, 10), BOOL, BOOL) + product((10, 13), (10, 13), BOOL, BOOL) +
                  [[n, 2, bool(n % 2), False] for n in HAZARD] + [[2, n, bool(n % 2), True] for n in HAZARD] +
                  [[a, b, bool(a % 2), False] for a, b in pow2_pairs(2, 2)] +
                  [[a + 1, b + 1, False, False] for a, b in pow2_pairs(1, 1, range(255, 258))], build_grid, fn_unit_grid),
    "unit_triangle": (product(range(2, 10), range(2, 10), BOOL) + [[10, 10, False], [10, 10, True], [13, 13, True]] +
                      [[n, n, False] for n in HAZARD if n <= 64] + [[17, 17, False], [22, 22, True], [23, 23, False]],
                      build_unit_triangle, fn_unit_triangle),
    "polylines": (POLYLINE_LATTICE, build_polyline, fn_polylines),
    "transformations": (TRANSFORM_LATTICE, build_transform, fn_transformations),
})


RAW_FN = {name: fn for name, (lat, build, fn) in FAMILIES.items()}
FAMILIES = {name: (lat, build, two_calls(fn)) for name, (lat, build, fn) in FAMILIES.items()}


def full_lattice():
    """every lattice point of every family x REAL_VARIANTS deterministic draws of the real parameters (realised cases)"""
    import random
    import zlib
    out, seen = [], set()
    for name in sorted(FAMILIES):
        lat, build, _ = FAMILIES[name]
        for p in lat:
            for k in range(REAL_VARIANTS):
                src = RngSrc(random.Random(zlib.crc32(repr((name, p, k)).encode())), no_omit=(k == 0))
                case = build(p, src)
                case.update(common_flags(src, tag_sizes(case)))
                if k == 0:
                    case.update(np_ints=False, config={})      # variant 0 of every lattice point: library defaults
                elif case.get("wide") in ("hazard", "pow2"):
                    continue                                   # the large resolutions once each
                case["family"] = name
                js = repr(case)
                if js not in seen:          # families without real parameters give one case per lattice point
                    seen.add(js)
                    out.append(case)
    return out


LATTICE_CASES = full_lattice()


def big_cases():
    """results whose vertex / face counts sit around 65536 (and 32768): a handful of realised cases, a few seconds each"""
    import random
    pts = [("sphere_uv", [317, 317, False]),      # first = the case every quick run makes: 100491 vertices, 100489 faces
           ("sphere_fibonacci", [100003, False]), ("polylines", ["chain_of_vertices", 100001, False, 3, True]),
           ("polylines", ["vector_field", 50001, 3, False]), ("unit_grid", [317, 317, False, False]),
           ("sphere_uv", [255, 257, False]), ("sphere_uv", [257, 255, False]), ("sphere_uv", [256, 256, False]),
           ("torus", [255, 257, False]), ("torus", [256, 256, False]), ("torus", [257, 255, True]), ("torus", [128, 128, True]),
           ("unit_grid", [256, 256, False, False]), ("unit_grid", [255, 257, True, False]),
           ("cylinder", [32767, False, "random"]), ("cylinder", [32768, False, "z"]), ("cylinder", [16384, False, "x"]),
           ("polylines", ["chain_of_vertices", 65536, True, 3, True]), ("polylines", ["vector_field", 32768, 3, False])]
    out = []
    for k, (name, p) in enumerate(pts):
        case = build_of(name)(p, RngSrc(random.Random(1000 + k), no_omit=True))
        case.update(np_ints=False, int_scalars=False, config={}, family=name, spell=("mixed", "pos", "kw")[k % 3])
        case["wide"] = "pow2"
        out.append(case)
    return out


def build_of(name):
    return FAMILIES[name][1]


BIG_CASES = big_cases()


def fn_big(case, ctx):
    """one call + the full oracle (the two-call history is exercised at all smaller sizes)"""
    ctx.label("family=" + case["family"])
    A = Args()
    RAW_FN[case["family"]](case, ctx, A)
    A.check_unchanged(ctx, str(case.get("gen")))


def fn_lattice(case, ctx):
    ctx.label("family=" + case["family"])
    FAMILIES[case["family"]][2](case, ctx)


_Q = {"tetrahedron": 60, "hexahedra": 160, "platonic": 60, "cylinder": 240, "torus": 240, "sphere_uv": 200, "icosphere": 40,
      "sphere_fibonacci": 160, "ring": 200, "flat_ring": 120, "triangle_quad": 60, "unit_grid": 320, "unit_triangle": 200,
      "polylines": 160, "transformations": 120}

SUBCHECKS = [SubCheck(name, family_strategy(name), FAMILIES[name][2], quick=3 * _Q[name], thorough=6 * _Q[name]) for name in _Q] + [
    SubCheck("dual_mesh", dual_case(), two_calls(fn_dual), quick=1000, thorough=2000),
    # bare sampled_from over a finite list: Hypothesis never repeats a choice sequence, so a budget >= len(LATTICE_CASES)
    # enumerates the whole lattice in every thorough shard (it stops by itself once the list is exhausted)
    SubCheck("lattice", st.sampled_from(LATTICE_CASES), fn_lattice, quick=len(LATTICE_CASES), thorough=len(LATTICE_CASES) + 50),
    # element counts around 2**16 / 2**15: every case in each thorough shard, one (random) case per quick shard
    SubCheck("big", st.sampled_from(BIG_CASES), fn_big, quick=8, thorough=len(BIG_CASES) + 5, watchdog=(120, 300)),
]


# ================================================================================================ proposed known findings

def kf_sphere_uv_unused_south_ring(case, v):
    """sphere_uv puts its last latitude ring at phi = pi (on the south pole); those n_long vertices belong to no face.
    The vertex count n_lat*n_long+2 is pinned by tests/test_procedural.py::test_sphere_uv."""
    if case.get("gen") != "sphere_uv" or v.signature != "sphere_uv:unused-vertex":
        return False
    n_lat, n_long = int(case["n_lat"]), int(case["n_long"])
    return (v.detail or {}).get("unused") == list(range(n_long * (n_lat - 1) + 1, n_long * n_lat + 1))


def kf_unit_triangle_unequal(case, v):
    """unit_triangle only works for nu == nv: nu < nv indexes past the vertex array, nu > nv yields a triangle that
    stops at x = (nv-1)/(nu-1) < 1. No subdivision of a right triangle into congruent cells exists for nu != nv."""
    if case.get("gen") != "unit_triangle":
        return False
    nu, nv = int(case["nu"]), int(case["nv"])
    return (nu < nv and v.signature == "unit_triangle:index-range") or (nu > nv and v.signature == "unit_triangle:corners")


def kf_icosahedron_uv_ignored(case, v):
    """icosahedron(uv=True) is documented ('whether to generate uv coordinates') but the switch is never read."""
    return case.get("gen") == "icosahedron" and bool(case.get("uv")) and v.signature == "icosahedron:uv-attribute"


MATCHERS = {
    "kf_sphere_uv_unused_south_ring": kf_sphere_uv_unused_south_ring,
    "kf_unit_triangle_unequal": kf_unit_triangle_unequal,
    "kf_icosahedron_uv_ignored": kf_icosahedron_uv_ignored,
}
