"""C09 - shortest paths are valid edge paths of minimum length (point-to-point, to a vertex set, to the border)."""
import math
import random
from hypothesis import strategies as st
from vlib.runner import SubCheck
from vlib import gen_surface as GS
from vlib import gen_tets as GT
from vlib import ref_graph as RG
from vlib.topo import SurfRef, TetRef, key
from vlib.build import surface_from, volume_from, polyline_from

PROPERTY = "C09"
RULE = ("One query per case on a generated mesh: polylines (paths, cycles, trees, random simple graphs, lattice graphs with "
        "integer coordinates, wheels/ladders; optional second component and isolated vertices; random relabelling and edge "
        "orientation), surfaces (vlib.gen_surface.surfaces, <=40 faces, incl. disjoint unions, tori, polygons; Delaunay disks "
        "<=30 points; for border queries closed surfaces are mostly punctured by removing 1-2 faces so that the start can be "
        "several edges away from the border) and tet meshes (vlib.gen_tets.tets, <=25 cells). Entry points shortest_path (target as int / list / set / tuple, 1-6 targets, "
        "duplicates in lists, start among the targets, whole component), shortest_path_to_vertex_set (1-6 targets incl. "
        "singletons, start in the set, optionally extra members in other components) and shortest_path_to_border (start in "
        "a bordered component, incl. start on the border; closed surfaces must raise the documented exception). Weights: "
        "omitted, 'length', 'one', dict, sparse Attribute (all written / only non-zeros written) and dense Attribute, with "
        "values from {0..3}, zero-heavy, all-zero, all-equal, dyadic, uniform floats and 6 decades wide; export_path_mesh "
        "on/off/omitted. Oracle: Bellman-Ford distances from the case's own edge list. non-trivial = some requested target "
        "(some border vertex of the start's component) is joined to the start by >= 2 distinct simple paths; distinct = "
        "distinct realised cases.")
ASSUMPTIONS = ["graphs are simple (no loops, no parallel edges); surfaces / tet meshes are manifold as produced by the shared generators",
               "weights are finite and non-negative and a custom weight is supplied for every edge id of the mesh's edge container",
               "every point-to-point target lies in the start's component; a set/border query has at least one reachable member",
               "start / targets are Python ints; target collections are list / set / tuple"]

REL_TOL = 1e-9


# ------------------------------------------------------------------------------------------------ generators

def _graph_shape(rnd, shape, n):
    """simple undirected graph on 0..n-1 -> (n, edge list, coordinates or None)"""
    E, P = [], None
    if shape == "path":
        E = [(i, i + 1) for i in range(n - 1)]
    elif shape == "cycle":
        n = max(n, 3)
        E = [(i, (i + 1) % n) for i in range(n)]
    elif shape == "tree":
        E = [(rnd.randrange(i), i) for i in range(1, n)]
    elif shape == "graph":
        pairs = [(j, i) for i in range(n) for j in range(i)]
        p = rnd.choice([0.15, 0.3, 0.5, 0.8])
        E = [e for e in pairs if rnd.random() < p]
    elif shape == "connected":
        E = [(rnd.randrange(i), i) for i in range(1, n)]
        pairs = [(j, i) for i in range(n) for j in range(i) if (j, i) not in set(E)]
        E += [e for e in pairs if rnd.random() < 0.25]
    elif shape == "lattice":
        nu, nv = rnd.randint(1, 4), rnd.randint(1, 4)
        n = nu * nv
        idx = lambda i, j: i * nv + j
        for i in range(nu):
            for j in range(nv):
                if i + 1 < nu: E.append((idx(i, j), idx(i + 1, j)))
                if j + 1 < nv: E.append((idx(i, j), idx(i, j + 1)))
                if i + 1 < nu and j + 1 < nv and rnd.random() < 0.3: E.append((idx(i, j), idx(i + 1, j + 1)))
        P = [[float(i), float(j), 0.0] for i in range(nu) for j in range(nv)]
    elif shape == "wheel":
        n = max(n, 4)
        E = [(0, i) for i in range(1, n)] + [(i, i + 1 if i + 1 < n else 1) for i in range(1, n)]
        P = [[0.0, 0.0, 0.0]] + [[math.cos(2 * math.pi * i / (n - 1)), math.sin(2 * math.pi * i / (n - 1)), 0.0] for i in range(n - 1)]
    elif shape == "ladder":
        k = max(2, n // 2)
        n = 2 * k
        E = [(i, i + 1) for i in range(k - 1)] + [(k + i, k + i + 1) for i in range(k - 1)] + [(i, k + i) for i in range(k)]
        P = [[float(i), 0.0, 0.0] for i in range(k)] + [[float(i), 1.0, 0.0] for i in range(k)]
    else:
        raise AssertionError(shape)
    E = sorted(set((min(a, b), max(a, b)) for a, b in E if a != b))
    return n, E, P


SHAPES = ["path", "cycle", "tree", "graph", "graph", "connected", "connected", "lattice", "lattice", "wheel", "ladder"]


@st.composite
def polylines(draw):
    seed = draw(st.integers(0, 10 ** 6))
    rnd = random.Random(seed)
    shape = draw(st.sampled_from(SHAPES))
    n = draw(st.integers(1, 14))
    n, E, P = _graph_shape(rnd, shape, n)
    tags = ["shape=" + shape]
    cmode = draw(st.sampled_from(["float", "lattice", "given"]))
    if P is None or cmode != "given":
        if cmode == "lattice" or (cmode == "given" and P is None and rnd.random() < 0.5):
            pts = rnd.sample(range(125), n)
            P = [[float(p // 25), float(p // 5 % 5), float(p % 5)] for p in pts]
            tags.append("coords=lattice")
        else:
            P = [[rnd.uniform(0, 4) for _ in range(3)] for _ in range(n)]
            tags.append("coords=float")
    else:
        tags.append("coords=shape")
    extra = draw(st.integers(0, 5))
    if extra == 0:
        # a second component (its vertices are unreachable from the first one)
        n2, E2, _ = _graph_shape(rnd, rnd.choice(["path", "cycle", "tree", "graph"]), rnd.randint(1, 5))
        E += [(a + n, b + n) for a, b in E2]
        P += [[rnd.uniform(5, 8) for _ in range(3)] for _ in range(n2)]
        n += n2
        tags.append("second-component")
    elif extra == 1:
        k = rnd.randint(1, 2)
        P += [[rnd.uniform(-3, -1) for _ in range(3)] for _ in range(k)]
        n += k
        tags.append("isolated-vertices")
    if draw(st.booleans()):
        perm = list(range(n))
        rnd.shuffle(perm)
        E = [(perm[a], perm[b]) for a, b in E]
        P2 = [None] * n
        for i in range(n):
            P2[perm[i]] = P[i]
        P = P2
        rnd.shuffle(E)
        tags.append("relabelled")
    E = [[a, b] if rnd.random() < 0.5 else [b, a] for a, b in E]
    return {"kind": "polyline", "V": P, "E": E, "tags": tags}


@st.composite
def punctured(draw, s):
    """a closed (component of a) surface gets 1-2 faces removed: a bordered surface whose interior is far from the border"""
    V, F = s["V"], [list(f) for f in s["F"]]
    done = 0
    for _ in range(draw(st.integers(1, 2))):
        r = GS.op_delete_face(V, F, draw(st.integers(0, 200)))
        if r is not None and r[1] and GS._valid(r[0], r[1]):
            V, F = r
            done += 1
    if not done:
        return s
    keep = [t for t in s["tags"] if t.startswith(("base=", "union=", "sum="))]
    return {"V": V, "F": F, "tags": keep + ["punctured"] + GS.tags_of(V, F)}


@st.composite
def meshes(draw, kinds=("polyline", "polyline", "surface", "surface", "volume")):
    kind = draw(st.sampled_from(list(kinds)))
    if kind == "polyline":
        return draw(polylines())
    if kind in ("surface", "border-surface"):
        which = draw(st.sampled_from(["any", "any", "any", "disk"]))
        if which == "disk":
            s = draw(GS.delaunay_disks(max_pts=30))
        else:
            s = draw(GS.surfaces(max_faces=40, keep_isolated=draw(st.integers(0, 9)) == 0))
        if kind == "border-surface" and "closed" in s["tags"] and draw(st.integers(0, 9)) != 0:
            s = draw(punctured(s))
        return {"kind": "surface", "V": s["V"], "F": [list(map(int, f)) for f in s["F"]], "tags": s["tags"]}
    t = draw(GT.tets(max_cells=25))
    return {"kind": "volume", "V": t["V"], "C": t["C"], "tags": t["tags"]}


def ref_edges(case):
    """sorted list of vertex-pair keys of the mesh's 1-skeleton, from the case alone"""
    k = case["kind"]
    if k == "polyline":
        return sorted(key(e) for e in case["E"])
    if k == "surface":
        return sorted(SurfRef(len(case["V"]), case["F"]).uedges)
    return sorted(TetRef(len(case["V"]), case["C"]).ekeys)


WKINDS = ["int03", "int03", "zeroheavy", "float", "float", "dyadic", "allzero", "allone", "wide"]


def realise_weights(rnd, wkind, m):
    if wkind == "int03":
        return [float(rnd.choice([0, 1, 1, 2, 3])) for _ in range(m)]
    if wkind == "zeroheavy":
        return [float(rnd.choice([0, 0, 0, 1])) for _ in range(m)]
    if wkind == "float":
        return [rnd.uniform(0, 10) for _ in range(m)]
    if wkind == "dyadic":
        return [rnd.randint(0, 16) / 4 for _ in range(m)]
    if wkind == "allzero":
        return [0.0] * m
    if wkind == "allone":
        return [1.0] * m
    if wkind == "wide":
        return [10 ** rnd.uniform(-3, 3) for _ in range(m)]
    raise AssertionError(wkind)


WMODES = ["omitted", "length", "one", "one", "dict", "dict", "attr", "attr_partial", "attr_dense"]


@st.composite
def query_case(draw, entry):
    if entry == "border":
        mesh = draw(meshes(kinds=("border-surface",)))
    else:
        mesh = draw(meshes())
    case = dict(mesh)
    n = len(case["V"])
    E = ref_edges(case)
    lab = RG.component_labels(n, E)
    deg = [0] * n
    for a, b in E:
        deg[a] += 1; deg[b] += 1
    case["entry"] = entry
    case["wmode"] = draw(st.sampled_from(WMODES))
    case["wkind"] = draw(st.sampled_from(WKINDS))
    case["intvals"] = draw(st.booleans())
    case["W"] = realise_weights(random.Random(draw(st.integers(0, 10 ** 6))), case["wkind"], len(E))
    case["export"] = draw(st.sampled_from(["omitted", False, True, True]))
    # start / targets: uniform picks from a drawn seed (Hypothesis' integer draws are biased towards 0, which would make
    # start == target in most cases); the realised values are stored in the case
    rnd = random.Random(draw(st.integers(0, 10 ** 6)))

    if entry == "border":
        ref = SurfRef(n, case["F"])
        bv = ref.border_vertices()
        blabs = set(lab[v] for v in bv)
        cand = [v for v in range(n) if lab[v] in blabs]
        if cand:
            inner = [v for v in cand if v not in bv]
            style = draw(st.sampled_from(["any", "on-border", "inner", "inner", "deep", "deep"]))
            if style == "on-border" or not inner:
                pool = sorted(bv) if style == "on-border" else cand
            elif style == "inner":
                pool = inner
            elif style == "deep":
                # the vertices farthest (in hops) from the border
                hop = {v: min(h for t, h in enumerate(RG.bfs_hops(n, E, v)) if t in bv and h is not None) for v in inner}
                mx = max(hop.values())
                pool = [v for v in inner if hop[v] == mx]
            else:
                pool = cand
            case["start"] = rnd.choice(pool)
        else:
            case["start"] = rnd.randrange(n)       # closed surface: the documented exception is expected
        case["targets"] = []
        case["tform"] = "border"
        return case

    nonisolated = [v for v in range(n) if deg[v] > 0]
    if nonisolated and draw(st.integers(0, 11)) != 0:
        start = rnd.choice(nonisolated)
    else:
        start = rnd.randrange(n)
    comp = [v for v in range(n) if lab[v] == lab[start]]
    others = [v for v in range(n) if lab[v] != lab[start]]
    notstart = [v for v in comp if v != start] or comp
    case["start"] = start
    if entry == "p2p":
        tform = draw(st.sampled_from(["int", "int", "list", "list", "set", "tuple"]))
        style = draw(st.sampled_from(["few", "few", "few", "one", "one", "with-start", "whole-component"]))
        if tform == "int" or style == "one":
            targets = [rnd.choice(notstart if rnd.random() < 0.9 else comp)]
        elif style == "whole-component":
            targets = list(comp)
            rnd.shuffle(targets)
        else:
            targets = [rnd.choice(notstart) for _ in range(draw(st.integers(2, 6)))]
            if style == "with-start":
                targets.insert(rnd.randint(0, len(targets)), start)
        if tform == "set":
            targets = sorted(set(targets))
    else:
        tform = draw(st.sampled_from(["list", "list", "set", "tuple"]))
        style = draw(st.sampled_from(["few", "few", "few", "one", "one", "with-start", "unreachable-extra", "whole-component"]))
        if style == "one":
            targets = [rnd.choice(notstart if rnd.random() < 0.85 else comp)]
        elif style == "whole-component":
            targets = list(comp)
            rnd.shuffle(targets)
        else:
            targets = [rnd.choice(notstart) for _ in range(draw(st.integers(2, 6)))]
            if style == "with-start":
                targets.insert(rnd.randint(0, len(targets)), start)
            if others and (style == "unreachable-extra" or draw(st.integers(0, 2)) == 0):
                for _ in range(rnd.randint(1, 2)):
                    targets.insert(rnd.randint(0, len(targets)), rnd.choice(others))
        if tform == "set":
            targets = sorted(set(targets))
    case["targets"] = targets
    case["tform"] = tform
    return case


# ------------------------------------------------------------------------------------------------ oracles

def is_intlike(x):
    import numpy as np
    return (isinstance(x, int) and not isinstance(x, bool)) or isinstance(x, np.integer)


def dist3(p, q):
    return math.sqrt(math.fsum((float(a) - float(b)) ** 2 for a, b in zip(p, q)))


def build_mesh(case):
    if case["kind"] == "polyline":
        return polyline_from(case["V"], case["E"])
    if case["kind"] == "surface":
        return surface_from(case["V"], case["F"])
    return volume_from(case["V"], case["C"])


def close_w(got, exp, wmax):
    """path weight vs reference minimum, 1e-9 relative to the scale of the quantities involved"""
    scale = max(abs(exp), wmax)
    if scale == 0.0:
        return got == 0.0
    return abs(got - exp) <= REL_TOL * scale


def check_path(ctx, sig, what, path, start, end, wedges, dref, wmax):
    """path is a list of vertex ids from start to end along edges with total weight dref. Returns weight or None."""
    if not ctx.check(isinstance(path, (list, tuple)) and len(path) >= 1 and all(is_intlike(v) for v in path), sig + ":shape",
                     f"{what}: path is not a non-empty list of vertex ids: {path!r}"):
        return None
    path = [int(v) for v in path]
    if not ctx.check(path[0] == start, sig + ":start", f"{what}: path {path} does not begin at start {start}"):
        return None
    if end is not None:
        if not ctx.check(path[-1] == end, sig + ":end", f"{what}: path {path} does not end at target {end}"):
            return None
    w, bad = RG.walk_weight(wedges, path)
    if not ctx.check(bad is None, sig + ":edge", f"{what}: step {bad} of path {path} is not an edge of the mesh"):
        return None
    ctx.check(close_w(w, dref, wmax), sig + ":minimal",
              f"{what}: path {path} has weight {w!r}, minimum over all edge paths from {start} to {path[-1]} is {dref!r}")
    return w


def check_polyline(ctx, sig, pm, paths, V, start):
    """the exported polyline draws exactly the returned paths (as one chain per path or as their union)"""
    import mouette as M
    if not ctx.check(isinstance(pm, M.mesh.PolyLine), sig + ":type", f"exported path mesh is {type(pm).__name__}, not a PolyLine"):
        return
    try:
        PV = [tuple(float(x) for x in v) for v in pm.vertices]
        PE = [tuple(int(x) for x in e) for e in pm.edges]
    except Exception as e:
        ctx.fail(sig + ":type", f"exported polyline has unreadable vertices/edges: {e!r}")
        return
    if not ctx.check(all(len(p) == 3 for p in PV) and all(len(e) == 2 and e[0] != e[1] and 0 <= min(e) and max(e) < len(PV) for e in PE),
                     sig + ":index", f"exported polyline has malformed vertices or edge indices: {len(PV)} vertices, edges {PE}"):
        return
    co = lambda v: tuple(float(x) for x in V[v])
    exp_steps = set(frozenset((co(u), co(v))) for p in paths for u, v in zip(p, p[1:]))
    got_steps = set(frozenset((PV[a], PV[b])) for a, b in PE)
    exp_pts = set(co(v) for p in paths for v in p)
    n_entries = sum(len(p) for p in paths)
    n_steps = sum(len(p) - 1 for p in paths)
    desc = f"paths {paths}; polyline has {len(PV)} vertices and edges {PE}"
    if not ctx.check(set(PV) == exp_pts, sig + ":coords", f"polyline vertex coordinates are not those of the path vertices. {desc}"):
        return
    if not ctx.check(got_steps == exp_steps, sig + ":edges",
                     f"polyline edges do not join consecutive path vertices: "
                     f"{len(got_steps - exp_steps)} segment(s) that are no path step, {len(exp_steps - got_steps)} path step(s) missing. {desc}"):
        return
    ctx.check(len(PV) <= n_entries and len(PE) <= n_steps, sig + ":count",
              f"polyline has more vertices/edges than the paths have entries/steps ({n_entries}/{n_steps}). {desc}")
    used = set(x for e in PE for x in e)
    iso = [i for i in range(len(PV)) if i not in used]
    ok_iso = all(PV[i] == co(start) for i in iso) and (not iso or any(len(p) == 1 for p in paths))
    ctx.check(ok_iso, sig + ":edges", f"polyline vertices {iso} belong to no edge although they are not a one-vertex path. {desc}")


def fn(case, ctx):
    import mouette as M
    from mouette.processing import paths as LP
    kind, V, entry = case["kind"], case["V"], case["entry"]
    n = len(V)
    E = ref_edges(case)
    start = int(case["start"])
    targets = [int(t) for t in case["targets"]]
    wmode, export = case["wmode"], case["export"]

    # ---- fresh mesh, edge ids as the library numbers them
    mesh = build_mesh(case)
    try:
        medges = [key(e) for e in mesh.edges]
    except Exception as e:
        raise AssertionError(f"cannot read mesh.edges: {e!r}")
    if not ctx.check(sorted(medges) == E, "pre:edge-container",
                     f"mesh.edges is not the 1-skeleton of the input ({len(medges)} edges vs {len(E)} expected)"):
        return
    Wkey = dict(zip(E, case["W"]))

    # ---- the weights argument and the reference weights
    wclass = "one" if wmode == "one" else "length" if wmode in ("omitted", "length") else "custom"
    if wclass == "one":
        wref = {k: 1.0 for k in E}
    elif wclass == "length":
        wref = {k: dist3(V[k[0]], V[k[1]]) for k in E}
    else:
        wref = {k: float(Wkey[k]) for k in E}
    integral = all(float(w).is_integer() for w in case["W"])
    if wmode == "dict":
        if case["intvals"] and integral:
            warg = {i: int(Wkey[k]) for i, k in enumerate(medges)}
            ctx.label("dict-of-ints")
        else:
            warg = {i: float(Wkey[k]) for i, k in enumerate(medges)}
    elif wmode in ("attr", "attr_partial", "attr_dense"):
        warg = mesh.edges.create_attribute("c09_w", float, dense=(wmode == "attr_dense"))
        for i, k in enumerate(medges):
            if wmode == "attr_partial" and Wkey[k] == 0.0:
                continue          # left at the attribute's default value 0.0
            warg[i] = float(Wkey[k])
    elif wmode == "omitted":
        warg = None
    else:
        warg = wmode
    wedges = [(a, b, wref[(a, b)]) for (a, b) in E]
    wmax = max([w for _, _, w in wedges] + [0.0])
    dist = RG.bellman_ford(n, wedges, start)

    # ---- labels
    for t in case.get("tags", []):
        if t.startswith(("base=", "shape=", "comps=", "closed", "bordered", "second-component", "isolated", "coords=")):
            ctx.label(t)
    ctx.label("kind=" + kind, "wmode=" + wmode, "export=" + str(export), "tform=" + case["tform"])
    if wclass == "custom":
        ctx.label("wkind=" + case["wkind"])
    if any(w == 0.0 for _, _, w in wedges):
        ctx.label("has-zero-weight-edge")
    lab = RG.component_labels(n, E)

    args = []
    kwargs = {}
    if warg is not None:
        args.append(warg)
    if export != "omitted":
        if warg is None:
            kwargs["export_path_mesh"] = bool(export)
        else:
            args.append(bool(export))
    want_mesh = export is True

    def tie_at(t):
        nb = [a if b == t else b for (a, b) in E if t in (a, b)]
        return sum(1 for u in nb if close_w(dist[u] + wref[key(u, t)], dist[t], wmax)) >= 2

    # =============================================================================== point to point
    if entry == "p2p":
        tform = case["tform"]
        targ = targets[0] if tform == "int" else set(targets) if tform == "set" else tuple(targets) if tform == "tuple" else list(targets)
        tset = sorted(set(targets))
        assert all(lab[t] == lab[start] for t in tset), "generator: unreachable point-to-point target"
        ctx.label("ntargets=" + ("1" if len(tset) == 1 else "2-3" if len(tset) <= 3 else "4+"))
        if start in tset: ctx.label("start-among-targets")
        if len(targets) != len(tset): ctx.label("duplicate-targets")
        if any(t != start and tie_at(t) for t in tset): ctx.label("tie")
        ctx.nontrivial(any(RG.has_two_simple_paths(n, E, start, t) for t in tset))
        sig = f"p2p/{wclass}"
        ok, res = ctx.call(sig, LP.shortest_path, mesh, start, targ, *args, **kwargs)
        if not ok:
            return
        pm = None
        if want_mesh:
            if not ctx.check(isinstance(res, tuple) and len(res) == 2, sig + ":return", f"export_path_mesh=True must return (dict, PolyLine), got {type(res).__name__}"):
                return
            res, pm = res
        if not ctx.check(isinstance(res, dict), sig + ":return", f"paths are returned as {type(res).__name__}, not dict"):
            return
        keys = list(res.keys())
        if not ctx.check(all(is_intlike(k) for k in keys) and sorted(int(k) for k in keys) == tset, sig + ":keys",
                         f"result keys {keys!r} are not the requested targets {tset}"):
            return
        paths = []
        for t in tset:
            w = check_path(ctx, sig, f"start {start}, target {t}, targets given as {tform}", res[t], start, t, wedges, dist[t], wmax)
            if w is None:
                return
            paths.append([int(v) for v in res[t]])
        if want_mesh:
            check_polyline(ctx, f"p2p-export/{'multi' if len(tset) > 1 else 'single'}", pm, paths, V, start)
        return

    # =============================================================================== vertex set
    if entry == "set":
        tform = case["tform"]
        targ = set(targets) if tform == "set" else tuple(targets) if tform == "tuple" else list(targets)
        tset = sorted(set(targets))
        reach = [t for t in tset if lab[t] == lab[start]]
        assert reach, "generator: no reachable member"
        dmin = min(dist[t] for t in reach)
        ctx.label("ntargets=" + ("1" if len(targets) == 1 else "2-3" if len(tset) <= 3 else "4+"))
        if start in tset: ctx.label("start-in-set")
        if len(reach) < len(tset): ctx.label("unreachable-extra-members")
        if sum(1 for t in reach if close_w(dist[t], dmin, wmax)) >= 2: ctx.label("several-nearest-members")
        if any(t != start and tie_at(t) for t in reach): ctx.label("tie")
        ctx.nontrivial(any(RG.has_two_simple_paths(n, E, start, t) for t in reach))
        sig = f"set/{wclass}/{'single' if len(targets) == 1 else 'multi'}"
        ok, res = ctx.call(sig, LP.shortest_path_to_vertex_set, mesh, start, targ, *args, **kwargs)
        if not ok:
            return
        nret = 3 if want_mesh else 2
        if not ctx.check(isinstance(res, tuple) and len(res) == nret, sig + ":return",
                         f"expected a {nret}-tuple (index, path{', PolyLine' if want_mesh else ''}), got {res!r}"[:300]):
            return
        ind, path = res[0], res[1]
        if not ctx.check(is_intlike(ind) and int(ind) in tset, sig + ":member", f"returned index {ind!r} is not a member of the target set {tset}"):
            return
        ind = int(ind)
        if not ctx.check(close_w(dist[ind], dmin, wmax), sig + ":nearest",
                         f"returned member {ind} is at distance {dist[ind]!r} from {start}, but the nearest member is at {dmin!r} "
                         f"(distances {[(t, dist[t]) for t in tset]})"):
            return
        w = check_path(ctx, sig, f"start {start}, set {tset} given as {tform}, returned member {ind}", path, start, ind, wedges, dist[ind], wmax)
        if w is None:
            return
        if want_mesh:
            check_polyline(ctx, "set-export", res[2], [[int(v) for v in path]], V, start)
        return

    # =============================================================================== border
    if entry == "border":
        ref = SurfRef(n, case["F"])
        bv = sorted(ref.border_vertices())
        sig = f"border/{wclass}"
        if not bv:
            ctx.label("closed->documented-exception")
            try:
                r = LP.shortest_path_to_border(mesh, start, *args, **kwargs)
            except Exception as e:
                ctx.check("border" in str(e).lower(), sig + ":closed", f"closed surface: expected the documented 'Mesh has no border' exception, got {e!r}")
                return
            ctx.fail(sig + ":closed", f"closed surface: shortest_path_to_border returned {r!r} instead of raising")
            return
        reach = [t for t in bv if lab[t] == lab[start]]
        if not reach:
            ctx.label("start-component-closed(skipped)")
            ctx.discard("border: start's component has no border")
            return
        dmin = min(dist[t] for t in reach)
        if start in bv: ctx.label("start-on-border")
        if len(reach) < len(bv): ctx.label("border-in-other-components")
        if sum(1 for t in reach if close_w(dist[t], dmin, wmax)) >= 2: ctx.label("several-nearest-members")
        ctx.label("border-distance-hops=" + str(min(3, min(h for t, h in enumerate(RG.bfs_hops(n, E, start)) if t in set(reach)))))
        ctx.nontrivial(any(RG.has_two_simple_paths(n, E, start, t) for t in reach if close_w(dist[t], dmin, wmax)))
        ok, res = ctx.call(sig, LP.shortest_path_to_border, mesh, start, *args, **kwargs)
        if not ok:
            return
        pm = None
        if want_mesh:
            if not ctx.check(isinstance(res, tuple) and len(res) == 2, sig + ":return", f"export_path_mesh=True must return (path, PolyLine), got {res!r}"[:300]):
                return
            res, pm = res
        path = res
        if not ctx.check(isinstance(path, (list, tuple)) and len(path) >= 1 and all(is_intlike(v) for v in path), sig + ":shape",
                         f"path is not a non-empty list of vertex ids: {path!r}"):
            return
        end = int(path[-1])
        if not ctx.check(end in bv, sig + ":member", f"path {list(path)} from {start} does not end on the border {bv}"):
            return
        if not ctx.check(close_w(dist[end], dmin, wmax), sig + ":nearest",
                         f"path ends at border vertex {end} at distance {dist[end]!r}, the nearest border vertex is at {dmin!r}"):
            return
        w = check_path(ctx, sig, f"start {start}, border", path, start, end, wedges, dist[end], wmax)
        if w is None:
            return
        if want_mesh:
            check_polyline(ctx, "border-export", pm, [[int(v) for v in path]], V, start)
        return
    raise AssertionError(entry)


def self_test():
    RG.self_test_c09()
    # the harness's own oracles on a hand-made instance
    wed = [(0, 1, 1.0), (1, 2, 1.0), (0, 2, 3.0)]
    assert RG.bellman_ford(3, wed, 0) == [0.0, 1.0, 2.0]
    assert close_w(2.0, 2.0 + 1e-12, 3.0) and not close_w(3.0, 2.0, 3.0) and close_w(0.0, 0.0, 0.0) and not close_w(1e-30, 0.0, 0.0)


SUBCHECKS = [
    SubCheck("point_to_point", query_case("p2p"), fn, quick=2500, thorough=2500),
    SubCheck("vertex_set", query_case("set"), fn, quick=2000, thorough=2000),
    SubCheck("border", query_case("border"), fn, quick=1000, thorough=1000),
]

MATCHERS = {}
