"""C09 - shortest paths are valid edge paths of minimum length (point-to-point, to a vertex set, to the border; single
queries on fresh meshes and histories of queries on one mesh object)."""
import math
import random
from hypothesis import strategies as st
from vlib.runner import SubCheck
from vlib import gen_surface as GS
from vlib import gen_tets as GT
from vlib import ref_graph as RG
from vlib.topo import SurfRef, TetRef, key
from vlib.build import surface_from, volume_from, polyline_from

PROPERTY = "C09"
RULE = ("Sub-checks point_to_point / vertex_set / border: one query per case on a fresh generated mesh; sub-check history: "
        "2-6 queries of mixed kinds issued one after another on ONE mesh object (60% keep the previous weight mode, 60% the "
        "previous start; later set queries prefer targets at least as far as the members of earlier sets; the same dict / "
        "Attribute weight objects are reused), interleaved (10% of steps) with in-place edits of vertex coordinates (uniform "
        "rescale or moved vertices) or of entries of the custom weight objects; every query is validated against the "
        "reference for the state at that moment, and after every call the mesh, the targets argument and all weight objects "
        "are compared with snapshots; a quarter of the histories alternate between two independent mesh objects with the same "
        "connectivity but other coordinates and swapped weight tables; other history steps call attributes.edge_length "
        "(persistent 'length' attribute, stale after the next geometry edit) or add unrelated attributes, and half of the "
        "queries have their returned lists / dicts / polyline overwritten by the caller afterwards. Single-query cases may "
        "carry such attributes too (edge_length then an anisotropic rescale; a user-filled edge attribute 'length'; a dozen "
        "attributes named weight / distance / visited / parent ...). A sixth of the single-query cases and some history steps first issue a call with a "
        "faulty argument (weight dict lacking 1-2 edges, unknown weight mode, unreachable / non-existent target) that is "
        "expected to raise, possibly in the middle of the search: mesh, config and the following query must be unaffected. "
        "Representation choices drawn per case: ids as int / numpy int64, int32, uint16, uint8; index rows as lists or numpy "
        "arrays (from_arrays) of int64 / int32 / int16 / uint8; coordinates float64, float32 or int64; dict weights as Python "
        "float / int or numpy uint8, int8, int16, uint16, int32, int64, float32, float64 scalars (integer kinds use the full "
        "range of the type, so distances exceed it); config.sort_neighborhoods and display_duplicate_attribute_warning on/off. "
        "1 case in 100 uses a jittered grid / lattice of more than "
        "1000 vertices (paths of a few dozen vertices), and 1 case in 300 of every sub-check a LONG mesh whose shortest paths have more than "
        "1000 vertices (deeper than any recursion limit): open chain with dead-end branches, cycle, two-row strip, capped tube of 1100-1300 "
        "rings whose only border is the far ring (so that the path to the border is long in every weight mode), helix of 3000 tets; relabelled "
        "identity / reversed / stride / shuffled; start mostly at an extremity and targets in the farthest tenth (classes "
        "'shortest-path-vertices>1000' ...). Sub-check huge_paths (size regime of the path and of the target collection; a recipe that fn "
        "realises): chain of 131100 / 100010 / 65600 / 32800 path vertices, cycle (65600 / 32800 to the antipode), strip (32800 / 11000), "
        "tube with a border query (11000 / 3500 rings), tet helix (32800 tets, with caller weights favouring the spine the path visits all "
        "32803 vertices), and a broom whose 100010 / 65600 / 32800 leaves are all requested in one shortest_path call and given as the vertex "
        "set; on each mesh one point-to-point, one multi-member set, one single-member set (and one border) query between the two extremities, "
        "random weight modes / target forms / export, judged like a history. The simplest example, which every quick run evaluates, is the "
        "131100-vertex chain (above 2**17, 1e5 and 2**16 at once); quick adds one random recipe, thorough two per shard. Meshes: polylines (paths, cycles, trees, random simple graphs, lattice graphs with "
        "integer coordinates, wheels/ladders; optional second component and isolated vertices; random relabelling and edge "
        "orientation), surfaces (vlib.gen_surface.surfaces, <=40 faces, incl. disjoint unions, tori, polygons; Delaunay disks "
        "<=30 points; for border queries closed surfaces are mostly punctured by removing 1-2 faces so that the start can be "
        "several edges away from the border) and tet meshes (vlib.gen_tets.tets, <=25 cells); coordinates uniformly scaled by "
        "1, 1e-3 .. 1e-12 or 1e3 .. 1e12 and then translated by 0 or 1e3 .. 1e8 times the size of the mesh; integral coordinates optionally stored as int64 rows. Entry points shortest_path (target "
        "as int / list / set / tuple / numpy array / one-shot iterator, 1-6 targets, duplicates in lists, start among the targets, whole "
        "component), shortest_path_to_vertex_set (1-6 targets incl. singletons, start in the set, optionally extra members in "
        "other components) and shortest_path_to_border (start in a bordered component, incl. start on the border; closed "
        "surfaces must raise the documented exception). Vertex ids as Python ints or numpy.int64. Weights: omitted, 'length', "
        "'one', dict, sparse Attribute (all written / only non-zeros written / non-zero default with only the other values written) and dense Attribute, with values from {0..3}, "
        "zero-heavy, all-zero, all-equal, dyadic, uniform floats and 6 decades wide, optionally scaled by 1e-6 .. 1e-15 or 1e6 .. 1e12 (dict insertion order "
        "shuffled); "
        "export_path_mesh on/off/omitted. Oracle: Bellman-Ford distances from the case's own edge list (meshes of more than 1000 vertices: "
        "a binary-heap Dijkstra on the same edge list and bridge finding by depth-first search for the non-triviality predicate, both "
        "cross-checked against the plain versions in the self-test). non-trivial = some "
        "requested target (some nearest border vertex) of some query is joined to the start by >= 2 distinct simple paths; "
        "distinct = distinct realised cases.")
ASSUMPTIONS = ["graphs are simple (no loops, no parallel edges); surfaces / tet meshes are manifold as produced by the shared generators",
               "weights are finite and non-negative and a custom weight is supplied for every edge id of the mesh's edge container",
               "every point-to-point target lies in the start's component; a set/border query has at least one reachable member",
               "start / collection members are Python ints or numpy.int64; a scalar target is a Python int (as documented); "
               "target collections are list / set / tuple / 1-d integer numpy array / an iterator over such ids",
               "weights and coordinates may have any magnitude between 1e-18 and 1e15 (tolerances are relative to the largest weight "
               "/ distance involved); integer-typed coordinates stay below 2^24",
               "tolerance 1e-9 relative, except 1e-5 where the caller's own data is float32 (float32 coordinates with 'length', "
               "float32 scalars in a weight dict); fixed-width numpy integer weights are non-negative values of that type and the "
               "minimum is taken over exact sums (no wrap-around)",
               "no size is special: a shortest path may have more than 10**5 vertices and a target collection more than 10**5 members "
               "(no single-precision data on the long meshes: summing thousands of float32 terms is not covered by the 1e-5 tolerance)",
               "a caller may catch an exception raised by a query with a faulty argument and go on querying",
               "edge / vertex attributes stored on the mesh under any name (e.g. 'length') are not inputs of a query: "
               "weights='length' means the Euclidean length of the edges at the time of the call",
               "between two queries a caller may assign new coordinates to mesh.vertices[i] and new values to entries of its own "
               "weight dict / Attribute; the next query must answer for the current state"]

REL_TOL = 1e-9
TOL = [REL_TOL]          # tolerance of the query being judged (1e-5 only where the CALLER supplies float32 data, see tol_for)
# largest value used for weights handed over as fixed-width numpy scalars (the reference uses exactly these values)
NARROW = {"uint8": 255, "int8": 127, "int16": 32767, "uint16": 65535, "int32": 10 ** 6, "int64": 10 ** 6}
DVTYPES = [None, None, None, None, None, "uint8", "uint8", "int8", "int16", "uint16", "int32", "int64", "float32", "float64"]
IDFORMS = ["int", "int", "int", "numpy", "np-int32", "np-uint16", "np-uint8"]
ROWFORMS = ["list", "list", "list", "np-int64", "np-int32", "np-int16", "np-uint8"]
OFFSETS = [0.0, 0.0, 0.0, 0.0, 0.0, 1e3, 1e4, 1e5, 1e6, 1e7, 1e8]


# ------------------------------------------------------------------------------------------------ generators

def _graph_shape(rnd, shape, n):
    """simple undirected graph on 0..n-1 -> (n, edge list, coordinates or None)"""
    E, P = [], None
    if shape == "path":
        E = [(i, i + 1) for i in range(n - 1)]
    elif shape == "cycle":
        n = max(n, 3)
        E = [(i, (i + 1) % n) for i in range(n)]
    elif shape == "tree":
        E = [(rnd.randrange(i), i) for i in range(1, n)]
    elif shape == "graph":
        pairs = [(j, i) for i in range(n) for j in range(i)]
        p = rnd.choice([0.15, 0.3, 0.5, 0.8])
        E = [e for e in pairs if rnd.random() < p]
    elif shape == "connected":
        E = [(rnd.randrange(i), i) for i in range(1, n)]
        pairs = [(j, i) for i in range(n) for j in range(i) if (j, i) not in set(E)]
        E += [e for e in pairs if rnd.random() < 0.25]
    elif shape == "lattice":
        nu, nv = rnd.randint(1, 4), rnd.randint(1, 4)
        n = nu * nv
        idx = lambda i, j: i * nv + j
        for i in range(nu):
            for j in range(nv):
                if i + 1 < nu: E.append((idx(i, j), idx(i + 1, j)))
                if j + 1 < nv: E.append((idx(i, j), idx(i, j + 1)))
                if i + 1 < nu and j + 1 < nv and rnd.random() < 0.3: E.append((idx(i, j), idx(i + 1, j + 1)))
        P = [[float(i), float(j), 0.0] for i in range(nu) for j in range(nv)]
    elif shape == "wheel":
        n = max(n, 4)
        E = [(0, i) for i in range(1, n)] + [(i, i + 1 if i + 1 < n else 1) for i in range(1, n)]
        P = [[0.0, 0.0, 0.0]] + [[math.cos(2 * math.pi * i / (n - 1)), math.sin(2 * math.pi * i / (n - 1)), 0.0] for i in range(n - 1)]
    elif shape == "ladder":
        k = max(2, n // 2)
        n = 2 * k
        E = [(i, i + 1) for i in range(k - 1)] + [(k + i, k + i + 1) for i in range(k - 1)] + [(i, k + i) for i in range(k)]
        P = [[float(i), 0.0, 0.0] for i in range(k)] + [[float(i), 1.0, 0.0] for i in range(k)]
    else:
        raise AssertionError(shape)
    E = sorted(set((min(a, b), max(a, b)) for a, b in E if a != b))
    return n, E, P


SHAPES = ["path", "cycle", "tree", "graph", "graph", "connected", "connected", "lattice", "lattice", "wheel", "ladder"]


@st.composite
def polylines(draw):
    seed = draw(st.integers(0, 10 ** 6))
    rnd = random.Random(seed)
    shape = draw(st.sampled_from(SHAPES))
    n = draw(st.integers(1, 14))
    n, E, P = _graph_shape(rnd, shape, n)
    tags = ["shape=" + shape]
    cmode = draw(st.sampled_from(["float", "lattice", "given"]))
    if P is None or cmode != "given":
        if cmode == "lattice" or (cmode == "given" and P is None and rnd.random() < 0.5):
            pts = rnd.sample(range(125), n)
            P = [[float(p // 25), float(p // 5 % 5), float(p % 5)] for p in pts]
            tags.append("coords=lattice")
        else:
            P = [[rnd.uniform(0, 4) for _ in range(3)] for _ in range(n)]
            tags.append("coords=float")
    else:
        tags.append("coords=shape")
    extra = draw(st.integers(0, 5))
    if extra == 0:
        # a second component (its vertices are unreachable from the first one)
        n2, E2, _ = _graph_shape(rnd, rnd.choice(["path", "cycle", "tree", "graph"]), rnd.randint(1, 5))
        E += [(a + n, b + n) for a, b in E2]
        P += [[rnd.uniform(5, 8) for _ in range(3)] for _ in range(n2)]
        n += n2
        tags.append("second-component")
    elif extra == 1:
        k = rnd.randint(1, 2)
        P += [[rnd.uniform(-3, -1) for _ in range(3)] for _ in range(k)]
        n += k
        tags.append("isolated-vertices")
    if draw(st.booleans()):
        perm = list(range(n))
        rnd.shuffle(perm)
        E = [(perm[a], perm[b]) for a, b in E]
        P2 = [None] * n
        for i in range(n):
            P2[perm[i]] = P[i]
        P = P2
        rnd.shuffle(E)
        tags.append("relabelled")
    E = [[a, b] if rnd.random() < 0.5 else [b, a] for a, b in E]
    return {"kind": "polyline", "V": P, "E": E, "tags": tags}


@st.composite
def punctured(draw, s):
    """a closed (component of a) surface gets 1-2 faces removed: a bordered surface whose interior is far from the border"""
    V, F = s["V"], [list(f) for f in s["F"]]
    done = 0
    for _ in range(draw(st.integers(1, 2))):
        r = GS.op_delete_face(V, F, draw(st.integers(0, 200)))
        if r is not None and r[1] and GS._valid(r[0], r[1]):
            V, F = r
            done += 1
    if not done:
        return s
    keep = [t for t in s["tags"] if t.startswith(("base=", "union=", "sum="))]
    return {"V": V, "F": F, "tags": keep + ["punctured"] + GS.tags_of(V, F)}


@st.composite
def meshes(draw, kinds=("polyline", "polyline", "surface", "surface", "volume")):
    kind = draw(st.sampled_from(list(kinds)))
    r = random.Random(draw(st.integers(0, 10 ** 6))).random()          # (integer draws are biased to 0)
    what = "polyline" if kind == "polyline" else "volume" if kind == "volume" else "surface"
    if r < P_LONG:
        return long_regular_mesh(draw(st.integers(0, 10 ** 6)), what)
    if r < P_LONG + 0.012 and kind != "volume":
        return large_mesh(draw(st.integers(0, 10 ** 6)), what)
    if kind == "polyline":
        return draw(polylines())
    if kind in ("surface", "border-surface"):
        which = draw(st.sampled_from(["any", "any", "any", "disk"]))
        if which == "disk":
            s = draw(GS.delaunay_disks(max_pts=30))
        else:
            s = draw(GS.surfaces(max_faces=40, keep_isolated=draw(st.integers(0, 9)) == 0))
        if kind == "border-surface" and "closed" in s["tags"] and draw(st.integers(0, 9)) != 0:
            s = draw(punctured(s))
        return {"kind": "surface", "V": s["V"], "F": [list(map(int, f)) for f in s["F"]], "tags": s["tags"]}
    t = draw(GT.tets(max_cells=25))
    return {"kind": "volume", "V": t["V"], "C": t["C"], "tags": t["tags"]}


P_LONG = 0.0035      # share of the cases of the four ordinary sub-checks that use a long mesh (each costs about a second)


def long_regular_mesh(seed, what):
    """a LONG mesh (long_mesh): between its extremities every path has more than 1000 vertices (deeper than any recursion limit)"""
    rnd = random.Random(seed)
    fam = {"polyline": rnd.choice(["chain", "chain", "cycle"]), "surface": rnd.choice(["tube", "tube", "strip"]), "volume": "tetchain"}[what]
    L = {"chain": rnd.randint(1150, 2000), "cycle": rnd.randint(1150, 1400), "tube": rnd.randint(1100, 1300), "strip": rnd.randint(1100, 1600),
         "tetchain": rnd.randint(3050, 3300)}[fam]
    return long_mesh(rnd, fam, L)[0]


def large_mesh(seed, what):
    """a mesh well above 1000 vertices (any plausible internal size threshold): jittered triangulated / quad grid or lattice polyline
    (their shortest paths have a few dozen vertices)"""
    rnd = random.Random(seed)
    nu, nv = rnd.randint(32, 35), rnd.randint(32, 35)
    idx = lambda i, j: i * nv + j
    V = [[i + rnd.uniform(-0.3, 0.3), j + rnd.uniform(-0.3, 0.3), rnd.uniform(0, 0.5)] for i in range(nu) for j in range(nv)]
    if what == "polyline":
        E = []
        for i in range(nu):
            for j in range(nv):
                if i + 1 < nu and rnd.random() < 0.9: E.append([idx(i, j), idx(i + 1, j)])
                if j + 1 < nv and rnd.random() < 0.9: E.append([idx(i, j), idx(i, j + 1)])
        return {"kind": "polyline", "V": V, "E": E, "tags": ["shape=large-lattice", "coords=float", "large"]}
    F = []
    for i in range(nu - 1):
        for j in range(nv - 1):
            a, b, c, d = idx(i, j), idx(i + 1, j), idx(i + 1, j + 1), idx(i, j + 1)
            if rnd.random() < 0.5:
                F += [[a, b, c], [a, c, d]]
            else:
                F += [[a, b, d], [b, c, d]]
    return {"kind": "surface", "V": V, "F": F, "tags": ["base=large-grid", "bordered", "comps=1", "large"]}


def _relabelling(rnd, n, how):
    """position -> vertex id"""
    if how == "identity":
        return list(range(n))
    if how == "reversed":
        return list(range(n - 1, -1, -1))
    if how == "stride":         # neighbours along the mesh get ids that are far apart
        s = max(2, int(n * 0.381966))
        while math.gcd(s, n) != 1:
            s += 1
        return [(i * s) % n for i in range(n)]
    perm = list(range(n))
    rnd.shuffle(perm)
    return perm


def long_mesh(rnd, fam, L, relabel=None):
    """Meshes whose shortest paths between the two extremities A and B visit about L vertices (size regime of the PATH, not only
    of the mesh), whatever the weights:
      chain    open polyline of L vertices + a few short dead-end branches (the path between its ends has exactly L vertices)
      cycle    closed polyline of 2L-2 vertices (both ways round to the antipode have L vertices)
      strip    two rows x L columns of quads / triangles (every vertex on the border; an end-to-end path has >= L vertices)
      tube     L rings of 3 vertices, capped by a triangle at the first ring, open at the last one: the border is the last ring and
               a path from the cap to the border has >= L vertices in every weight mode
      tetchain Boerdijk-Coxeter helix of L regular tets, tet i = vertices i..i+3 (an end-to-end path has > L/3 vertices, and L+3
               vertices under weights that favour the spine edges (i, i+1))
      broom    a short handle, a hub and L leaves (size regime of the NUMBER OF TARGETS: paths have 2-8 vertices)
    -> (mesh dict, A, B): A, B = vertex ids near the two extremities (broom: A = handle end, B = the leaves)"""
    jit = lambda s: rnd.uniform(-s, s)
    tags = ["large", "long"]
    if fam in ("chain", "cycle"):
        if fam == "chain":
            nb = rnd.randint(0, 6)
            rr = rnd.random
            P = [[i + 0.4 * rr() - 0.2, 0.25 * (i % 2), 0.3 * rr()] for i in range(L)]
            E = [(i, i + 1) for i in range(L - 1)]
            for j in range(nb):      # dead ends, mostly near the extremities
                a = rnd.choice([rnd.randrange(L), rnd.randrange(min(L, 8)), L - 1 - rnd.randrange(min(L, 8))])
                P.append([P[a][0] + jit(0.5), P[a][1] + rnd.uniform(1, 3), P[a][2]])
                E.append((a, L + j))
            A, B = list(range(min(4, L))), [L - 1 - j for j in range(min(8, L))]
        else:
            n = 2 * L - 2
            R = n / (2 * math.pi)
            P = [[R * math.cos(2 * math.pi * i / n), R * math.sin(2 * math.pi * i / n), jit(0.2)] for i in range(n)]
            E = [(i, (i + 1) % n) for i in range(n)]
            A, B = [0], [(L - 1 + d) % n for d in (0, -1, 1, -2, 2, -3, 3)]
        n = len(P)
        perm = _relabelling(rnd, n, relabel or rnd.choice(["identity", "reversed", "stride", "shuffle"]))
        V = [None] * n
        for i in range(n):
            V[perm[i]] = P[i]
        E = [[perm[a], perm[b]] if rnd.random() < 0.5 else [perm[b], perm[a]] for a, b in E]
        if rnd.random() < 0.5:
            rnd.shuffle(E)
        mesh = {"kind": "polyline", "V": V, "E": E, "tags": ["shape=long-" + fam, "coords=float"] + tags}
        return mesh, [perm[a] for a in A], [perm[b] for b in B]
    if fam == "broom":
        h = rnd.randint(1, 6)
        P = [[float(i) + jit(0.2), jit(0.2), 0.0] for i in range(h)]
        E = [(i, i + 1) for i in range(h - 1)]
        for j in range(L):
            t, r = 2 * math.pi * j / L, rnd.uniform(1.0, 2.0)
            P.append([h - 1 + r * math.cos(t), r * math.sin(t), rnd.uniform(0.5, 1.5)])
            E.append((h - 1, h + j))
        E = [[a, b] if rnd.random() < 0.5 else [b, a] for a, b in E]
        if rnd.random() < 0.5:
            rnd.shuffle(E)
        mesh = {"kind": "polyline", "V": P, "E": E, "tags": ["shape=broom", "coords=float", "large", "many-targets"]}
        return mesh, [0], list(range(h, h + L))
    if fam in ("strip", "tube"):
        if fam == "strip":
            P = [[i + jit(0.2), float(r) + jit(0.2), rnd.uniform(0, 0.3)] for i in range(L) for r in range(2)]
            Q = [[2 * i, 2 * i + 2, 2 * i + 3, 2 * i + 1] for i in range(L - 1)]
            F = []
            A, B = [0, 1], [2 * L - 1, 2 * L - 2]
        else:
            P = [[j + jit(0.2), 0.4 * math.cos(2 * math.pi * a / 3 + 0.1 * j), 0.4 * math.sin(2 * math.pi * a / 3 + 0.1 * j)] for j in range(L) for a in range(3)]
            Q = [[3 * j + a, 3 * j + (a + 1) % 3, 3 * (j + 1) + (a + 1) % 3, 3 * (j + 1) + a] for j in range(L - 1) for a in range(3)]
            F = [[0, 2, 1]]                    # the cap (orientation consistent with the quads)
            A, B = [0, 1, 2], [3 * L - 1, 3 * L - 2, 3 * L - 3]
        style = rnd.choice(["quads", "triangles", "mixed"])
        for q in Q:
            if style == "quads" or (style == "mixed" and rnd.random() < 0.5):
                F.append(q)
            elif rnd.random() < 0.5:
                F += [[q[0], q[1], q[2]], [q[0], q[2], q[3]]]
            else:
                F += [[q[0], q[1], q[3]], [q[1], q[2], q[3]]]
        n = len(P)
        perm = _relabelling(rnd, n, relabel or rnd.choice(["identity", "identity", "reversed", "stride"]))
        V = [None] * n
        for i in range(n):
            V[perm[i]] = P[i]
        F = [[perm[v] for v in f] for f in F]
        if rnd.random() < 0.3:
            rnd.shuffle(F)
        mesh = {"kind": "surface", "V": V, "F": F, "tags": ["base=long-" + fam, "bordered", "comps=1"] + tags}
        return mesh, [perm[a] for a in A], [perm[b] for b in B]
    if fam == "tetchain":
        nt = L
        th, r, h = math.acos(-2.0 / 3.0), 3 * math.sqrt(3) / 10, 1 / math.sqrt(10)
        V = [[r * math.cos(i * th), r * math.sin(i * th), i * h] for i in range(nt + 3)]
        C = []
        for i in range(nt):
            c = [i, i + 1, i + 2, i + 3]
            pa, pb, pc, pd = (V[v] for v in c)
            u, v, w = ([pa[k] - pd[k] for k in range(3)], [pb[k] - pd[k] for k in range(3)], [pc[k] - pd[k] for k in range(3)])
            det = (u[0] * (v[1] * w[2] - v[2] * w[1]) - u[1] * (v[0] * w[2] - v[2] * w[0]) + u[2] * (v[0] * w[1] - v[1] * w[0]))
            if det < 0:
                c[0], c[1] = c[1], c[0]
            C.append(c)
        mesh = {"kind": "volume", "V": V, "C": C, "tags": ["base=long-tetchain", "comps=1"] + tags}
        return mesh, [0, 1], [nt + 2, nt + 1]
    raise AssertionError(fam)


def ekey(e):
    """vlib.topo.key for a vertex pair (without the generic sort: there are millions of calls on the huge meshes)"""
    a, b = e
    a, b = int(a), int(b)
    return (a, b) if a < b else (b, a)


def ref_edges(case):
    """sorted list of vertex-pair keys of the mesh's 1-skeleton, from the case alone"""
    k = case["kind"]
    if k == "polyline":
        return sorted(ekey(e) for e in case["E"])
    if k == "surface":
        return sorted(SurfRef(len(case["V"]), case["F"]).uedges)
    return sorted(TetRef(len(case["V"]), case["C"]).ekeys)


WKINDS = ["int03", "int03", "zeroheavy", "float", "float", "dyadic", "allzero", "allone", "wide"]


def realise_weights(rnd, wkind, m):
    if wkind == "int03":
        return [float(rnd.choice([0, 1, 1, 2, 3])) for _ in range(m)]
    if wkind == "zeroheavy":
        return [float(rnd.choice([0, 0, 0, 1])) for _ in range(m)]
    if wkind == "float":
        return [rnd.uniform(0, 10) for _ in range(m)]
    if wkind == "dyadic":
        return [rnd.randint(0, 16) / 4 for _ in range(m)]
    if wkind == "allzero":
        return [0.0] * m
    if wkind == "allone":
        return [1.0] * m
    if wkind == "wide":
        return [10 ** rnd.uniform(-3, 3) for _ in range(m)]
    raise AssertionError(wkind)


WMODES = ["omitted", "length", "length", "one", "one", "dict", "dict", "dict", "attr", "attr_partial", "attr_default", "attr_dense"]


# no absolute magnitude is special: a nanometre object in metres (1e-9..1e-12) or caller costs in tiny / huge units are in the domain
SCALES = [1.0, 1.0, 1.0, 1.0, 1e-3, 1e-6, 1e-9, 1e-12, 1e3, 1e6, 1e9, 1e12]
WSCALES = [1.0, 1.0, 1.0, 1.0, 1.0, 1e-6, 1e-9, 1e-12, 1e-15, 1e6, 1e9, 1e12]
STRETCH = [None, None, None, None, None, [1.0, 1.0, 8.0], [6.0, 1.0, 1.0], [1.0, 5.0, 1.0], [3.0, 1.0, 9.0]]     # integer factors: integral coordinates stay integral
DECOYS = [None, None, None, "edge_length-then-moved", "edge_length-then-moved", "user-length", "many-names"]
ANISO = [[1.0, 3.0, 0.25], [4.0, 1.0, 1.0], [0.2, 1.0, 5.0], [1.0, 1.0, 7.0], [2.5, 0.4, 1.0]]


def best_among_optimal(n, adj, wcur, walt, start):
    """{v: the smallest wcur-weight of a path from start to v that is OPTIMAL for the weights walt} (walt > 0), or None"""
    if not walt or min(walt.values()) <= 0:
        return None
    dalt = RG.bellman_ford(n, [(a, b, w) for (a, b), w in walt.items()], start)
    order = sorted((v for v in range(n) if dalt[v] < math.inf), key=dalt.__getitem__)
    scale_alt = max(max(walt.values()), max(dalt[v] for v in order))
    best = {start: 0.0}
    for v in order:
        if v == start:
            continue
        c = [best[u] + wcur[(u, v) if u < v else (v, u)] for u in adj[v]
             if u in best and abs(dalt[u] + walt[(u, v) if u < v else (v, u)] - dalt[v]) <= 1e-9 * scale_alt]
        if c:
            best[v] = min(c)
    return best


def differs_under(n, adj, wcur, walt, start, targets, dcur):
    """evidence only: is there a target for which EVERY optimal path for the weights walt is worse than optimal for the weights
    wcur? (then an implementation that confused the two weight modes would be noticed on this query)"""
    best = best_among_optimal(n, adj, wcur, walt, start)
    if best is None:
        return False
    scale = max([abs(dcur[t]) for t in targets] + list(wcur.values()) + [0.0])
    return any(t in best and best[t] > dcur[t] + 1e-6 * scale for t in targets)


class GraphInfo:
    """what the query generators need to know about the mesh (from the case alone)"""

    def __init__(self, case):
        self.n = len(case["V"])
        self.long = "long" in case.get("tags", [])
        self.V = case["V"]
        self.E = ref_edges(case)
        self.lab = RG.component_labels(self.n, self.E)
        self.deg = [0] * self.n
        for a, b in self.E:
            self.deg[a] += 1; self.deg[b] += 1
        self.nonisolated = [v for v in range(self.n) if self.deg[v] > 0]
        self.bv = set()
        if case["kind"] == "surface":
            self.bv = set(SurfRef(self.n, case["F"]).border_vertices())
        blabs = set(self.lab[v] for v in self.bv)
        self.border_cand = [v for v in range(self.n) if self.lab[v] in blabs]      # vertices that can reach the border
        self._hops = {}

    def hops(self, v):
        if v not in self._hops:
            self._hops[v] = RG.bfs_hops(self.n, self.E, v)
        return self._hops[v]

    def mode_sensitive(self, start):
        """the vertices for which every Euclidean shortest path from start has more edges than the fewest-edges path: there
        the weight modes 'one' / uniform caller weights and 'length' have different answers"""
        if self.n > 300 or not self.E:
            return []
        one = {k: 1.0 for k in self.E}
        best = best_among_optimal(self.n, RG.adjacency_lists(self.n, self.E), one, {(a, b): dist3(self.V[a], self.V[b]) for a, b in self.E}, start)
        h = self.hops(start)
        return [] if best is None else [t for t in sorted(best) if h[t] is not None and best[t] > h[t]]


def scale_mesh(draw, mesh):
    """uniform scaling of the coordinates (the property is scale covariant for 'length', invariant otherwise), then a
    translation by 1e3 .. 1e8 times the size of the mesh (lengths are translation invariant; the reference measures the
    stored coordinates, and |a-b| of two stored points is accurate to eps whatever the offset, so no tolerance changes)"""
    f = draw(st.sampled_from(SCALES))
    mesh = dict(mesh)
    ax = draw(st.sampled_from(STRETCH))
    if ax and "large" not in mesh["tags"]:
        # the property holds for any geometry: on a stretched mesh the fewest-edges path, the Euclidean shortest path and the optimum
        # for the caller's weights mostly differ, so that a confusion between the weight modes shows
        mesh["V"] = [[v[c] * ax[c] for c in range(3)] for v in mesh["V"]]
        mesh["tags"] = list(mesh["tags"]) + ["stretched"]
    if f != 1.0:
        mesh["V"] = [[x * f for x in v] for v in mesh["V"]]
    k = draw(st.sampled_from(OFFSETS))
    if k:
        V = mesh["V"]
        size = max([max(v[c] for v in V) - min(v[c] for v in V) for c in range(3)] + [0.0]) or f
        rnd = random.Random(draw(st.integers(0, 10 ** 6)))
        d = [rnd.choice([-1.0, 1.0, 0.3, 0.0]) for _ in range(3)]
        if not any(d):
            d[rnd.randrange(3)] = 1.0
        off = [k * size * x for x in d]
        mesh["V"] = [[v[c] + off[c] for c in range(3)] for v in V]
    mesh["tags"] = list(mesh["tags"]) + ["scale=%g" % f, "offset/size=%g" % k]
    return mesh


def draw_forms(draw, case):
    """representation choices that do not change the graph: dtypes of ids / index rows / coordinates / dict values, library switches"""
    import numpy as np
    case["idform"] = draw(st.sampled_from(IDFORMS))
    case["rowform"] = draw(st.sampled_from(ROWFORMS))
    case["intcoords"] = draw(st.booleans())
    case["dvtype"] = draw(st.sampled_from(DVTYPES))
    long = "long" in case.get("tags", [])
    if long and case["dvtype"] == "float32":
        case["dvtype"] = None        # (no single precision data on paths of thousands of edges: see ASSUMPTIONS on the tolerance)
    case["cfg"] = {"sort": draw(st.booleans()), "dupwarn": draw(st.booleans())}
    if draw(st.sampled_from([False] * 7 + [True])) and not long:
        mx = max([abs(x) for v in case["V"] for x in v] + [0.0])
        if mx < 1e15 and all(x == 0.0 or abs(x) > 1e-15 for v in case["V"] for x in v):
            # low precision point array: the coordinates ARE the float32 values
            case["V"] = [[float(np.float32(x)) for x in v] for v in case["V"]]
            case["coordtype"] = "float32"


def gen_border_start(draw, rnd, G):
    cand = G.border_cand
    if not cand:
        return rnd.randrange(G.n)           # closed surface: the documented exception is expected
    inner = [v for v in cand if v not in G.bv]
    style = draw(st.sampled_from(["any", "on-border", "inner", "inner", "deep", "deep"]))
    if style == "on-border" or not inner:
        pool = sorted(G.bv) if style == "on-border" else cand
    elif style == "inner":
        pool = inner
    elif style == "deep":
        adj = RG.adjacency_lists(G.n, G.E)
        hop = {v: 0 for v in G.bv}
        frontier = list(G.bv)
        while frontier:
            nxt = []
            for u in frontier:
                for w in adj[u]:
                    if w not in hop:
                        hop[w] = hop[u] + 1
                        nxt.append(w)
            frontier = nxt
        mx = max(hop[v] for v in inner)
        pool = [v for v in inner if hop[v] == mx]
    else:
        pool = cand
    return rnd.choice(pool)


def gen_start(draw, rnd, G):
    if G.long and G.nonisolated and rnd.random() < 0.85:
        # long meshes: an extremity (the vertices farthest, in hops, from a random vertex), so that paths of > 1000 vertices are frequent
        h = G.hops(rnd.choice(G.nonisolated))
        mx = max(x for x in h if x is not None)
        return rnd.choice([v for v in range(G.n) if h[v] is not None and h[v] >= mx - 2])
    if G.nonisolated and draw(st.integers(0, 11)) != 0:
        return rnd.choice(G.nonisolated)
    return rnd.randrange(G.n)


def gen_targets(draw, rnd, G, entry, start, avoid=()):
    """(targets, tform) for a point-to-point or vertex-set query from `start`. `avoid`: members of earlier target sets -
    the 'far' style picks new targets among the vertices at least as far (in hops) as those, so that an implementation
    remembering an earlier target would end there."""
    comp = [v for v in range(G.n) if G.lab[v] == G.lab[start]]
    others = [v for v in range(G.n) if G.lab[v] != G.lab[start]]
    notstart = [v for v in comp if v != start] or comp
    if G.long:
        if rnd.random() < 0.85:      # mostly targets in the farthest tenth
            h = G.hops(start)
            mx = max(h[v] for v in comp)
            notstart = [v for v in notstart if h[v] >= 0.9 * mx] or notstart
        if len(comp) > 300:          # 'whole-component' on a long mesh: a sample (every path has hundreds of vertices)
            comp = rnd.sample(comp, 300)
    if entry == "p2p":
        tform = draw(st.sampled_from(["int", "int", "list", "list", "set", "tuple", "array", "iter"]))
        style = draw(st.sampled_from(["few", "few", "few", "one", "one", "with-start", "whole-component", "mode-sensitive", "mode-sensitive"]))
    else:
        tform = draw(st.sampled_from(["list", "list", "list", "set", "set", "tuple", "array", "iter"]))
        style = draw(st.sampled_from(["few", "few", "few", "one", "one", "with-start", "unreachable-extra", "whole-component", "mode-sensitive", "mode-sensitive"]
                                     + (["far", "far", "far", "far"] if avoid else [])))
    if style == "mode-sensitive":
        # targets for which the weight modes disagree (if there are any): a confusion between the modes shows there
        ms = [v for v in G.mode_sensitive(start) if v != start]
        if ms:
            notstart = ms
            style = rnd.choice(["one", "few"])
        else:
            style = "few"
    if tform == "int" or style == "one":
        targets = [rnd.choice(notstart if rnd.random() < 0.9 else comp)]
    elif style == "whole-component":
        targets = list(comp)
        rnd.shuffle(targets)
    elif style == "far":
        h = G.hops(start)
        hav = [h[a] for a in avoid if h[a] is not None and a != start]
        lim = min(hav) if hav else 0
        pool = [v for v in notstart if v not in avoid and h[v] >= lim] or [v for v in notstart if v not in avoid] or notstart
        targets = [rnd.choice(pool) for _ in range(draw(st.integers(2, 4)))]
    else:
        targets = [rnd.choice(notstart) for _ in range(draw(st.integers(2, 6)))]
        if style == "with-start":
            targets.insert(rnd.randint(0, len(targets)), start)
        if entry == "set" and others and (style == "unreachable-extra" or draw(st.integers(0, 2)) == 0):
            for _ in range(rnd.randint(1, 2)):
                targets.insert(rnd.randint(0, len(targets)), rnd.choice(others))
    if tform == "set":
        targets = sorted(set(targets))
    return targets, tform


def gen_weight_tables(draw, nE, k):
    tabs, kinds = [], []
    for _ in range(k):
        wk = draw(st.sampled_from(WKINDS))
        ws = draw(st.sampled_from(WSCALES))
        W = realise_weights(random.Random(draw(st.integers(0, 10 ** 6))), wk, nE)
        tabs.append([w * ws for w in W])
        kinds.append(wk + ("" if ws == 1.0 else "*%g" % ws))
    return tabs, kinds


def gen_bad_query(rnd, G):
    """a call with a faulty argument that makes the library raise, possibly in the middle of its search: a weight dict that
    lacks some edges / an unknown weight mode / an unreachable or non-existent target"""
    kinds = ["partial-dict", "partial-dict", "partial-dict", "partial-dict", "bad-mode", "bad-target"]
    kind = rnd.choice(kinds) if G.E else rnd.choice(["bad-mode", "bad-target"])
    start = rnd.choice(G.nonisolated) if G.nonisolated else rnd.randrange(G.n)
    comp = [v for v in range(G.n) if G.lab[v] == G.lab[start]]
    q = {"op": "bad", "kind": kind, "entry": rnd.choice(["p2p", "set"]), "start": start,
         "targets": [rnd.choice(comp) for _ in range(rnd.randint(2, 3))]}
    if kind == "partial-dict":
        ecomp = [i for i, (a, b) in enumerate(G.E) if G.lab[a] == G.lab[start]] or list(range(len(G.E)))
        far = sorted(ecomp, key=lambda i: -min(G.hops(start)[G.E[i][0]] or 0, G.hops(start)[G.E[i][1]] or 0))
        pool = far[:max(1, len(far) // 2)] if rnd.random() < 0.7 else ecomp      # mostly edges the search meets late
        q["drop"] = sorted(set(rnd.choice(pool) for _ in range(rnd.randint(1, 2))))
    elif kind == "bad-target":
        others = [v for v in range(G.n) if G.lab[v] != G.lab[start]]
        q["entry"] = "p2p"
        q["targets"] = [rnd.choice(others)] if (others and rnd.random() < 0.7) else [G.n + 3]
    return q


@st.composite
def query_case(draw, entry):
    if entry == "border":
        mesh = draw(meshes(kinds=("border-surface",)))
    else:
        mesh = draw(meshes())
    case = scale_mesh(draw, dict(mesh))
    G = GraphInfo(case)
    case["entry"] = entry
    case["wmode"] = draw(st.sampled_from(WMODES))
    tabs, kinds = gen_weight_tables(draw, len(G.E), 1)
    case["W"], case["wkind"] = tabs[0], kinds[0]
    case["intvals"] = draw(st.booleans())
    case["export"] = draw(st.sampled_from(["omitted", False, True, True]))
    draw_forms(draw, case)
    case["decoy"] = draw(st.sampled_from(DECOYS))
    if draw(st.integers(0, 5)) == 0:
        case["prebad"] = gen_bad_query(random.Random(draw(st.integers(0, 10 ** 6))), G)
    case["aniso"] = draw(st.sampled_from(ANISO))
    # start / targets: uniform picks from a drawn seed (Hypothesis' integer draws are biased towards 0, which would make
    # start == target in most cases); the realised values are stored in the case
    rnd = random.Random(draw(st.integers(0, 10 ** 6)))
    if entry == "border":
        case["start"] = gen_border_start(draw, rnd, G)
        case["targets"], case["tform"] = [], "border"
        return case
    case["start"] = gen_start(draw, rnd, G)
    case["targets"], case["tform"] = gen_targets(draw, rnd, G, entry, case["start"])
    return case


@st.composite
def history_case(draw):
    """several queries (and a few in-place edits of coordinates / custom weights / attributes) one after another on ONE mesh
    object, optionally interleaved with queries on a second, independent mesh object with the same connectivity but other
    coordinates and weights (module-level state keyed on sizes / ids would mix them up)"""
    mesh = draw(meshes(kinds=("polyline", "polyline", "border-surface", "border-surface", "volume")))
    case = scale_mesh(draw, dict(mesh))
    G = GraphInfo(case)
    nE = len(G.E)
    case["Wt"], case["wkinds"] = gen_weight_tables(draw, nE, 2)
    case["intvals"] = draw(st.booleans())
    draw_forms(draw, case)
    case["decoy"] = draw(st.sampled_from([None, None, None, None, "user-length", "many-names"]))
    rnd = random.Random(draw(st.integers(0, 10 ** 6)))
    two = draw(st.integers(0, 3)) == 0 and "large" not in case["tags"]
    Vs = [[list(v) for v in case["V"]]]
    if two:
        ax = rnd.choice(ANISO)
        perm = list(range(3)); rnd.shuffle(perm)
        case["Vb"] = [[v[perm[c]] * ax[c] for c in range(3)] for v in case["V"]]
        Vs.append([list(v) for v in case["Vb"]])
    nsteps = draw(st.integers(2, 6))
    entries = ["p2p", "p2p", "set", "set", "set"] + (["border", "border"] if G.border_cand else [])
    steps = []
    prev = [None, None]                 # previous query per mesh object
    seen_targets = [{}, {}]             # per object: weight class -> members of earlier set/border target sets
    while len([s for s in steps if "entry" in s]) < nsteps:
        m = rnd.randrange(2) if two else 0
        V = Vs[m]
        if steps and draw(st.integers(0, 6)) == 0:
            kind = draw(st.sampled_from(["setV", "setV", "setW", "edge_length", "edge_length", "decoy", "bad", "bad", "bad"]))
            if kind == "bad":
                b = gen_bad_query(rnd, G)
                b["m"] = m
                steps.append(b)
                continue
            if kind == "setW" and nE == 0:
                kind = "setV"
            if kind == "setV":
                # in-place edit of the geometry: uniform / anisotropic rescaling about the origin or a few moved vertices
                style = draw(st.sampled_from(["uniform", "aniso", "aniso", "move", "move"]))
                if style == "uniform":
                    f = rnd.choice([0.5, 2.0, 3.0, 10.0])
                    upd = [[i, [x * f for x in V[i]]] for i in range(G.n)]
                elif style == "aniso":
                    ax = rnd.choice(ANISO)
                    upd = [[i, [V[i][c] * ax[c] for c in range(3)]] for i in range(G.n)]
                else:
                    lo = [min(v[c] for v in V) for c in range(3)]; hi = [max(v[c] for v in V) for c in range(3)]
                    upd = [[i, [rnd.uniform(lo[c], hi[c] if hi[c] > lo[c] else lo[c] + 1.0) for c in range(3)]]
                           for i in rnd.sample(range(G.n), min(G.n, rnd.randint(1, 3)))]
                for i, p in upd:
                    V[i] = list(p)
                steps.append({"op": "setV", "m": m, "updates": upd})
            elif kind == "setW":
                t = rnd.randrange(2)
                base = case["wkinds"][t].split("*")
                ws = float(base[1]) if len(base) > 1 else 1.0
                ks = rnd.sample(range(nE), min(nE, rnd.randint(1, 4)))
                vals = realise_weights(rnd, base[0], len(ks))
                steps.append({"op": "setW", "m": m, "wtab": t, "updates": [[k, w * ws] for k, w in zip(ks, vals)]})
            elif kind == "edge_length":
                # the caller stores the current edge lengths on the mesh (attributes.edge_length, persistent attribute "length")
                steps.append({"op": "edge_length", "m": m})
            else:
                steps.append({"op": "decoy", "m": m, "seed": rnd.randrange(10 ** 6)})
            continue
        entry = draw(st.sampled_from(entries))
        q = {"entry": entry, "m": m}
        pv = prev[m]
        if pv is not None and draw(st.integers(0, 9)) < 6:
            q["wmode"], q["wtab"] = pv["wmode"], pv["wtab"]
        else:
            q["wmode"], q["wtab"] = draw(st.sampled_from(WMODES)), draw(st.integers(0, 1))
        q["export"] = draw(st.sampled_from(["omitted", "omitted", False, True]))
        q["scramble"] = draw(st.booleans())
        wclass = weight_class(q["wmode"], q["wtab"])
        avoid = seen_targets[m].get(wclass, set())
        if entry == "border":
            if pv is not None and pv["start"] in G.border_cand and draw(st.booleans()):
                q["start"] = pv["start"]
            else:
                q["start"] = gen_border_start(draw, rnd, G)
            q["targets"], q["tform"] = [], "border"
            members = G.bv
        else:
            if pv is not None and draw(st.integers(0, 9)) < 6:
                q["start"] = pv["start"]
            else:
                q["start"] = gen_start(draw, rnd, G)
            q["targets"], q["tform"] = gen_targets(draw, rnd, G, entry, q["start"], avoid=avoid)
            members = set(q["targets"]) if entry == "set" else set()
        seen_targets[m].setdefault(wclass, set()).update(members)
        steps.append(q)
        prev[m] = q
    case["steps"] = steps
    return case


# ------------------------------------------------------------------------------------------------ oracles

def weight_class(wmode, wtab):
    return "one" if wmode == "one" else "length" if wmode in ("omitted", "length") else "custom%d" % wtab


def is_intlike(x):
    if type(x) is int:
        return True
    import numpy as np
    return (isinstance(x, int) and not isinstance(x, bool)) or isinstance(x, np.integer)


def dist3(p, q):
    return math.sqrt(math.fsum((float(a) - float(b)) ** 2 for a, b in zip(p, q)))


BIG = 1000        # above this many vertices the reference switches to the O(E log V) algorithms below


def dijkstra_ref(n, wedges, src):
    """same contract as RG.bellman_ford (non-negative weights), with a binary heap: the reference for meshes of more than BIG
    vertices, where relaxation rounds are quadratic. Cross-checked against bellman_ford in self_test."""
    import heapq
    adj = [[] for _ in range(n)]
    for a, b, w in wedges:
        if not w >= 0:
            raise ValueError("reference expects non-negative weights")
        adj[a].append((b, w)); adj[b].append((a, w))
    dist = [math.inf] * n
    dist[src] = 0.0
    heap = [(0.0, src)]
    while heap:
        d, v = heapq.heappop(heap)
        if d > dist[v]:
            continue
        for u, w in adj[v]:
            if d + w < dist[u]:
                dist[u] = d + w
                heapq.heappush(heap, (d + w, u))
    return dist


def ref_distances(n, wedges, src):
    return RG.bellman_ford(n, wedges, src) if n <= BIG else dijkstra_ref(n, wedges, src)


def bridges_of(n, adj):
    """set of keys of the bridges of a SIMPLE undirected graph (iterative depth-first search, low-link values)"""
    disc, low, out, t = [-1] * n, [0] * n, set(), 0
    for r in range(n):
        if disc[r] != -1:
            continue
        disc[r] = low[r] = t; t += 1
        stack = [(r, -1, 0)]
        while stack:
            v, p, i = stack.pop()
            if i < len(adj[v]):
                stack.append((v, p, i + 1))
                w = adj[v][i]
                if w == p:
                    continue
                if disc[w] == -1:
                    disc[w] = low[w] = t; t += 1
                    stack.append((w, v, 0))
                elif disc[w] < low[v]:
                    low[v] = disc[w]
            elif p != -1:
                if low[v] < low[p]:
                    low[p] = low[v]
                if low[v] > disc[p]:
                    out.add((p, v) if p < v else (v, p))
    return out


def two_simple_paths_fast(n, adj, bridges, s, targets):
    """for each t of targets: are there >= 2 distinct simple paths s..t? (same predicate as RG.has_two_simple_paths: the simple
    path is unique iff every edge of one s-t path is a bridge) - one breadth-first tree for all targets"""
    if len(bridges) * 2 == sum(len(a) for a in adj):
        return {t: False for t in targets}          # a forest
    par = {s: s}
    frontier = [s]
    while frontier:
        nxt = []
        for u in frontier:
            for w in adj[u]:
                if w not in par:
                    par[w] = u
                    nxt.append(w)
        frontier = nxt
    res = {}
    for t in targets:
        v, found = t, False
        while v in par and v != s:
            if ((v, par[v]) if v < par[v] else (par[v], v)) not in bridges:
                found = True
                break
            v = par[v]
        res[t] = found and t in par
    return res


def abbr(seq, k=12):
    """rendering of a long id list for messages"""
    seq = list(seq)
    if len(seq) <= 2 * k + 4:
        return repr(seq)
    return "[" + ", ".join(map(repr, seq[:k])) + f", ... ({len(seq)} entries) ..., " + ", ".join(map(repr, seq[-k:])) + "]"


def size_bucket(x):
    """label of a count in the size regimes that matter for hidden thresholds (None below 1000)"""
    for name, lim in (("2^17", 2 ** 17), ("1e5", 10 ** 5), ("2^16", 2 ** 16), ("2^15", 2 ** 15), ("1e4", 10 ** 4), ("1000", 1000)):
        if x > lim:
            return ">" + name
    return None


def build_mesh(case, V=None):
    """-> (mesh, integer-typed coordinates?). Depending on the case the mesh is built from Python lists (vlib.build) or from
    numpy arrays (from_arrays) with the drawn dtypes for coordinates (float64 / float32 / int64) and index rows"""
    import numpy as np
    import mouette as M
    from mouette.mesh.mesh_data import RawMeshData
    V = case["V"] if V is None else V
    n = len(V)
    # integer-typed coordinates: magnitudes whose squares stay far from the int64 range (larger integer coordinates overflow
    # in any integer arithmetic: outside the domain)
    intc = bool(case.get("intcoords")) and all(float(x).is_integer() and abs(x) < 2 ** 24 for v in V for x in v)
    f32 = case.get("coordtype") == "float32" and all(float(np.float32(x)) == x for v in V for x in v)
    cdt = np.int64 if intc else np.float32 if f32 else np.float64
    rowform = case.get("rowform", "list")
    rows = case["E"] if case["kind"] == "polyline" else case["F"] if case["kind"] == "surface" else case["C"]
    if rowform != "list" and rows and len(set(len(r) for r in rows)) == 1:
        rdt = {"np-int64": np.int64, "np-int32": np.int32, "np-int16": np.int16 if n < 2 ** 15 else np.int32,
               "np-uint8": np.uint8 if n <= 255 else np.int32}[rowform]
        Va = np.array(V, dtype=cdt).reshape(-1, 3)
        R = np.array(rows, dtype=rdt)
        kw = {"E": R} if case["kind"] == "polyline" else {"F": R} if case["kind"] == "surface" else {"C": R}
        return M.mesh.from_arrays(Va, **kw), intc
    if intc or f32:
        raw = RawMeshData()
        raw.vertices += [np.array(v, dtype=cdt) for v in V]
        if case["kind"] == "polyline":
            raw.edges += [tuple(e) for e in case["E"]]
            return M.mesh.PolyLine(raw), intc
        if case["kind"] == "surface":
            raw.faces += [list(f) for f in case["F"]]
            return M.mesh.SurfaceMesh(raw), intc
        raw.cells += [list(c) for c in case["C"]]
        return M.mesh.VolumeMesh(raw), intc
    if case["kind"] == "polyline":
        return polyline_from(V, case["E"]), False
    if case["kind"] == "surface":
        return surface_from(V, case["F"]), False
    return volume_from(V, case["C"]), False


def close_w(got, exp, wmax):
    """path weight vs reference minimum, 1e-9 relative to the scale of the quantities involved"""
    scale = max(abs(exp), wmax)
    if scale == 0.0:
        return got == 0.0
    return abs(got - exp) <= TOL[0] * scale


def check_lazy(ctx, cond, sig, msg):
    """ctx.check whose message (a callable) is only rendered on failure (a query may have > 10**5 targets, each with its path)"""
    return ctx.check(True, sig, "") if cond else ctx.check(False, sig, msg())


def check_path(ctx, sig, what, path, start, end, wedges, dref, wmax):
    """path is a list of vertex ids from start to end along edges with total weight dref. Returns weight or None."""
    if not check_lazy(ctx, isinstance(path, (list, tuple)) and len(path) >= 1 and all(is_intlike(v) for v in path), sig + ":shape",
                      lambda: f"{what}: path is not a non-empty list of vertex ids: {abbr(path) if isinstance(path, (list, tuple)) else repr(path)[:300]}"):
        return None
    path = [int(v) for v in path]
    if not check_lazy(ctx, path[0] == start, sig + ":start", lambda: f"{what}: path {abbr(path)} does not begin at start {start}"):
        return None
    if end is not None:
        if not check_lazy(ctx, path[-1] == end, sig + ":end", lambda: f"{what}: path {abbr(path)} does not end at target {end}"):
            return None
    if isinstance(wedges, dict):             # prepared {(a, b): weight}, a < b
        ws, bad = [], None
        for u, v in zip(path, path[1:]):
            k = (u, v) if u < v else (v, u)
            if u == v or k not in wedges:
                bad = (u, v)
                break
            ws.append(wedges[k])
        w = math.fsum(ws)
    else:
        w, bad = RG.walk_weight(wedges, path)
    if not check_lazy(ctx, bad is None, sig + ":edge", lambda: f"{what}: step {bad} of path {abbr(path)} is not an edge of the mesh"):
        return None
    if check_lazy(ctx, close_w(w, dref, wmax), sig + ":minimal",
                  lambda: f"{what}: path {abbr(path)} has weight {w!r}, minimum over all edge paths from {start} to {path[-1]} is {dref!r}"):
        b = size_bucket(len(path))
        if b:
            ctx.label("shortest-path-vertices" + b)
    return w


def check_polyline(ctx, sig, pm, paths, V, start):
    """the exported polyline draws exactly the returned paths (as one chain per path or as their union)"""
    import mouette as M
    if not ctx.check(isinstance(pm, M.mesh.PolyLine), sig + ":type", f"exported path mesh is {type(pm).__name__}, not a PolyLine"):
        return
    try:
        PV = [tuple(map(float, v)) for v in pm.vertices]
        PE = [tuple(map(int, e)) for e in pm.edges]
    except Exception as e:
        ctx.fail(sig + ":type", f"exported polyline has unreadable vertices/edges: {e!r}")
        return
    if not ctx.check(all(len(p) == 3 for p in PV) and all(len(e) == 2 and e[0] != e[1] and 0 <= min(e) and max(e) < len(PV) for e in PE),
                     sig + ":index", f"exported polyline has malformed vertices or edge indices: {len(PV)} vertices, edges {abbr(PE, 8)}"):
        return
    co = lambda v: tuple(V[v])                  # (V = Env.V: lists of Python floats)
    seg = lambda x, y: (x, y) if x <= y else (y, x)          # an unordered pair of points
    cpaths = [[co(v) for v in p] for p in paths]
    exp_steps = set(seg(x, y) for c in cpaths for x, y in zip(c, c[1:]))
    got_steps = set(seg(PV[a], PV[b]) for a, b in PE)
    exp_pts = set(x for c in cpaths for x in c)
    n_entries = sum(len(p) for p in paths)
    n_steps = sum(len(p) - 1 for p in paths)
    desc = f"paths {abbr([abbr(p, 5) for p in paths], 3)}; polyline has {len(PV)} vertices and edges {abbr(PE, 8)}"
    if not ctx.check(set(PV) == exp_pts, sig + ":coords", f"polyline vertex coordinates are not those of the path vertices. {desc}"):
        return
    if not ctx.check(got_steps == exp_steps, sig + ":edges",
                     f"polyline edges do not join consecutive path vertices: "
                     f"{len(got_steps - exp_steps)} segment(s) that are no path step, {len(exp_steps - got_steps)} path step(s) missing. {desc}"):
        return
    ctx.check(len(PV) <= n_entries and len(PE) <= n_steps, sig + ":count",
              f"polyline has more vertices/edges than the paths have entries/steps ({n_entries}/{n_steps}). {desc}")
    used = set(x for e in PE for x in e)
    iso = [i for i in range(len(PV)) if i not in used]
    ok_iso = all(PV[i] == co(start) for i in iso) and (not iso or any(len(p) == 1 for p in paths))
    ctx.check(ok_iso, sig + ":edges", f"polyline vertices {abbr(iso)} belong to no edge although they are not a one-vertex path. {desc}")


class Env:
    """one mesh object + the harness's model of it (coordinates, custom weight tables, the weight argument objects)"""

    def __init__(self, case, ctx, variant=0):
        self.case, self.ctx = case, ctx
        self.kind = case["kind"]
        self.V = [[float(x) for x in v] for v in (case["Vb"] if variant else case["V"])]
        self.n = len(self.V)
        self.E = ref_edges(case)
        self.lab = RG.component_labels(self.n, self.E)
        self.adj = RG.adjacency_lists(self.n, self.E)
        self.tabs = [list(map(float, t)) for t in (case["Wt"] if "Wt" in case else [case["W"]])]
        self.tabmap = [1, 0] if (variant and len(self.tabs) == 2) else list(range(len(self.tabs)))   # the second object swaps the tables
        self.tabs = [self.tabs[i] for i in self.tabmap]
        # weights handed over as fixed-width numpy scalars: the tables hold exactly the values such a scalar can carry
        self.dvtype = case.get("dvtype")
        self.tabmax = [max(t + [0.0]) for t in self.tabs]
        if self.dvtype in NARROW or self.dvtype == "float32":
            self.tabs = [[self.tabval(i, w) for w in t] for i, t in enumerate(self.tabs)]
        self.mesh, self.int_coords = build_mesh(case, self.V)
        try:
            self.medges = [ekey(e) for e in self.mesh.edges]
        except Exception as e:
            raise AssertionError(f"cannot read mesh.edges: {e!r}")
        self.ok = ctx.check(sorted(self.medges) == self.E, "pre:edge-container",
                            f"mesh.edges is not the 1-skeleton of the input ({len(self.medges)} edges vs {len(self.E)} expected)")
        self.kidx = {k: i for i, k in enumerate(self.E)}           # edge key -> index in the weight tables
        self.wargs = {}                                            # (wtab, wmode) -> the argument object, reused between calls
        self.bv = sorted(SurfRef(self.n, case["F"]).border_vertices()) if self.kind == "surface" else []
        self.cfg = self.read_cfg()
        self.moved = False                                         # coordinates re-assigned (as float64 Vec) since construction
        self.history = []                                          # (wclass, kind of query, target members) of earlier queries
        self.nfaces = len(self.mesh.faces) if self.kind == "surface" else None
        self._bridges = None

    def two_paths(self, s, targets):
        """is some t of targets joined to s by >= 2 distinct simple paths? (the rule's notion of a non-trivial query)"""
        if self.n <= BIG:
            return any(RG.has_two_simple_paths(self.n, self.E, s, t) for t in targets)
        if self._bridges is None:
            self._bridges = bridges_of(self.n, self.adj)
        return any(two_simple_paths_fast(self.n, self.adj, self._bridges, s, targets).values())

    # ---- weights
    def tabval(self, tab, w):
        """the value stored in table `tab` for a drawn weight w"""
        import numpy as np
        if self.dvtype in NARROW:
            hi, mx = NARROW[self.dvtype], self.tabmax[tab]
            return float(min(hi, int(round(w / mx * hi)))) if mx > 0 else 0.0
        if self.dvtype == "float32":
            return float(np.float32(w))
        return float(w)

    def scalar(self, tab, w):
        """the object put into a weight dict for table value w"""
        import numpy as np
        if self.dvtype in NARROW:
            return getattr(np, self.dvtype)(int(w))
        if self.dvtype in ("float32", "float64"):
            return getattr(np, self.dvtype)(w)
        if self.intdict(tab) and float(w).is_integer():
            return int(w)
        return float(w)

    def wvalue(self, tab, k):
        return self.tabs[tab][self.kidx[k]]

    def intdict(self, tab):
        return bool(self.case.get("intvals")) and all(float(w).is_integer() and abs(w) < 2 ** 50 for w in self.tabs[tab])

    def weight_arg(self, wmode, tab):
        """the object passed as `weights` (None = argument omitted); the same object is handed to every call that uses
        the same table and mode"""
        if wmode == "omitted":
            return None
        if wmode in ("one", "length"):
            return wmode
        if (tab, wmode) in self.wargs:
            return self.wargs[(tab, wmode)]
        if wmode == "dict":
            arg = {i: self.scalar(tab, self.wvalue(tab, k)) for i, k in enumerate(self.medges)}
            self.ctx.label("dict-values=" + (self.dvtype or ("int" if self.intdict(tab) else "float")))
            items = list(arg.items())
            random.shuffle(items)             # insertion order of the caller's dict is arbitrary (seeded from the case by the runner)
            arg = dict(items)
        elif wmode == "attr_default":
            # sparse attribute with a non-zero default: only the entries that differ from the most frequent weight are written
            vals = [self.wvalue(tab, k) for k in self.medges]
            cnt = {}
            for x in vals:
                cnt[x] = cnt.get(x, 0) + 1
            top = max(cnt.values()) if vals else 0
            dflt = min(x for x in cnt if cnt[x] == top) if vals else 1.0      # the smallest of the most frequent values
            arg = self.mesh.edges.create_attribute(f"c09_w{tab}_{wmode}", float, dense=False, default_value=float(dflt))
            for i, k in enumerate(self.medges):
                if self.wvalue(tab, k) != dflt:
                    arg[i] = float(self.wvalue(tab, k))
            if vals and top == len(vals):
                self.ctx.label("sparse-attribute-with-no-value-written(default=%s)" % ("0" if dflt == 0 else "c"))
        else:
            arg = self.mesh.edges.create_attribute(f"c09_w{tab}_{wmode}", float, dense=(wmode == "attr_dense"))
            for i, k in enumerate(self.medges):
                if wmode == "attr_partial" and self.wvalue(tab, k) == 0.0:
                    continue          # left at the attribute's default value 0.0
                arg[i] = float(self.wvalue(tab, k))
        self.wargs[(tab, wmode)] = arg
        return arg

    def ref_weights(self, wmode, tab):
        wclass = weight_class(wmode, tab)
        if wclass == "one":
            return [(a, b, 1.0) for (a, b) in self.E]
        if wclass == "length":
            d3 = dist3 if self.n <= BIG else math.dist       # (math.dist: the same quantity to within an ulp, computed in C)
            V = self.V
            return [(a, b, d3(V[a], V[b])) for (a, b) in self.E]
        return [(a, b, w) for (a, b), w in zip(self.E, self.tabs[tab])]      # table entries are in the order of E (see kidx)

    # ---- edits between queries
    def set_vertices(self, updates):
        import mouette as M
        for i, p in updates:
            self.V[i] = [float(x) for x in p]
            self.mesh.vertices[i] = M.Vec(float(p[0]), float(p[1]), float(p[2]))
        self.int_coords = False
        self.moved = True

    def set_weights(self, tab, updates):
        updates = [(kk, self.tabval(tab, w)) for kk, w in updates]
        for kk, w in updates:
            self.tabs[tab][kk] = w
        for (t, wmode), arg in self.wargs.items():
            if t != tab:
                continue
            for kk, w in updates:
                i = self.medges.index(self.E[kk])
                arg[i] = self.scalar(tab, w) if wmode == "dict" else float(w)

    # ---- attributes a caller may legitimately keep on the mesh; none of them is an input of the queries
    def add_edge_length(self):
        import mouette as M
        M.attributes.edge_length(self.mesh)            # persistent edge attribute "length" holding the CURRENT lengths

    def add_decoys(self, which, seed):
        rnd = random.Random(seed)
        lmax = max([dist3(self.V[a], self.V[b]) for a, b in self.E] + [1.0])
        def fill(container, name, n, typ=float):
            if container.has_attribute(name):
                if name != "length":
                    return                   # an attribute of that name exists already (possibly the library's own): leave it
                a = container.get_attribute(name)
            else:
                a = container.create_attribute(name, typ, dense=rnd.random() < 0.5)
            for i in range(n):
                a[i] = rnd.uniform(0.0, 2.0 * lmax) if typ is float else typ(rnd.randrange(0, 5))
        fill(self.mesh.edges, "length", len(self.medges))
        if which == "many-names":
            for name in ("weight", "weights", "one", "distance", "cost"):
                fill(self.mesh.edges, name, len(self.medges))
            for name in ("distance", "dist"):
                fill(self.mesh.vertices, name, self.n)
            for name in ("visited", "parent", "path", "border", "target"):
                fill(self.mesh.vertices, name, self.n, int)

    def length_attr_state(self):
        """None: no edge attribute "length"; "fresh": it holds the current lengths; "stale": it holds something else"""
        try:
            if not self.mesh.edges.has_attribute("length"):
                return None
            a = self.mesh.edges.get_attribute("length")
            for i, k in enumerate(self.medges):
                d = dist3(self.V[k[0]], self.V[k[1]])
                if abs(float(a[i]) - d) > 1e-9 * max(d, 1e-300):
                    return "stale"
            return "fresh"
        except Exception as e:
            raise AssertionError(f"harness cannot read the length attribute: {e!r}")

    @staticmethod
    def read_cfg():
        import mouette as M
        return tuple(getattr(M.config, k) for k in ("sort_neighborhoods", "display_duplicate_attribute_warning",
                                                    "complete_edges_from_faces", "complete_faces_from_cells", "export_edges_in_obj"))

    # ---- nothing handed to the library may be changed by it
    def check_unchanged(self, sig, what):
        ctx = self.ctx
        ctx.check(self.read_cfg() == self.cfg, sig + ":config-changed", f"{what}: the call left mouette.config changed: {self.read_cfg()} (was {self.cfg})")
        try:
            if self.n <= BIG:
                mv = [[float(x) for x in v] for v in self.mesh.vertices]
                same_v = mv == self.V
            else:                    # the same comparison through numpy (hundreds of thousands of vertices)
                import numpy as np
                mv = np.array([v for v in self.mesh.vertices], dtype=float)
                same_v = mv.shape == (self.n, 3) and bool(np.array_equal(mv, np.array(self.V, dtype=float).reshape(-1, 3)))
            me = [ekey(e) for e in self.mesh.edges]
        except Exception as e:
            ctx.fail(sig + ":mesh-changed", f"{what}: mesh unreadable after the query: {e!r}")
            return False
        ok = ctx.check(same_v and me == self.medges and (self.nfaces is None or len(self.mesh.faces) == self.nfaces),
                       sig + ":mesh-changed", f"{what}: the query modified the mesh (vertices {len(mv)}/{self.n}, edges {len(me)}/{len(self.medges)})")
        for (tab, wmode), arg in self.wargs.items():
            if wmode == "dict":
                good = len(arg) == len(self.medges) and all(arg.get(i) == self.wvalue(tab, k) for i, k in enumerate(self.medges))
            else:
                good = all(float(arg[i]) == self.wvalue(tab, k) for i, k in enumerate(self.medges))
            ok = ctx.check(good, sig + ":weights-changed", f"{what}: the weights object ({wmode}, table {tab}) no longer holds the caller's values") and ok
        return ok


def make_ids(idform, tform, start, targets, n=0):
    """start / targets in the form handed to the library, and a snapshot function telling whether targets were modified"""
    import numpy as np
    dt = {"numpy": np.int64, "np-int32": np.int32, "np-uint16": np.uint16 if n < 2 ** 16 else np.int64,
          "np-uint8": np.uint8 if n <= 255 else np.int64}.get(idform)
    cv = (lambda x: dt(x)) if dt is not None else int
    s = cv(start)
    if tform == "int":
        targ = int(targets[0])                 # a scalar target is documented as `int`
    elif tform == "set":
        targ = set(cv(t) for t in targets)
    elif tform == "tuple":
        targ = tuple(cv(t) for t in targets)
    elif tform == "array":
        targ = np.array([int(t) for t in targets], dtype=dt or np.int64)
    elif tform == "iter":
        targ = iter([cv(t) for t in targets])          # a one-shot iterable
    else:
        targ = [cv(t) for t in targets]

    def unchanged():
        if tform in ("int", "iter"):
            return True
        if tform == "array":
            return isinstance(targ, np.ndarray) and [int(x) for x in targ] == [int(t) for t in targets]
        if tform == "set":
            return isinstance(targ, set) and sorted(int(x) for x in targ) == sorted(set(int(t) for t in targets))
        return type(targ) in (list, tuple) and [int(x) for x in targ] == [int(t) for t in targets]
    return s, targ, unchanged


def scramble(x, depth=0):
    """the caller owns what a query returned: overwrite it in place (later queries must not depend on it)"""
    import mouette as M
    if isinstance(x, dict):
        for v in list(x.values()):
            scramble(v, depth + 1)
        x.clear()
        x[-3] = [0]
    elif isinstance(x, list):
        x.reverse()
        x.append(-7)
        x[:] = x[::2]
    elif isinstance(x, tuple) and depth < 3:
        for v in x:
            scramble(v, depth + 1)
    elif isinstance(x, M.mesh.PolyLine):
        # rebinding entries of the polyline's own containers (never an in-place edit of a coordinate vector)
        for i in range(min(len(x.vertices), 3000)):
            x.vertices[i] = M.Vec(1e30, -1e30, 0.5)
        for i in range(min(len(x.edges), 3000)):
            x.edges[i] = (0, 0)


def run_query(env, q, ctx, where=""):
    out = []
    ok = _run_query(env, q, ctx, where, out)
    if ok and q.get("scramble"):
        ctx.label("hist:returned-objects-overwritten-by-caller")
        for x in out:
            scramble(x)
    return ok


def _run_query(env, q, ctx, where, out):
    """issue one query on env.mesh and validate the answer against the reference. Returns False if later queries of a
    history should not be judged any more."""
    from mouette.processing import paths as LP
    V, n, E, lab, mesh = env.V, env.n, env.E, env.lab, env.mesh
    entry = q["entry"]
    start = int(q["start"])
    targets = [int(t) for t in q["targets"]]
    wmode, export, tab = q["wmode"], q["export"], int(q.get("wtab", 0))
    idform = env.case.get("idform", "int")
    wclass = weight_class(wmode, tab)
    wc = wclass.rstrip("01")                   # one / length / custom (signatures do not depend on the table)
    warg = env.weight_arg(wmode, tab)
    wedges = env.ref_weights(wmode, tab)
    wmax = max([w for _, _, w in wedges] + [0.0])
    dist = ref_distances(n, wedges, start)
    wref = {(a, b): w for a, b, w in wedges}
    # 1e-9 everywhere, except where the caller's own data is single precision (float32 coordinates for 'length', float32
    # scalars in the weight dict): accumulating such data in single precision is legitimate, 1e-5 then
    TOL[0] = REL_TOL
    if (wc == "length" and env.case.get("coordtype") == "float32") or (wmode == "dict" and env.dvtype == "float32"):
        TOL[0] = 1e-5
        ctx.label("tolerance=1e-5(float32-input)")

    ctx.label("wmode=" + wmode, "export=" + str(export), "tform=" + q["tform"], "entry=" + entry)
    if wc == "custom":
        ctx.label("wkind=" + (env.case["wkinds"][tab] if "wkinds" in env.case else env.case["wkind"]))
    if any(w == 0.0 for _, _, w in wedges):
        ctx.label("has-zero-weight-edge")
    if wc == "length":
        st_len = env.length_attr_state()
        if st_len is not None:
            ctx.label("length-query-on-mesh-carrying-a-" + st_len + "-'length'-attribute")
    if wmax > 0:
        ctx.label("weight-magnitude=1e%+03d" % (3 * int(math.floor(math.log10(wmax) / 3.0))))
    if n <= 300 and E and (wc != "custom" or len(set(w for _, _, w in wedges)) == 1):
        # (evidence for the modes that can be mistaken for each other silently: 'one' / uniform caller weights / 'length')
        tg = [t for t in (targets if entry != "border" else env.bv) if lab[t] == lab[start]]
        for alt in ("one", "length"):
            if alt != wc and tg and differs_under(n, env.adj, wref, {(a, b): w for a, b, w in env.ref_weights(alt, 0)}, start, tg, dist):
                ctx.label(f"a-confusion-of-weights={wc}-with-{alt}-would-show")

    args, kwargs = [], {}
    if warg is not None:
        args.append(warg)
    if export != "omitted":
        if warg is None:
            kwargs["export_path_mesh"] = bool(export)
        else:
            args.append(bool(export))
    want_mesh = export is True

    def tie_at(t):
        nb = env.adj[t]
        return sum(1 for u in nb if close_w(dist[u] + wref[key(u, t)], dist[t], wmax)) >= 2

    def stale_winner(members, dmin):
        """a member of an earlier target set (same weight class) that is not requested now but at least as near"""
        old = set()
        for (wcl, ent, mem) in env.history:
            if wcl == wclass and ent in ("set", "border"):
                old |= mem
        return any(m not in members and dist[m] <= dmin for m in old)

    # =============================================================================== point to point
    if entry == "p2p":
        tform = q["tform"]
        s_arg, targ, targ_unchanged = make_ids(idform, tform, start, targets, n)
        tset = sorted(set(targets))
        assert all(lab[t] == lab[start] for t in tset), "generator: unreachable point-to-point target"
        ctx.label("ntargets=" + ("1" if len(tset) == 1 else "2-3" if len(tset) <= 3 else "4+"))
        if start in tset: ctx.label("start-among-targets")
        if len(targets) != len(tset): ctx.label("duplicate-targets")
        if any(t != start and tie_at(t) for t in tset): ctx.label("tie")
        b = size_bucket(len(tset))
        if b: ctx.label("targets" + b)
        ctx.nontrivial(env.two_paths(start, tset))
        sig = f"p2p/{wc}"
        what = f"{where}start {start}, targets {abbr(tset)} given as {tform}"
        ok, res = ctx.call(sig, LP.shortest_path, mesh, s_arg, targ, *args, **kwargs)
        env.history.append((wclass, "p2p", set(tset)))
        if not ok:
            return False
        out.append(res)
        ctx.check(targ_unchanged(), sig + ":targets-changed", f"{what}: the targets argument was modified by the call: {repr(targ)[:400]}")
        env.check_unchanged(sig, what)
        pm = None
        if want_mesh:
            if not ctx.check(isinstance(res, tuple) and len(res) == 2, sig + ":return", f"{what}: export_path_mesh=True must return (dict, PolyLine), got {type(res).__name__}"):
                return False
            res, pm = res
        if not ctx.check(isinstance(res, dict), sig + ":return", f"{what}: paths are returned as {type(res).__name__}, not dict"):
            return False
        keys = list(res.keys())
        if not ctx.check(all(is_intlike(k) for k in keys) and sorted(int(k) for k in keys) == tset, sig + ":keys",
                         f"{what}: result keys {abbr(keys)} are not the requested targets {abbr(tset)}"):
            return False
        paths = []
        for t in tset:
            w = check_path(ctx, sig, f"{what}, target {t}", res[t], start, t, wref, dist[t], wmax)
            if w is None:
                return False
            paths.append([int(v) for v in res[t]])
        if want_mesh:
            check_polyline(ctx, f"p2p-export/{'multi' if len(tset) > 1 else 'single'}", pm, paths, V, start)
        return True

    # =============================================================================== vertex set
    if entry == "set":
        tform = q["tform"]
        s_arg, targ, targ_unchanged = make_ids(idform, tform, start, targets, n)
        tset = sorted(set(targets))
        reach = [t for t in tset if lab[t] == lab[start]]
        assert reach, "generator: no reachable member"
        dmin = min(dist[t] for t in reach)
        ctx.label("ntargets=" + ("1" if len(targets) == 1 else "2-3" if len(tset) <= 3 else "4+"))
        if start in tset: ctx.label("start-in-set")
        if len(reach) < len(tset): ctx.label("unreachable-extra-members")
        if sum(1 for t in reach if close_w(dist[t], dmin, wmax)) >= 2: ctx.label("several-nearest-members")
        if any(t != start and tie_at(t) for t in reach): ctx.label("tie")
        if stale_winner(set(tset), dmin): ctx.label("hist:earlier-target-at-least-as-near(same-weights)")
        b = size_bucket(len(tset))
        if b: ctx.label("targets" + b)
        ctx.nontrivial(env.two_paths(start, reach))
        sig = f"set/{wc}/{'single' if len(targets) == 1 else 'multi'}"
        what = f"{where}start {start}, set {abbr(tset)} given as {tform}"
        ok, res = ctx.call(sig, LP.shortest_path_to_vertex_set, mesh, s_arg, targ, *args, **kwargs)
        env.history.append((wclass, "set", set(tset)))
        if not ok:
            return False
        out.append(res)
        ctx.check(targ_unchanged(), sig + ":targets-changed", f"{what}: the targets argument was modified by the call: {repr(targ)[:400]}")
        env.check_unchanged(sig, what)
        nret = 3 if want_mesh else 2
        if not ctx.check(isinstance(res, tuple) and len(res) == nret, sig + ":return",
                         f"{what}: expected a {nret}-tuple (index, path{', PolyLine' if want_mesh else ''}), got {res!r}"[:400]):
            return False
        ind, path = res[0], res[1]
        if not ctx.check(is_intlike(ind) and int(ind) in tset, sig + ":member", f"{what}: returned index {ind!r} is not a member of the target set"):
            return False
        ind = int(ind)
        if not ctx.check(close_w(dist[ind], dmin, wmax), sig + ":nearest",
                         f"{what}: returned member {ind} is at distance {dist[ind]!r} from {start}, but the nearest member is at {dmin!r} "
                         f"(distances {abbr([(t, dist[t]) for t in tset], 6)})"):
            return False
        w = check_path(ctx, sig, f"{what}, returned member {ind}", path, start, ind, wref, dist[ind], wmax)
        if w is None:
            return False
        if want_mesh:
            check_polyline(ctx, "set-export", res[2], [[int(v) for v in path]], V, start)
        return True

    # =============================================================================== border
    if entry == "border":
        bv = env.bv
        sig = f"border/{wc}"
        what = f"{where}start {start}, border"
        s_arg = make_ids(idform, "list", start, [], n)[0]
        if not bv:
            ctx.label("closed->documented-exception")
            try:
                r = LP.shortest_path_to_border(mesh, s_arg, *args, **kwargs)
            except Exception as e:
                ctx.check("border" in str(e).lower(), sig + ":closed", f"closed surface: expected the documented 'Mesh has no border' exception, got {e!r}")
                return True
            ctx.fail(sig + ":closed", f"closed surface: shortest_path_to_border returned {r!r} instead of raising")
            return False
        reach = [t for t in bv if lab[t] == lab[start]]
        if not reach:
            ctx.label("start-component-closed(skipped)")
            ctx.discard("border: start's component has no border")
            return True
        dmin = min(dist[t] for t in reach)
        if start in bv: ctx.label("start-on-border")
        if len(reach) < len(bv): ctx.label("border-in-other-components")
        if sum(1 for t in reach if close_w(dist[t], dmin, wmax)) >= 2: ctx.label("several-nearest-members")
        hops = RG.bfs_hops(n, E, start)
        ctx.label("border-distance-hops=" + str(min(3, min(hops[t] for t in reach))))
        nearest = [t for t in reach if close_w(dist[t], dmin, wmax)]
        if min(hops[t] for t in nearest) > min(hops[t] for t in reach):
            ctx.label("nearest-border-vertex-is-not-nearest-in-hops")
        if stale_winner(set(bv), dmin): ctx.label("hist:earlier-target-at-least-as-near(same-weights)")
        ctx.nontrivial(env.two_paths(start, nearest))
        ok, res = ctx.call(sig, LP.shortest_path_to_border, mesh, s_arg, *args, **kwargs)
        env.history.append((wclass, "border", set(bv)))
        if not ok:
            return False
        out.append(res)
        env.check_unchanged(sig, what)
        pm = None
        if want_mesh:
            if not ctx.check(isinstance(res, tuple) and len(res) == 2, sig + ":return", f"{what}: export_path_mesh=True must return (path, PolyLine), got {res!r}"[:400]):
                return False
            res, pm = res
        path = res
        if not ctx.check(isinstance(path, (list, tuple)) and len(path) >= 1 and all(is_intlike(v) for v in path), sig + ":shape",
                         f"{what}: path is not a non-empty list of vertex ids: {abbr(path) if isinstance(path, (list, tuple)) else repr(path)[:300]}"):
            return False
        end = int(path[-1])
        if not ctx.check(end in bv, sig + ":member", f"{what}: path {abbr(path)} does not end on the border {abbr(bv)}"):
            return False
        if not ctx.check(close_w(dist[end], dmin, wmax), sig + ":nearest",
                         f"{what}: path ends at border vertex {end} at distance {dist[end]!r}, the nearest border vertex is at {dmin!r}"):
            return False
        w = check_path(ctx, sig, what, path, start, end, wref, dist[end], wmax)
        if w is None:
            return False
        if want_mesh:
            check_polyline(ctx, "border-export", pm, [[int(v) for v in path]], V, start)
        return True
    raise AssertionError(entry)


def apply_cfg(case, ctx):
    """library-wide switches that must not matter for a query (set before the mesh is built; the runner restores them)"""
    import mouette as M
    cfg = case.get("cfg")
    if cfg:
        M.config.sort_neighborhoods = bool(cfg["sort"])
        M.config.display_duplicate_attribute_warning = bool(cfg["dupwarn"])
        ctx.label("config:sort_neighborhoods=" + str(bool(cfg["sort"])), "config:duplicate_attribute_warning=" + str(bool(cfg["dupwarn"])))


def run_bad(env, b, ctx):
    """a call with a faulty argument; whatever it does (normally: raise), the mesh, the config and the NEXT query must be fine"""
    from vlib.runner import Violation, HarnessError
    from mouette.processing import paths as LP
    kind = b["kind"]
    if kind == "partial-dict":
        drop = set(int(x) for x in b["drop"])
        w = {i: float(env.wvalue(0, k)) for i, k in enumerate(env.medges) if env.kidx[k] not in drop}
    elif kind == "bad-mode":
        w = "euclidean"
    else:
        w = "one"
    f = LP.shortest_path if b["entry"] == "p2p" else LP.shortest_path_to_vertex_set
    try:
        f(env.mesh, int(b["start"]), [int(t) for t in b["targets"]], w)
        outcome = "returned"
    except (Violation, HarnessError):
        raise
    except Exception:
        outcome = "raised"
    ctx.label(f"faulty-call:{kind}:{b['entry']}:{outcome}")
    env.check_unchanged("after-faulty-call", f"after a {b['entry']} call with a faulty argument ({kind}) that {outcome}")
    return outcome


def label_mesh(case, env, ctx):
    for t in case.get("tags", []):
        if t.startswith(("base=", "shape=", "comps=", "closed", "bordered", "second-component", "isolated", "coords=", "scale=", "offset/size=", "large", "long", "stretched")):
            ctx.label(t)
    ctx.label("kind=" + case["kind"], "ids=" + case.get("idform", "int"), "rows=" + case.get("rowform", "list"),
              "coords=" + ("int64" if env.int_coords else case.get("coordtype", "float64")))
    if env.int_coords:
        ctx.label("integer-typed-coordinates")


def apply_decoy(case, env, ctx):
    """state a caller may have put on the mesh before the query (never an input of the query)"""
    d = case.get("decoy")
    if not d:
        return
    ctx.label("pre=" + d)
    if d == "edge_length-then-moved":
        env.add_edge_length()
        ax = case.get("aniso", [1.0, 3.0, 0.25])
        env.set_vertices([[i, [v[c] * ax[c] for c in range(3)]] for i, v in enumerate(env.V)])
    else:
        env.add_decoys(d, len(env.V) + 17 * len(env.E))


def fn(case, ctx):
    """one query on a fresh mesh"""
    apply_cfg(case, ctx)
    env = Env(case, ctx)
    if not env.ok:
        return
    label_mesh(case, env, ctx)
    apply_decoy(case, env, ctx)
    where = ""
    if case.get("prebad"):
        where = f"(after a call with a faulty argument that {run_bad(env, case['prebad'], ctx)}) "
    run_query(env, case, ctx, where)


def fn_history(case, ctx):
    """several queries, interleaved with in-place edits of coordinates / custom weights / attributes, on ONE mesh object
    (optionally alternating with a second independent object of the same connectivity)"""
    apply_cfg(case, ctx)
    envs = [Env(case, ctx)]
    if not envs[0].ok:
        return
    label_mesh(case, envs[0], ctx)
    apply_decoy(case, envs[0], ctx)
    if "Vb" in case:
        envs.append(Env(case, ctx, variant=1))
        ctx.label("hist:two-independent-mesh-objects-interleaved")
        if not envs[1].ok:
            return
    steps = case["steps"]
    queries = [s for s in steps if "entry" in s]
    ctx.label("queries=" + str(len(queries)))
    seen = [[], []]
    k = 0
    after_bad = None
    for s in steps:
        m = int(s.get("m", 0))
        env = envs[m]
        op = s.get("op")
        if op == "setV":
            env.set_vertices(s["updates"])
            ctx.label("hist:geometry-edited-between-queries")
            continue
        if op == "setW":
            env.set_weights(int(s["wtab"]), s["updates"])
            ctx.label("hist:custom-weights-edited-between-queries")
            continue
        if op == "edge_length":
            env.add_edge_length()
            ctx.label("hist:attributes.edge_length-called-between-queries")
            continue
        if op == "decoy":
            env.add_decoys("many-names", int(s["seed"]))
            ctx.label("hist:unrelated-attributes-added-between-queries")
            continue
        if op == "bad":
            after_bad = run_bad(env, s, ctx)
            continue
        k += 1
        wcl = weight_class(s["wmode"], int(s.get("wtab", 0)))
        for (e0, w0, st0, tg0) in seen[m]:
            if w0 == wcl and e0 in ("set", "border") and s["entry"] in ("set", "border"):
                ctx.label("hist:set/border-query-repeated-with-same-weights")
                if (e0, tg0) != (s["entry"], sorted(set(s["targets"]))):
                    ctx.label("hist:...-and-a-different-target-set")
            if w0 == wcl and e0 == "p2p" and s["entry"] == "p2p":
                ctx.label("hist:p2p-repeated-with-same-weights")
            if w0 != wcl:
                ctx.label("hist:weight-mode-switched")
            if st0 == s["start"]:
                ctx.label("hist:same-start-again")
        seen[m].append((s["entry"], wcl, s["start"], sorted(set(s["targets"]))))
        prev = [("B:" if x.get("m") else "") + x["entry"] for x in queries[:k - 1]]
        which = "the second mesh object" if m else "the same mesh"
        if after_bad:
            ctx.label("hist:query-right-after-a-faulty-call-that-" + after_bad)
            which += f", right after a call with a faulty argument that {after_bad}"
            after_bad = None
        if not run_query(env, s, ctx, where=f"query #{k} of {len(queries)} on {which} (earlier: {prev[-4:]}): "):
            return


# ------------------------------------------------------------------------------------------------ size regime of the PATH / of the TARGETS

# family -> sizes (see long_mesh; the first entry of each list is the one of the simplest example, which every run evaluates).
# A count above 2**17 is also above 1e5, 2**16 and 2**15; the smaller sizes are there because they are cheaper, not because they add a regime.
HUGE_SIZES = {"chain": [131100, 100010, 65600, 32800], "broom": [100010, 65600, 32800], "cycle": [65600, 32800],
              "strip": [32800, 11000], "tube": [11000, 3500], "tetchain": [32800, 11000]}
HUGE_FAMILIES = ["chain", "broom", "chain", "cycle", "chain", "strip", "tube", "tetchain"]
HUGE_SIZE_INDEX = [0, 3, 3, 2, 3, 3, 1, 3]


@st.composite
def huge_case(draw):
    """a RECIPE (realised by expand_huge inside fn_huge: the realised mesh has > 10**5 vertices and would be megabytes of JSON)"""
    fam = draw(st.sampled_from(HUGE_FAMILIES))
    idx = draw(st.sampled_from(HUGE_SIZE_INDEX))
    seed = draw(st.integers(0, 10 ** 6))
    if seed:
        # Hypothesis' early examples stay close to the simplest one; the family and the size of every other example are uniform picks
        r = random.Random(seed)
        fam, idx = r.choice(HUGE_FAMILIES), r.choice(HUGE_SIZE_INDEX)
    return {"recipe": "huge", "family": fam, "size": HUGE_SIZES[fam][min(idx, len(HUGE_SIZES[fam]) - 1)], "seed": seed}


def expand_huge(rc):
    """recipe -> a history case (mesh, two weight tables, representation choices, one query per entry point between the two
    extremities of the mesh); a deterministic function of the recipe"""
    rnd = random.Random(rc["seed"] * 7 + 3)
    fam, L = rc["family"], int(rc["size"])
    mesh, A, B = long_mesh(rnd, fam, L)
    case = dict(mesh)
    f = rnd.choice([1.0, 1.0, 1e-3, 1e3, 1e-6])
    if f != 1.0:
        case["V"] = [[x * f for x in v] for v in case["V"]]
    case["tags"] = list(case["tags"]) + ["scale=%g" % f, "offset/size=0"]
    E = ref_edges(case)
    nE = len(E)
    tabs, kinds = [], []
    for t in range(2):
        wk, ws = rnd.choice(WKINDS), rnd.choice([1.0, 1.0, 1.0, 1e-6, 1e6])
        if fam == "tetchain" and t == 0:
            # caller's weights that favour the spine (i, i+1): the unique shortest end-to-end path visits every vertex
            W = [{1: 1.0, 2: 2.5, 3: 4.0}[b - a] * rnd.uniform(1.0, 1.1) for a, b in E]
            wk = "spine"
        else:
            W = realise_weights(rnd, wk, nE)
        tabs.append([w * ws for w in W])
        kinds.append(wk + ("" if ws == 1.0 else "*%g" % ws))
    case["Wt"], case["wkinds"] = tabs, kinds
    case["intvals"] = rnd.random() < 0.5
    n = len(case["V"])
    case["idform"] = rnd.choice(["int", "int", "numpy", "np-int32"])
    case["rowform"] = rnd.choice(["list", "list", "np-int64", "np-int32"])
    case["intcoords"] = False
    case["dvtype"] = rnd.choice([None, None, None, "float64", "int64", "int32", "uint16", "uint8"])
    case["cfg"] = {"sort": rnd.random() < 0.5, "dupwarn": rnd.random() < 0.5}
    case["decoy"] = None
    cap = list(A)
    if rnd.random() < 0.5:
        A, B = B, A                               # which extremity the queries start from
    if fam == "broom":
        hub_side, leaves = (A, B) if len(A) < len(B) else (B, A)
        starts = [hub_side[0], rnd.choice(leaves)]
        pool = leaves
    else:
        starts, pool = A, B
    steps = []

    def query(entry, targets, tforms):
        wmode = rnd.choice(WMODES)
        return {"entry": entry, "m": 0, "wmode": wmode, "wtab": rnd.randrange(2), "export": rnd.choice(["omitted", "omitted", "omitted", False, False, True]),
                "scramble": rnd.random() < 0.5, "start": rnd.choice(starts), "targets": targets, "tform": rnd.choice(tforms)}
    if fam == "broom":
        # very many targets: every leaf (and the handle) asked for in one point-to-point call / given as the vertex set
        k = rnd.choice([len(pool), len(pool), len(pool) - rnd.randrange(1, 50)])
        many = rnd.sample(pool, k)
        steps.append(query("p2p", many + [0] * (rnd.random() < 0.5), ["list", "set", "tuple", "array", "iter"]))
        many = rnd.sample(pool, k)
        steps.append(query("set", many, ["list", "set", "tuple", "array", "iter"]))
    else:
        steps.append(query("p2p", [rnd.choice(pool) for _ in range(rnd.choice([1, 1, 2]))], ["int", "list", "set", "tuple", "array", "iter"]))
        if steps[-1]["tform"] == "int":
            steps[-1]["targets"] = steps[-1]["targets"][:1]
        steps.append(query("set", rnd.sample(pool, min(len(pool), rnd.randint(2, 5))), ["list", "list", "set", "tuple", "array", "iter"]))
        steps.append(query("set", [rnd.choice(pool)], ["list", "set", "array"]))
        if fam == "tube":
            # the border query starts at the capped end, whatever end the others start from
            steps.append(query("border", [], ["border"]))
            steps[-1]["start"] = rnd.choice(cap)
    for q in steps:
        if q["tform"] == "set":
            q["targets"] = sorted(set(q["targets"]))
    rnd.shuffle(steps)
    case["steps"] = steps
    return case


def fn_huge(rc, ctx):
    """queries whose shortest path visits more than 2**15 .. 2**17 vertices (or that ask for that many targets): p2p, vertex set
    (several members / one member) and border on one mesh object, judged like any other history"""
    case = expand_huge(rc)
    ctx.label("huge:family=" + rc["family"], "huge:size=" + str(rc["size"]))
    fn_history(case, ctx)


def self_test():
    RG.self_test_c09()
    # the harness's own oracles on a hand-made instance
    wed = [(0, 1, 1.0), (1, 2, 1.0), (0, 2, 3.0)]
    assert RG.bellman_ford(3, wed, 0) == [0.0, 1.0, 2.0]
    assert close_w(2.0, 2.0 + 1e-12, 3.0) and not close_w(3.0, 2.0, 3.0) and close_w(0.0, 0.0, 0.0) and not close_w(1e-30, 0.0, 0.0)
    assert close_w(2e-6, 2e-6 * (1 + 1e-12), 3e-6) and not close_w(3e-6, 2e-6, 3e-6)
    # the O(E log V) reference algorithms used above BIG vertices against the plain ones
    rnd = random.Random(4711)
    for _ in range(200):
        n = rnd.randint(1, 9)
        E = [(j, i) for i in range(n) for j in range(i) if rnd.random() < rnd.choice([0.2, 0.5])]
        Wt = [(a, b, rnd.choice([0.0, 1.0, 1.0, 2.0, 0.5, rnd.uniform(0, 3)])) for a, b in E]
        s0 = rnd.randrange(n)
        assert dijkstra_ref(n, Wt, s0) == RG.bellman_ford(n, Wt, s0), (n, Wt, s0)
        adj = RG.adjacency_lists(n, E)
        br = bridges_of(n, adj)
        assert br == set(key(*e) for e in E if RG.is_bridge(n, E, e)), (n, E)
        fast = two_simple_paths_fast(n, adj, br, s0, list(range(n)))
        assert all(fast[t] == RG.has_two_simple_paths(n, E, s0, t) for t in range(n)), (n, E, s0)
    assert abbr(list(range(100)), 2) == "[0, 1, ... (100 entries) ..., 98, 99]" and size_bucket(999) is None and size_bucket(131073) == ">2^17"
    # the long families: the extremities are as far apart as documented
    for fam, L in (("chain", 40), ("cycle", 40), ("strip", 30), ("tube", 30), ("tetchain", 60)):
        mesh, A, B = long_mesh(random.Random(5), fam, L)
        E = ref_edges(mesh)
        h = RG.bfs_hops(len(mesh["V"]), E, A[0])
        assert all(x is not None for x in h) and h[B[0]] + 1 >= (L // 3 if fam == "tetchain" else L), (fam, h[B[0]])
        if fam == "tube":
            bv = set(SurfRef(len(mesh["V"]), mesh["F"]).border_vertices())
            assert bv == set(B) and len(RG.partition(len(mesh["V"]), E)) == 1


SUBCHECKS = [
    SubCheck("point_to_point", query_case("p2p"), fn, quick=1600, thorough=5000),
    SubCheck("vertex_set", query_case("set"), fn, quick=1300, thorough=4000),
    SubCheck("border", query_case("border"), fn, quick=800, thorough=2500),
    SubCheck("history", history_case(), fn_history, quick=1600, thorough=5000),
    # size regime of the path / of the targets: seconds per case, hence a budget of its own (quick: the simplest example + one other,
    # in one shard; thorough: two per shard)
    SubCheck("huge_paths", huge_case(), fn_huge, quick=1, thorough=2, watchdog=(240, 600)),
]

MATCHERS = {}
