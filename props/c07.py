"""C07 - geometric quantities match their textbook definitions, are invariant / covariant under rigid motion,
renumbering and uniform scaling; identities (angle sum, Gauss-Bonnet, constants through interpolation)."""
import copy, gc, math, os, pickle, random
import numpy as np
from hypothesis import strategies as st
from vlib.runner import SubCheck
from vlib import gen_surface as G
from vlib import gen_tets as GT
from vlib import ref_geometry as R
from vlib.topo import SurfRef, key
from vlib.build import surface_from, volume_from, ints

PROPERTY = "C07"
RULE = ("Well-shaped oriented manifold surfaces: (tri_surface) triangulations from gen_surface.well_shaped_trisurf (min angle >= 8 deg, "
        "closed bases incl. tori, bordered bases, 1-3 splits / flips / edge splits / deletions, jitter); (poly_surface) quad, mixed and "
        "polygon meshes whose faces are planar and strictly convex (grids, cylinders, cube, prisms, antiprisms, n-gons, fans + splits / "
        "merges / 1-3 splits / deletions, in-plane jitter or a drawn affine map); (tet_volume) conforming tetrahedral meshes from "
        "gen_tets (any cell orientation). Each case also carries a drawn rotation (quaternion), translation, scale factor, vertex / "
        "face (cell) permutation with per-face rotation, and a seed fixing the order of calls and the options. On the base mesh every "
        "listed function is called with all four (persistent, dense) combinations under distinct names, once with all defaults, with "
        "every weighting mode / zero_border value / early-stopping count n, in a shuffled order on ONE mesh object (so cached 'angles', "
        "'cotan', 'area', 'normals' attributes interact); every result is compared with vlib.ref_geometry. Three further fresh meshes "
        "(rigidly moved, scaled, renumbered - built with numpy, never through mouette.transform) are evaluated the same way with one "
        "drawn option combination per function and compared with the base results through the expected transformation law. The all-default "
        "call of every function is issued twice on the base mesh (second call finds the attribute registered by the first); the mesh "
        "(vertices, faces, cells) and every attribute passed as an argument must be unchanged afterwards; one case in five is snapped to an "
        "integer lattice and handed over with numpy-int64 / python-int coordinates. Further drawn per case: face / cell rows as list, tuple or "
        "numpy rows of dtype int64/int32/int16/uint8/uint32; a third of the translations 1e3..1e7 mesh sizes away from the origin "
        "(tolerances then follow the conditioning L/h); config.sort_neighborhoods on/off; one case in four additionally as numpy float32 "
        "coordinates (single precision tolerances); weight modes spelled lower / Capitalised / UPPER; an unknown weight mode (must raise) "
        "before the ordinary calls; early-stopping counts up to 2**53+1 and as numpy.int64; values given as numpy.float32 / python int; "
        "sparse inputs with a non-zero default, few entries written in decreasing order, some of them 0.0. Round 5: every other case the "
        "rigidly moved mesh is the SAME mesh object first built and measured (non-persistent calls) on the base coordinates and then moved "
        "in place (same buffers or new Vec objects); generation-1 garbage collections between the meshes of a case; a deepcopy / pickle copy "
        "of the measured base mesh is measured again; one case in six carries 1-3 isolated vertices (first / middle / last id; vertex "
        "normals then skipped); about one tri case in sixty is a strip with 253..257 faces (255..259 vertices, uint8 rows up to id 255); "
        "scale factors 1.000008 / 0.999997. nonconvex_face: 4..10 vertices incl. regular stars listed from a drawn vertex, notches "
        "optionally filled with triangles; face_area / total_area / mean_face_area must be exact whenever the vertex mean lies in the "
        "kernel (the recorded algorithm's reach), face_normals whenever the second listed corner is convex. "
        "(interpolation) every interpolate_/scatter_/average_ function x weight mode x scalar/vector x dense/sparse input and output on "
        "a constant and on a random attribute. (nonconvex_face) one planar simple polygon with 4-8 vertices, star-shaped, with at least "
        "one reflex corner (optionally with an out-of-plane neighbour triangle): face_area / face_normals / face_barycenter / total_area "
        "against the vector-area definitions, as generated, with the face's vertex list rotated, and rigidly moved. non-trivial = non-identity rotation, translation and scale, and the mesh is closed with "
        ">= 4 faces or has both border and interior vertices (surfaces) / has >= 2 cells (tets); distinct = distinct realised case. "
        "Round 6 - CALL SPELLING: every attribute call is spelled in one of the styles keyword / positional (documented order, defaults in "
        "between written out) / positional-full / keyword incl. mesh= / mixed (seeded positional prefix) / flags as numpy.bool_ / flags as "
        "0-1, drawn per call (label call-style=...); the all-default call is issued as f(mesh), with the documented defaults written out, or "
        "with a single option (persistent=True, name=<documented>, dense=False - the attribute under the documented name is then SPARSE "
        "for the calls that use it as a cache); mean_xxx: n omitted / None written out / positional / n= / mesh=, n=; n as numpy int32 / "
        "int64 / uint8 equal to the element count; global functions with mesh=. interpolation: weight omitted (documented default "
        "'uniform') / positional / weight=, attributes by their documented parameter names, mesh= too; input and output attributes "
        "that are objects of the caller's own (ArrayAttribute / Attribute not registered on the mesh, as in-repo callers pass); the "
        "constant 0.0 / int 0; the output attribute handed in must hold the returned values; after the calls the caller overwrites the "
        "input attribute (setitem and in place) and the last output must not follow. custom_fnormals additionally as a sparse attribute "
        "carrying (c, c, c) through its default value only (len() == 0), registered or not. HISTORY: a quarter of the non-persistent and "
        "all-default calls are issued twice before anything is read (both results checked); a third of the non-persistent results are "
        "overwritten by the caller after reading (must not reach the mesh or later results); three calls of other library functions "
        "(border / connectivity accessors, border_normals, face_near_border, cell_faces_on_boundary) are mixed into the call order. "
        "(thin_exact) two triangles over a common edge of length 1e6..1e9 with INTEGER coordinates (needle with a right angle, cap with "
        "the apex within 1e-6..1e-9 of pi, obtuse at an end, or well shaped and huge), flat or folded, times 2**k (k <= 10), signed axis "
        "permutation, integer translation up to 2**40: every quantity except the circumcentre against exact integer arithmetic "
        "(non-trivial = min angle <= 1e-5 or coordinates >= 1e9). (large_mesh) jittered, rotated grids sized just beyond 2**16 / 10**5 "
        "elements of one container - 66 976 triangles (100 830 edges), 66 008 edges, 66 564 vertices (quads, 264 196 corners), 66 654 "
        "tetrahedra - built inside the check from (kind, seed, rotation); a seeded choice of functions worth ~1.6 s (quick) / ~6 s (thorough) walking the oversized "
        "containers, mean_xxx with n around 2**16 / 10**5, against vectorised numpy definitions; two cases per quick run.")
ASSUMPTIONS = [
    "faces are planar (relative defect <= 1e-9) and strictly convex with corner angles in [10, 165] degrees (triangles: min angle 8 degrees); "
    "cells have |det| >= 1e-6; no isolated vertices",
    "scale factors in [1e-6, 1e6] (a third tiny <= 1e-3, a third huge >= 1e3), translations within [-20, 20]^3 or 1e3..1e7 away on the "
    "unit-size mesh; tolerances: homogeneous quantities of degree p: 1e-9 m + 1e-12 L m^((p-1)/p); dimensionless ones: "
    "1e-9 max(1,m) + 2e-14 (L/h) max(1,m)^2, with m the magnitude of the quantity, L of the coordinates, h the shortest edge",
    "config.display_duplicate_attribute_warning is drawn per case (defect C07-6 - accumulating functions added to the attribute "
    "create_attribute hands back under that switch - was fixed in /repo); complete_edges_from_faces / complete_faces_from_cells stay on (without them "
    "the meshes have no edges / faces to measure); float32 coordinates are held to single precision only",
    "the oracles for defects C07-4 (face_circumcenter on tiny triangles) and C07-5 (second interpolation into a used output attribute) are active: both were fixed in /repo (8e7d4c7, 966792b)",
    "persistent calls on one mesh use pairwise distinct attribute names (re-creating an existing name is C05's subject)",
    "vertex_normals(mode) is evaluated only on meshes where |sum w n| / sum w >= 0.05 at every vertex (well-defined direction; a folded "
    "vertex star whose normals cancel is a degenerate element)",
    "call spellings: parameter names, their order and defaults are the documented ones (signatures + docstrings of mouette.attributes); "
    "flags given as numpy.bool_ / 0 / 1 mean what bool() makes of them; n is a positive python / numpy integer (n = 0 is not called)",
    "thin_exact: coordinates are integers below 2**52 handed over as floats, so edge vectors are exact; tolerances (relative to each element) "
    "lengths / areas / means 1e-12; corner angles 1e-9 theta + 1e-13; cotangents 1e-9 |c| + 1e-13 c^2 (direct and via cached angles: both "
    "routes lose |c| ulps); cotan weights the sum of those; defects 1e-9; face normals 1e-9 + 1e-14 / (min angle); vertex normals 1e-8 + "
    "1e-13 / (min angle); the unchanged library stays >= 100x inside (C07_THIN_TOL_SCALE=0.01 passes); face_circumcenter is not "
    "evaluated there (its conditioning is that of the triangle); numpy-int coordinates are not used there (int64 products overflow)",
    "large_mesh: quads are planar (in-plane jitter) and convex; the mesh is described by parameters, not stored in the case; watchdog 150 s",
    "output attributes of the interpolation functions are created with the type's default value (zero); a non-zero default of an OUTPUT "
    "was finding F-C07-7 'output_default' (fixed in /repo), its oracle is on",
]

TOL = 1e-9

# Oracles that the library is known to break at the time of writing. Each has a proposed fix in scratch/fixes and a matcher below.
# They are OFF by default (so that the check is green on the tree without those fixes) and are switched on by naming them in the
# environment variable C07_PENDING (comma separated), or by flipping the default here once the fix is committed / the finding listed.
#   circumcenter_tiny : face_circumcenter on triangles with 2*area < 1e-10 (geometry.intersect_2lines2D tests |det| < 1e-12 on
#                       edge-sized direction vectors, so meshes with edge lengths <~ 1e-6 are reported 'parallel' -> AttributeError)
#   reused_output     : interpolate_faces_to_vertices / average_corners_to_* called a second time into the same output attribute
#                       accumulate instead of overwriting (area / angle / some uniform / sum modes), unlike interpolate_vertices_to_faces
#   recall_existing   : with mouette.config.display_duplicate_attribute_warning = True, create_attribute hands back the attribute that
#                       already carries the name, and degree / angle_defects / cotan_weights / face_area (>4 sides) accumulate on top of
#                       its old values (degree doubles on a second degree(mesh)).  While off, the switch is left at the library default.
#   output_default    : (round 6, OFF: /repo not fixed) an OUTPUT attribute created with a non-zero default value: the interpolate_/average_
#                       functions clear() it and then accumulate on top of what it reads, i.e. on top of the default - the constant 2.5
#                       comes back as (3*2.5 + 7)/3 from interpolate_vertices_to_faces into an output with default 7. Proposed fix:
#                       scratch/fixes/C07-r6-output-default.diff (+ .json, replay with C07_PENDING=output_default). While off, outputs are
#                       created with the type's default (0) only.
PENDING = {"circumcenter_tiny": True, "reused_output": True, "recall_existing": True, "output_default": True}    # output_default: finding F-C07-7, fixed in /repo (a58dafc)
for _k in os.environ.get("C07_PENDING", "").split(","):
    if _k.strip() in PENDING:
        PENDING[_k.strip()] = True

# --------------------------------------------------------------------------------------------- quantity tables
# qname -> (container key, kind).  containers: V vertices, E edges, C face corners, F faces, K cells, G global
KINDS = {
    "degree": ("V", "int"), "defect": ("V", "inv"), "defect0": ("V", "inv"),
    "vn_uniform": ("V", "dir"), "vn_area": ("V", "dir"), "vn_angle": ("V", "dir"),
    "length": ("E", "len"), "middle": ("E", "point"), "cotw": ("E", "inv"),
    "angles": ("C", "inv"), "cotan": ("C", "inv"),
    "area": ("F", "area"), "fnormal": ("F", "dir"), "fbary": ("F", "point"), "circum": ("F", "point"),
    "volume": ("K", "vol"), "cbary": ("K", "point"),
    "euler": ("G", "int"), "mean_len": ("G", "len"), "mean_area": ("G", "area"), "total_area": ("G", "area"),
    "mean_vol": ("G", "vol"), "bary": ("G", "point"),
}
POWER = {"inv": 0, "int": 0, "dir": 0, "len": 1, "point": 1, "area": 2, "vol": 3}

# (qname, function, container attribute of the mesh, element size, extra kwargs, documented default name or None, triangles only)
SURF_FUNCS = [
    ("degree", "degree", "vertices", 1, {}, "degree", False),
    ("defect", "angle_defects", "vertices", 1, {"zero_border": False}, "angleDefect", True),
    ("defect0", "angle_defects", "vertices", 1, {"zero_border": True}, None, True),
    ("vn_uniform", "vertex_normals", "vertices", 3, {"interpolation": "uniform"}, None, False),
    ("vn_area", "vertex_normals", "vertices", 3, {"interpolation": "area"}, "normals", False),
    ("vn_angle", "vertex_normals", "vertices", 3, {"interpolation": "angle"}, None, False),
    ("length", "edge_length", "edges", 1, {}, "length", False),
    ("middle", "edge_middle_point", "edges", 3, {}, "middle", False),
    ("cotw", "cotan_weights", "edges", 1, {}, "cotan_weight", True),
    ("angles", "corner_angles", "face_corners", 1, {}, "angles", False),
    ("cotan", "cotangent", "face_corners", 1, {}, "cotan", True),
    ("area", "face_area", "faces", 1, {}, "area", False),
    ("fnormal", "face_normals", "faces", 3, {}, "normals", False),
    ("fbary", "face_barycenter", "faces", 3, {}, "barycenter", False),
    ("circum", "face_circumcenter", "faces", 3, {}, "circumcenter", True),
]
TET_FUNCS = [
    ("degree", "degree", "vertices", 1, {}, "degree", False),
    ("length", "edge_length", "edges", 1, {}, "length", False),
    ("middle", "edge_middle_point", "edges", 3, {}, "middle", False),
    ("area", "face_area", "faces", 1, {}, "area", False),
    ("fbary", "face_barycenter", "faces", 3, {}, "barycenter", False),
    ("circum", "face_circumcenter", "faces", 3, {}, "circumcenter", False),
    ("volume", "cell_volume", "cells", 1, {}, "volume", False),
    ("cbary", "cell_barycenter", "cells", 3, {}, "barycenter", False),
]
CONT_OF = {"vertices": "V", "edges": "E", "face_corners": "C", "faces": "F", "cells": "K"}


# --------------------------------------------------------------------------------------------- small helpers

def int_form_of(V, seed):
    """integer-valued coordinates are handed to the library as integers two times out of three (numpy int64 rows / python ints)"""
    if not bool(np.all(V == np.round(V))) or float(np.max(np.abs(V))) > 2 ** 40:
        return None
    return (None, "numpy-int", "python-int")[seed % 3]


IDX_FORMS = ["list", "list", "tuple", "int64", "int32", "int16", "uint8", "uint32"]


def idx_form_of(seed, nV):
    """container of every face / cell row: python list, tuple, or a numpy row of a drawn integer dtype (narrow ones when ids fit)"""
    f = IDX_FORMS[(seed // 3) % len(IDX_FORMS)]
    if f == "uint8" and nV > 256:        # ids 0..255 fit
        f = "int32"
    return f


def idx_rows(rows, form):
    if form == "list":
        return [list(r) for r in rows]
    if form == "tuple":
        return [tuple(r) for r in rows]
    return [np.array(r, dtype=getattr(np, form)) for r in rows]


def build_mesh(V, F=None, C=None, int_form=None, idx_form="list", float32=False):
    import mouette as M
    from mouette.mesh.mesh_data import RawMeshData
    raw = RawMeshData()
    if float32:
        raw.vertices += [np.array(v, dtype=np.float32) for v in V]
    elif int_form == "numpy-int":
        raw.vertices += [np.array([int(x) for x in v], dtype=np.int64) for v in V]
    elif int_form == "python-int":
        raw.vertices += [[int(x) for x in v] for v in V]
    else:
        raw.vertices += [list(map(float, v)) for v in V]
    if C is None:
        raw.faces += idx_rows(F, idx_form)
        return M.mesh.SurfaceMesh(raw)
    raw.cells += idx_rows(C, idx_form)
    return M.mesh.VolumeMesh(raw)


def mesh_unchanged(ctx, mesh, V, where, F=None, C=None):
    """(b) the mesh handed to the attribute functions is an argument: its geometry and element lists must come back untouched"""
    cur = np.array([[float(x) for x in v] for v in mesh.vertices], dtype=float).reshape(-1, 3)
    ctx.check(cur.shape == V.shape and bool(np.array_equal(cur, V)), "mesh-modified:vertices", f"{where}: vertex coordinates changed during the attribute calls")
    if F is not None:
        ctx.check([ints(f) for f in mesh.faces] == [list(f) for f in F], "mesh-modified:faces", f"{where}: face list changed during the attribute calls")
    if C is not None:
        ctx.check([ints(c) for c in mesh.cells] == [list(c) for c in C], "mesh-modified:cells", f"{where}: cell list changed during the attribute calls")


def circumcenter_in_reach(ctx, V, tris, where):
    if PENDING["circumcenter_tiny"]:
        return True
    if 2 * float(np.min(R.face_areas(V, tris))) >= 1e-10:
        return True
    ctx.discard("face_circumcenter not evaluated: a triangle has 2*area < 1e-10 (absolute parallel-lines threshold; C07-4 pending)")
    return False


def premutated_mesh(ctx, Vold, V, rnd, fnames, where, F=None, C=None, idx_form="list"):
    """(same object, mutated in place) build the mesh on the coordinates Vold, measure it with NON-persistent calls only (nothing
    is registered on it, so nothing may legitimately be remembered), then overwrite every vertex in place with V"""
    import mouette as M
    mesh = build_mesh(Vold, F=F, C=C, idx_form=idx_form)
    for fname in fnames:
        ctx.call(fname + ":before-mutation", getattr(M.attributes, fname), mesh, persistent=False, dense=rnd.randrange(2) == 0)
    same_buffer = rnd.randrange(2) == 0
    for i in range(len(V)):
        if same_buffer:
            mesh.vertices[i][:] = V[i]             # the very same coordinate buffers, overwritten
        else:
            mesh.vertices[i] = M.Vec(np.array(V[i], dtype=float))
    ctx.label("mutated-in-place")
    return mesh


def copy_round_trip(ctx, mesh, specs, ref, sizes, L, rnd, where):
    """copy.deepcopy / pickle round trip of a mesh that carries cached attributes: the copy must measure the same"""
    import mouette as M
    how = ("deepcopy", "pickle")[rnd.randrange(2)]
    ok, m2 = ctx.call("copy:" + how, (copy.deepcopy if how == "deepcopy" else (lambda m: pickle.loads(pickle.dumps(m)))), mesh)
    if not ok:
        return
    ctx.label("copy=" + how)
    for spec in specs:
        q, fname, cname, dim, extra, dname, _ = spec
        if q not in ref:
            continue
        kw = {} if rnd.randrange(2) == 0 else {"persistent": False}
        ok, attr = ctx.call("copy:" + fname, getattr(M.attributes, fname), m2, **dict(extra, **kw))
        if ok:
            vals = read_attr(ctx, "copy:" + fname, attr, sizes[CONT_OF[cname]], dim, f"{where}: {fname} on a {how} copy of the mesh")
            if vals is not None:
                compare(ctx, "copy:" + fname, vals, ref[q], KINDS[q][1], L, f"{where}: {fname}(copy, {kw}) on a {how} copy of the measured mesh")


class Mag(float):
    """coordinate magnitude L of a mesh, carrying cond = L / (shortest edge): how many digits are lost when edge vectors are formed"""
    cond = 1.0


# tolerance constants: double precision; float32 coordinates (the library then computes in single precision)
PREC64 = {"rel": TOL, "cond": 2e-14, "L": 1e-12}
PREC32 = {"rel": 1e-4, "cond": 2e-6, "L": 1e-5}
PREC = dict(PREC64)


def coord_scale(V, E=None):
    L = Mag(max(1e-300, np.max(np.abs(V))))
    if E:
        h = float(np.min(R.edge_lengths(V, E)))
        L.cond = float(L) / h if h > 0 else float("inf")
    return L


def tol_of(kind, ref, L):
    """absolute tolerance for a quantity of the given kind with reference values `ref` on a mesh of coordinate magnitude L.
    Homogeneous quantities of degree p are products of p edge-sized factors each known to eps*L: rel*m + c*L*m^((p-1)/p).
    Dimensionless ones (angles, cotangents, unit vectors) lose log10(L/h) digits: rel*max(1,m) + c*cond*max(1,m)^2."""
    m = float(np.max(np.abs(ref))) if np.size(ref) else 0.0
    p = POWER[kind]
    if p == 0:
        mm = max(1.0, m)
        return PREC["rel"] * mm + PREC["cond"] * getattr(L, "cond", 1.0) * mm * mm
    return PREC["rel"] * m + PREC["L"] * float(L) * m ** ((p - 1.0) / p)


def fmt(x):
    a = np.asarray(x)
    if a.size > 12:
        return np.array2string(a.reshape(-1)[:12], precision=12) + "..."
    return np.array2string(a, precision=12)


def worst(a, b):
    """index and values of the largest deviation"""
    a = np.asarray(a, dtype=float); b = np.asarray(b, dtype=float)
    d = np.abs(a - b)
    d = np.where(np.isfinite(d), d, np.inf)
    if d.ndim > 1:
        d = d.max(axis=tuple(range(1, d.ndim)))
    i = int(np.argmax(d))
    return i, a[i], b[i], float(d[i])


def read_attr(ctx, sig, attr, n, dim, where):
    """values of an attribute object as an (n,) / (n,dim) float array, validating what the library returned"""
    if attr is None or not hasattr(attr, "__getitem__"):
        ctx.fail(sig + ":type", f"{where}: returned {type(attr).__name__}, not an attribute")
        return None

    def rd():
        return [np.asarray(attr[i], dtype=float).reshape(-1) for i in range(n)]
    ok, rows = ctx.call(sig + ":read", rd)
    if not ok:
        return None
    bad = [i for i, r in enumerate(rows) if r.size != dim]
    if bad:
        ctx.fail(sig + ":shape", f"{where}: element {bad[0]} has {rows[bad[0]].size} components, expected {dim}")
        return None
    out = np.array(rows, dtype=float).reshape(n, dim)
    return out[:, 0] if dim == 1 else out


def compare(ctx, sig, got, exp, kind, L, where, mask=None):
    """got ~ exp within the tolerance of `kind`; mask = boolean array of elements to compare"""
    got = np.asarray(got, dtype=float); exp = np.asarray(exp, dtype=float)
    if got.shape != exp.shape:
        return ctx.check(False, sig + ":shape", f"{where}: shape {got.shape}, expected {exp.shape}")
    got = np.atleast_1d(got); exp = np.atleast_1d(exp)
    if mask is not None:
        got = got[mask]; exp = exp[mask]
    if got.size == 0:
        return True
    t = tol_of(kind, exp, L)
    if kind == "int":
        good = bool(np.all(got == exp))
    else:
        good = bool(np.all(np.isfinite(got))) and float(np.max(np.abs(got - exp))) <= t
    if good:
        ctx.n_assert += 1
        return True
    i, g, e, d = worst(got, exp)
    return ctx.check(False, sig, f"{where}: element {i}: library {fmt(g)} vs expected {fmt(e)} (|diff| {d:.3e} > tol {t:.3e})")


class Variant:
    """how a fresh mesh was derived from the base one + the law mapping base values to the expected values on it"""

    def __init__(self, name, Rm=None, t=None, s=1.0, src=None):
        self.name = name
        self.R = np.eye(3) if Rm is None else Rm
        self.t = np.zeros(3) if t is None else t
        self.s = s
        self.src = src          # container key -> index array: new element j corresponds to base element src[j]

    def expect(self, qname, base):
        cont, kind = KINDS[qname]
        x = np.asarray(base, dtype=float)
        if self.src is not None and cont != "G":
            x = x[self.src[cont]]
        if kind == "point":
            return (self.s * x) @ self.R.T + self.t
        if kind == "dir":
            return x @ self.R.T
        return x * self.s ** POWER[kind]


# --------------------------------------------------------------------------------------------- evaluation of one mesh


# ---- how the caller spells the arguments (round 6). Documented parameter order after `mesh` and documented defaults, read from the
# signatures / docstrings of mouette.attributes; a call is one of the styles below, every style denotes the SAME call.
PARAM_ORDER = {"angle_defects": ["zero_border", "name", "persistent", "dense"],
               "vertex_normals": ["name", "persistent", "interpolation", "dense", "custom_fnormals"]}
PARAM_ORDER_DEFAULT = ["name", "persistent", "dense"]
PARAM_DEFAULTS = {"persistent": True, "dense": True, "zero_border": False, "interpolation": "area", "custom_fnormals": None}
DEFAULT_NAME = {"degree": "degree", "angle_defects": "angleDefect", "vertex_normals": "normals", "edge_length": "length",
                "edge_middle_point": "middle", "cotan_weights": "cotan_weight", "corner_angles": "angles", "cotangent": "cotan",
                "face_area": "area", "face_normals": "normals", "face_barycenter": "barycenter", "face_circumcenter": "circumcenter",
                "cell_volume": "volume", "cell_barycenter": "barycenter"}
CALL_STYLES = ["keyword", "keyword", "positional", "positional-full", "keyword-incl-mesh", "mixed", "flags=numpy.bool_", "flags=0/1"]
FLAG_PARAMS = ("persistent", "dense", "zero_border")


def spell_call(fname, mesh, kw, style, rnd):
    """(args, kwargs) spelling the call fname(mesh, **kw) in the given style. Parameters absent from kw are at their documented
    default: a positional spelling writes the documented default out for those that precede the last one given."""
    order = PARAM_ORDER.get(fname, PARAM_ORDER_DEFAULT)
    dflt = dict(PARAM_DEFAULTS, name=DEFAULT_NAME[fname])
    if style == "keyword":
        return (mesh,), dict(kw)
    if style == "keyword-incl-mesh":
        return (), dict(kw, mesh=mesh)
    if style in ("flags=numpy.bool_", "flags=0/1"):
        conv = np.bool_ if style == "flags=numpy.bool_" else int
        return (mesh,), {k: (conv(v) if k in FLAG_PARAMS and isinstance(v, bool) else v) for k, v in kw.items()}
    given = [i for i, p_ in enumerate(order) if p_ in kw]
    last = (len(order) - 1) if style == "positional-full" else (max(given) if given else -1)
    if style == "mixed":
        npos = rnd.randrange(last + 2)          # 0 .. last+1 leading parameters by position, the others by keyword
        args = [kw.get(p_, dflt[p_]) for p_ in order[:npos]]
        return (mesh,) + tuple(args), {k: v for k, v in kw.items() if k not in order[:npos]}
    return (mesh,) + tuple(kw.get(p_, dflt[p_]) for p_ in order[:last + 1]), {}


def show_call(fname, args, kwargs):
    def r(v):
        return "mesh" if hasattr(v, "vertices") else "<attribute>" if hasattr(v, "elemsize") else f"{type(v).__name__}({v!r})" if isinstance(v, (np.generic,)) else repr(v)
    return f"{fname}(" + ", ".join([r(a) for a in args] + [f"{k}={r(v)}" for k, v in kwargs.items()]) + ")"


def scribble(attr, n, dim, is_int):
    """the caller overwrites a result it owns (a non-persistent attribute): nothing on the mesh may change through it"""
    try:
        for i in range(n):
            attr[i] = (-7 if is_int else -7.25) if dim == 1 else [-7.25] * dim
    except Exception:
        pass


def other_library_calls(ctx, mesh, rnd, nV, surface=True):
    """(history) calls of the library that are NOT this property's subject, mixed into the shuffled call order: lazily computed border
    flags / connectivity, sibling attribute functions that register attributes of their own on the same containers. Whatever they
    return or raise is ignored here; the measured quantities that follow must not depend on them."""
    import mouette as M
    A = M.attributes
    v = rnd.randrange(max(1, nV))
    if surface:
        pool = [("is_triangular", lambda: mesh.is_triangular()), ("is_quad", lambda: mesh.is_quad()),
                ("boundary_vertices", lambda: (list(mesh.boundary_vertices), list(mesh.interior_vertices))),
                ("boundary_edges", lambda: (list(mesh.boundary_edges), list(mesh.interior_edges))),
                ("is_vertex_on_border", lambda: mesh.is_vertex_on_border(v)),
                ("vertex_to_faces", lambda: (mesh.connectivity.vertex_to_faces(v), mesh.connectivity.vertex_to_vertices(v))),
                ("face_to_faces", lambda: mesh.connectivity.face_to_faces(0)),
                ("border_normals", lambda: A.border_normals(mesh)), ("face_near_border", lambda: A.face_near_border(mesh)),
                ("border_normals[dense]", lambda: A.border_normals(mesh, dense=True)),
                ("face_near_border[dist=1]", lambda: A.face_near_border(mesh, 1, dense=True))]
    else:
        pool = [("is_tetrahedral", lambda: mesh.is_tetrahedral()),
                ("boundary_faces", lambda: (list(mesh.boundary_faces), list(mesh.interior_faces))),
                ("boundary_vertices", lambda: (list(mesh.boundary_vertices), list(mesh.interior_vertices))),
                ("boundary_edges", lambda: (list(mesh.boundary_edges), list(mesh.interior_edges))),
                ("is_vertex_on_border", lambda: mesh.is_vertex_on_border(v)),
                ("cell_faces_on_boundary", lambda: A.cell_faces_on_boundary(mesh)),
                ("cell_faces_on_boundary[dense]", lambda: A.cell_faces_on_boundary(mesh, dense=True)),
                ("vertex_to_cell", lambda: mesh.connectivity.vertex_to_cell(v)), ("cell_to_cell", lambda: mesh.connectivity.cell_to_cell(0))]
    rnd.shuffle(pool)
    res = []
    for nm, fn in pool[:3]:
        def run(call, out, hist, nm=nm, fn=fn):
            hist.append("(" + nm + ")")
            try:
                fn()
            except Exception:
                pass
        res.append(("glob", run))
    ctx.label("other-library-calls-in-between")
    return res


COMBOS = [(True, True), (True, False), (False, True), (False, False)]


def run_attribute_calls(ctx, mesh, funcs, ref, masks, sizes, L, rnd, where, full, extra_calls):
    """Calls every function of `funcs` (all four option combinations + the all-default call when `full`, else one drawn combination)
    in a shuffled order on the same mesh, checks values / registration, returns {qname: values of the first successful call}."""
    import mouette as M
    A = M.attributes
    calls = []
    uid = 0
    for spec in funcs:
        q = spec[0]
        if q not in ref:
            continue
        for (p, d) in (COMBOS if full else [COMBOS[rnd.randrange(4)]]):
            uid += 1
            calls.append(("attr", spec, p, d, f"c07_{q}_{uid}"))
        if full and spec[5] is not None:
            # twice: the second call finds the attribute of the first one registered under the same (default) name
            calls.append(("default", spec, True, True, spec[5]))
            calls.append(("default", spec, True, True, spec[5]))
    calls += extra_calls
    rnd.shuffle(calls)
    out = {}
    hist = []
    empty_name_used = set()
    for call in calls:
        if call[0] not in ("attr", "default"):
            call[1](call, out, hist)
            continue
        _, spec, p, d, name = call
        q, fname, cname, dim, extra, _, _ = spec
        f = getattr(A, fname)
        cont = getattr(mesh, cname)
        n = sizes[CONT_OF[cname]]
        kind = KINDS[q][1]
        if call[0] == "default":
            # the all-default call: nothing given / the documented defaults written out / only one option given at its default or
            # (dense) at the other value - the attribute then sits under the documented name as a SPARSE one for the calls that follow
            kw = ({}, {}, dict(extra, name=name, persistent=True, dense=True), {"persistent": True}, {"dense": False}, {"name": name})[rnd.randrange(6)]
            p, d = True, kw.get("dense", True)
            if kw.get("dense") is False:
                ctx.label("documented-name-attribute=sparse")
        else:
            if p and cname not in empty_name_used and rnd.randrange(10) == 0:
                # (falsy but legitimate) the empty string is a name like any other; at most one attribute per container carries it
                empty_name_used.add(cname)
                name = ""
                ctx.label("attribute-name=empty-string")
            kw = dict(extra, name=name, persistent=p, dense=d)
        style = CALL_STYLES[rnd.randrange(len(CALL_STYLES))]
        args, kwargs = spell_call(fname, mesh, kw, style, rnd)
        ctx.label("call-style=" + style)
        desc = show_call(fname, args, kwargs)
        w = f"{where}: {desc} [{style}] after {hist[-3:]}"
        hist.append(fname + ("[defaults]" if call[0] == "default" else f"[p={int(p)},d={int(d)}]"))
        sig = fname + ("" if not extra else ":" + ",".join(f"{k}={v}" for k, v in extra.items()))
        ok, attr = ctx.call(sig, f, *args, **kwargs)
        if not ok:
            continue
        # (same call twice before anything is read) non-persistent calls and all-default calls: the first result must survive the second call
        again = None
        if (not p or call[0] == "default") and rnd.randrange(4) == 0:
            ok_b, again = ctx.call(sig, f, *args, **kwargs)
            if not ok_b:
                continue
            ctx.label("called-twice-before-reading")
            hist.append(hist[-1])
        vals = read_attr(ctx, sig, attr, n, dim, w)
        if vals is None:
            continue
        compare(ctx, "ref:" + sig, vals, ref[q], kind, L, w, masks.get(q))
        if again is not None:
            v2 = read_attr(ctx, sig, again, n, dim, w + " [second of two calls issued before reading]")
            if v2 is not None:
                compare(ctx, "ref:" + sig, v2, ref[q], kind, L, w + " [second of two calls issued before reading]", masks.get(q))
        if q in out:
            compare(ctx, "variants:" + sig, vals, out[q], kind, L, w + " [vs. the first call of the same function]", masks.get(q))
        else:
            out[q] = vals
        # (d) registration under the given / documented name
        ok2, has = ctx.call(sig + ":has_attribute", cont.has_attribute, name)
        if not ok2:
            continue
        if p:
            if ctx.check(bool(has), "register:" + fname, f"{w}: persistent call did not register '{name}' on mesh.{cname}"):
                ok3, reg = ctx.call(sig + ":get_attribute", cont.get_attribute, name)
                if ok3 and reg is not attr and again is None:
                    rv = read_attr(ctx, sig, reg, n, dim, w + " [registered attribute]")
                    if rv is not None:
                        compare(ctx, "register:" + fname, rv, vals, kind, L, w + " [registered attribute vs returned one]")
        else:
            ctx.check(not has, "register:" + fname + ":non-persistent", f"{w}: non-persistent call registered '{name}' on mesh.{cname}")
            if rnd.randrange(3) == 0:
                # the caller owns a non-persistent result: overwriting it must not reach the mesh or any later result
                scribble(attr, n, dim, kind == "int")
                ctx.label("non-persistent-result-overwritten-by-caller")
    return out


def mean_calls(ctx, mesh, fname, qname, per_elem_ref, kind, L, rnd, where, full, tag):
    """extra calls for mean_xxx(mesh, n): n = None and early-stopping counts below, at and above the element count"""
    import mouette as M
    f = getattr(M.attributes, fname)
    N = len(per_elem_ref)
    ns = [None]
    if full:
        # below, at and above the element count; far above it (the bound is 'how many at most'); a numpy integer scalar
        ns += sorted({1, max(1, N // 2), N, N + 1 + rnd.randrange(5)}) + [(10 ** 6, 2 ** 53 + 1, 256 * N)[rnd.randrange(3)], np.int64(max(1, N - 1)),
                                                                          (np.int32, np.int64, np.uint8 if N < 255 else np.int32)[rnd.randrange(3)](N)]
    else:
        ns += [1 + rnd.randrange(N + 4)]
    res = []
    for n in ns:
        def run(call, out, hist, n=n):
            w = f"{where}: {fname}(mesh, n={n}) after {hist[-3:]}"
            hist.append(f"{fname}[n={n}]")
            # (spelling of the argument) omitted / positional / n= keyword / mesh= and n= keywords; None written out
            form = rnd.randrange(4)
            if n is None and form == 0:
                a_, k_ = (mesh,), {}
            elif form in (0, 1):
                a_, k_ = (mesh, n), {}
            elif form == 2:
                a_, k_ = (mesh,), {"n": n}
            else:
                a_, k_ = (), {"mesh": mesh, "n": n}
            w += " [called as " + show_call(fname, a_, k_) + "]"
            ok, v = ctx.call(fname, f, *a_, **k_)
            if not ok:
                return
            k = N if n is None else min(n, N)
            exp = float(np.mean(per_elem_ref[:k]))
            try:
                v = float(v)
            except Exception:
                ctx.fail(fname + ":type", f"{w}: returned {v!r}")
                return
            sig = "ref:" + fname + ("" if n is None else ":n<=N" if n <= N else ":n>N")
            good = compare(ctx, sig, [v], [exp], kind, L,
                           w + f" [mean of the first min(n, {N}) = {k} {tag}]")
            if n is None and good:
                out[qname] = np.array(v)
        res.append(("glob", run))
    return res


def evaluate_surface(ctx, V, F, rnd, where, full, int_form=None, idx_form="list", float32=False, premutate=None):
    """build a fresh SurfaceMesh from (V, F), run everything, compare with the reference. Returns (values, mesh edges) or None"""
    import mouette as M
    A = M.attributes
    if premutate is not None:
        names = ["face_area", "corner_angles", "edge_length", "face_normals", "face_barycenter", "edge_middle_point"]
        if all(len(f) == 3 for f in F):
            names += ["cotangent", "cotan_weights", "angle_defects", "face_circumcenter"]
        rnd.shuffle(names)
        mesh = premutated_mesh(ctx, premutate, V, rnd, names[:4], where, F=F, idx_form=idx_form)
    else:
        mesh = build_mesh(V, F=F, int_form=int_form, idx_form=idx_form, float32=float32)
    medges = [tuple(ints(e)) for e in mesh.edges]
    if not ctx.check(len(set(medges)) == len(medges) and set(medges) == R.edges_of_faces(F), "edges",
                     f"{where}: mesh.edges is not the set of face sides (low index first)"):
        return None
    if not ctx.check([ints(f) for f in mesh.faces] == [list(f) for f in F], "faces", f"{where}: mesh.faces differs from the input face list"):
        return None
    nV, nE, nF = len(V), len(medges), len(F)
    nC = sum(len(f) for f in F)
    tri = all(len(f) == 3 for f in F)
    L = coord_scale(V, medges)
    sizes = {"V": nV, "E": nE, "C": nC, "F": nF}
    ref = {
        "degree": R.vertex_degrees(nV, medges), "length": R.edge_lengths(V, medges), "middle": R.edge_midpoints(V, medges),
        "angles": R.corner_angles(V, F), "area": R.face_areas(V, F), "fnormal": R.face_normals(V, F), "fbary": R.face_barycenters(V, F),
    }
    masks = {}
    for mode in ("uniform", "area", "angle"):
        n, qual = R.vertex_normals(V, F, mode)
        if not np.all(qual >= 0.05):
            # the weighted normals around some vertex (nearly) cancel: no well-defined direction, the function is not called
            if len(set(v for f in F for v in f)) < nV:
                ctx.discard("vertex_normals not evaluated: the mesh has isolated vertices (no incident face to average)")
                continue
            ctx.discard(f"vertex_normals[{mode}] not evaluated: normal sum (nearly) cancels at a vertex of the {where.split(' ')[0]} mesh")
            continue
        ref["vn_" + mode] = n
    if tri:
        ref["defect"] = R.angle_defects(V, F, False); ref["defect0"] = R.angle_defects(V, F, True)
        ref["cotan"] = R.corner_cotangents(V, F); ref["cotw"] = R.cotan_edge_weights(V, F, medges)
        if circumcenter_in_reach(ctx, V, F, where):
            ref["circum"] = R.face_circumcenters(V, F)
    chi = R.euler_characteristic(nV, F)

    extra = []

    def glob(fname, qname, exp, kind):
        def run(call, out, hist):
            w = f"{where}: {fname}(mesh) after {hist[-3:]}"
            hist.append(fname)
            ok, v = ctx.call(fname, getattr(A, fname), mesh) if rnd.randrange(2) else ctx.call(fname, getattr(A, fname), mesh=mesh)
            if not ok:
                return
            try:
                v = np.asarray(v, dtype=float)
            except Exception:
                ctx.fail(fname + ":type", f"{w}: returned {v!r}")
                return
            if compare(ctx, "ref:" + fname, v, exp, kind, L, w):
                out[qname] = v
        return ("glob", run)

    extra.append(glob("euler_characteristic", "euler", np.array(float(chi)), "int"))
    extra.append(glob("total_area", "total_area", np.array(float(np.sum(ref["area"]))), "area"))
    extra.append(glob("barycenter", "bary", V.mean(axis=0), "point"))
    if full:       # total_area is also asked a second time (before / after an 'area' attribute exists)
        extra.append(glob("total_area", "total_area", np.array(float(np.sum(ref["area"]))), "area"))
    extra += mean_calls(ctx, mesh, "mean_edge_length", "mean_len", ref["length"], "len", L, rnd, where, full, "edges")
    extra += mean_calls(ctx, mesh, "mean_face_area", "mean_area", ref["area"], "area", L, rnd, where, full, "faces")

    # vertex_normals(custom_fnormals=...): the given face vectors are interpolated instead of the geometric normals
    def custom(call, out, hist):
        from mouette.mesh.mesh_attributes import Attribute, ArrayAttribute
        mode = ("uniform", "area", "angle")[rnd.randrange(3)]
        p, d = COMBOS[rnd.randrange(4)]
        how = rnd.randrange(4)
        if how == 0:
            # (falsy but legitimate) a sparse attribute that carries its value through its default only, no entry stored (len() == 0):
            # every face has the vector (c, c, c)
            c = (1.0, -2.5, 0.5)[rnd.randrange(3)]
            cn = np.full((nF, 3), c)
        else:
            Q = R.quat_to_matrix([0.5, 0.5, -0.5, 0.5])
            cn = ref["fnormal"] @ Q.T
        exp, qual = R.vertex_normals(V, F, mode, fnormals=cn)
        if not np.all(qual >= 0.05):
            return
        dense_in = rnd.randrange(2) == 0 and how != 0
        standalone = rnd.randrange(3) == 0      # an attribute object of the caller's, not registered on the mesh (as in-repo callers pass)
        if how == 0:
            cattr = Attribute(float, 3, default_value=c) if standalone else mesh.faces.create_attribute("c07_custom_normals", float, 3, dense=False, default_value=c)
            ctx.label("custom_fnormals=sparse,default-only,no-entry")
        else:
            if standalone:
                cattr = ArrayAttribute(float, nF, 3) if dense_in else Attribute(float, 3)
            else:
                cattr = mesh.faces.create_attribute("c07_custom_normals", float, 3, dense=dense_in)
            for k in range(nF):
                cattr[k] = cn[k]
        style = CALL_STYLES[rnd.randrange(len(CALL_STYLES))]
        args, kwargs = spell_call("vertex_normals", mesh, dict(name="c07_vn_custom", persistent=p, dense=d, interpolation=mode, custom_fnormals=cattr), style, rnd)
        w = (f"{where}: {show_call('vertex_normals', args, kwargs)} [{style}; custom_fnormals = "
             + ("a sparse attribute with default " + repr(c) + " and no stored entry" if how == 0 else "rotated face normals, " + ("dense" if dense_in else "sparse"))
             + (", not registered on the mesh" if standalone else "") + f"] after {hist[-3:]}")
        hist.append("vertex_normals[custom]")
        ok, attr = ctx.call("vertex_normals:custom", A.vertex_normals, *args, **kwargs)
        if ok:
            vals = read_attr(ctx, "vertex_normals:custom", attr, nV, 3, w)
            if vals is not None:
                compare(ctx, "ref:vertex_normals:custom", vals, exp, "dir", L, w, qual >= 0.05)
            back = read_attr(ctx, "vertex_normals:custom", cattr, nF, 3, w + " [custom_fnormals afterwards]")
            if back is not None:
                ctx.check(bool(np.array_equal(back, cn)), "input-modified:vertex_normals:custom_fnormals", f"{w}: the custom_fnormals attribute was modified")
    if full or rnd.randrange(3) == 0:
        extra.append(("glob", custom))

    # triangle-only functions on a mesh with a non-triangular face: the docstrings announce an exception, the listed property only
    # says that whatever is returned equals the definition. So: either the call raises (any exception type), or it returns values that
    # equal the definition extended to polygons - anything else (returning wrong numbers) is a violation.
    if not tri:
        def nontri_defects(call, out, hist):
            for zb in (False, True):
                hist.append(f"angle_defects[non-tri,zero_border={zb}]")
                try:
                    attr = A.angle_defects(mesh, zero_border=zb, persistent=False, dense=rnd.randrange(2) == 0)
                except Exception:
                    ctx.n_assert += 1
                    continue
                w = f"{where}: angle_defects(mesh, zero_border={zb}, persistent=False) returned on a mesh with a non-triangular face"
                vals = read_attr(ctx, "nontri:angle_defects", attr, nV, 1, w)
                if vals is not None:
                    compare(ctx, "nontri:angle_defects", vals, R.angle_defects(V, F, zb), "inv", L,
                            w + " [then it must be 2 pi (pi on the border, 0 with zero_border) minus the sum of the corner angles]")

        def nontri_cotangent(call, out, hist):
            hist.append("cotangent[non-tri]")
            try:
                attr = A.cotangent(mesh, persistent=False, dense=rnd.randrange(2) == 0)
            except Exception:
                ctx.n_assert += 1
                return
            w = f"{where}: cotangent(mesh, persistent=False) returned on a mesh with a non-triangular face"
            vals = read_attr(ctx, "nontri:cotangent", attr, nC, 1, w)
            if vals is not None:
                compare(ctx, "nontri:cotangent", vals, R.corner_cotangents(V, F), "inv", L, w + " [then it must be the cotangent of every corner angle]")

        def nontri_circumcenter(call, out, hist):
            hist.append("face_circumcenter[non-tri]")
            try:
                attr = A.face_circumcenter(mesh, persistent=False, dense=rnd.randrange(2) == 0)
            except Exception:
                ctx.n_assert += 1
                return
            w = f"{where}: face_circumcenter(mesh, persistent=False) returned on a mesh with a non-triangular face"
            vals = read_attr(ctx, "nontri:face_circumcenter", attr, nF, 3, w)
            if vals is None:
                return
            nrm = ref["fnormal"]
            for k, f in enumerate(F):
                P = V[list(f)]
                d = np.linalg.norm(P - vals[k], axis=1)
                diam = float(np.max(np.linalg.norm(P - P.mean(axis=0), axis=1)))
                off = abs(float(np.dot(vals[k] - P[0], nrm[k])))
                good = bool(np.all(np.isfinite(vals[k]))) and float(np.max(d) - np.min(d)) <= 1e-9 * max(float(np.max(d)), diam) + 1e-12 * float(L) \
                    and off <= 1e-9 * max(float(np.max(d)), diam) + 1e-12 * float(L)
                if not ctx.check(good, "nontri:face_circumcenter",
                                 f"{w}: the point {fmt(vals[k])} returned for the {len(f)}-gon {k} is not equidistant from its vertices in its plane "
                                 f"(distances {fmt(d)}, offset from the plane {off:.3e})"):
                    break
        extra += [("glob", nontri_defects), ("glob", nontri_cotangent), ("glob", nontri_circumcenter)]

    def bad_mode(call, out, hist):
        try:
            A.vertex_normals(mesh, persistent=False, interpolation="c07-no-such-mode")
        except Exception:
            ctx.n_assert += 1
            return
        ctx.fail("vertex_normals:bad-mode", f"{where}: unknown interpolation mode accepted (documented to raise)")
    if full:
        extra.append(("glob", bad_mode))

    extra += other_library_calls(ctx, mesh, rnd, nV, True)
    out = run_attribute_calls(ctx, mesh, SURF_FUNCS, ref, masks, sizes, L, rnd, where, full, extra)
    out["_masks"] = masks
    out["_L"] = L
    mesh_unchanged(ctx, mesh, V, where, F=F)
    if full and rnd.randrange(2) == 0:
        copy_round_trip(ctx, mesh, [sp for sp in SURF_FUNCS if sp[0] in ("area", "length", "angles", "degree", "cotw", "defect", "fnormal")],
                        ref, sizes, L, rnd, where)
    return out, medges, ref


def identities_surface(ctx, V, F, out, ref, where):
    """(c) identities between library values"""
    L = coord_scale(V)
    tri = all(len(f) == 3 for f in F)
    nV = len(V)
    chi = R.euler_characteristic(nV, F)
    bv = R.border_vertices(F)
    if tri and "angles" in out:
        s = out["angles"].reshape(-1, 3).sum(axis=1)
        i = int(np.argmax(np.abs(s - math.pi)))
        ctx.check(abs(s[i] - math.pi) <= 1e-9, "identity:angle-sum", f"{where}: corner angles of triangle {i} sum to {s[i]!r}, not pi")
    if "angles" in out and not tri:
        off = R.corner_offsets(F)
        for k, f in enumerate(F):
            s = float(np.sum(out["angles"][off[k]:off[k + 1]]))
            if not ctx.check(abs(s - (len(f) - 2) * math.pi) <= 1e-8, "identity:angle-sum",
                             f"{where}: corner angles of the planar convex {len(f)}-gon {k} sum to {s!r}, not {(len(f) - 2)} pi"):
                break
    if "defect" in out:
        s = float(np.sum(out["defect"]))
        ctx.check(abs(s - 2 * math.pi * chi) <= 1e-9 * max(1, nV), "identity:gauss-bonnet",
                  f"{where}: angle defects (border: pi - sum) sum to {s!r}, 2 pi chi = {2 * math.pi * chi!r} (chi={chi})")
    if "defect0" in out:
        d0 = out["defect0"]
        if not bv:
            s = float(np.sum(d0))
            ctx.check(abs(s - 2 * math.pi * chi) <= 1e-9 * max(1, nV), "identity:gauss-bonnet:zero_border",
                      f"{where}: closed surface, defects with zero_border=True sum to {s!r}, 2 pi chi = {2 * math.pi * chi!r}")
        else:
            b = sorted(bv)
            ctx.check(bool(np.all(d0[b] == 0)), "identity:zero_border", f"{where}: zero_border=True leaves a non-zero defect on a border vertex: {fmt(d0[b])}")
            if "defect" in out:
                inner = [v for v in range(nV) if v not in bv]
                ctx.check(bool(np.all(np.abs(d0[inner] - out["defect"][inner]) <= 1e-9)), "identity:zero_border",
                          f"{where}: zero_border changes the defect of interior vertices")
    if "cotan" in out and "angles" in out:
        e = 1.0 / np.tan(out["angles"])
        i, g, x, d = worst(out["cotan"], e)
        ctx.check(d <= 1e-9 * max(1.0, abs(x)), "identity:cotan", f"{where}: corner {i}: cotan {g!r} but 1/tan(angle) = {x!r}")
    if "area" in out and "total_area" in out:
        ctx.check(abs(float(out["total_area"]) - float(np.sum(out["area"]))) <= tol_of("area", out["area"], L) * len(F), "identity:total-area",
                  f"{where}: total_area {float(out['total_area'])!r} != sum of face_area {float(np.sum(out['area']))!r}")
    if "mean_area" in out and "total_area" in out:
        ctx.check(abs(float(out["mean_area"]) * len(F) - float(out["total_area"])) <= tol_of("area", out["area"], L) * len(F),
                  "identity:mean-area", f"{where}: mean_face_area * #faces = {float(out['mean_area']) * len(F)!r} != total_area {float(out['total_area'])!r}")
    for q in ("vn_uniform", "vn_area", "vn_angle", "fnormal"):
        if q in out:
            nn = np.linalg.norm(out[q], axis=1)
            m = out["_masks"].get(q)
            if m is not None:
                nn = nn[m]
            if nn.size:
                ctx.check(bool(np.all(np.abs(nn - 1) <= 1e-9)), "identity:unit-normal", f"{where}: {q} contains a non-unit vector (norms {fmt(nn)})")


def metamorphic(ctx, out0, outk, var, Lk, where):
    Lk = outk.get("_L", Lk)
    for q, base in out0.items():
        if q.startswith("_") or q not in outk:
            continue
        cont, kind = KINDS[q]
        exp = var.expect(q, base)
        mask = None
        if q in out0["_masks"]:
            m0 = out0["_masks"][q]
            m0 = m0[var.src["V"]] if var.src is not None else m0
            mask = m0 & outk["_masks"][q]
        compare(ctx, f"meta:{var.name}:{q}", outk[q], exp, kind, Lk,
                f"{where}: {q} on the {var.name} mesh vs the value expected from the base mesh", mask)


# --------------------------------------------------------------------------------------------- strategies

@st.composite
def motion(draw):
    q = draw(st.tuples(*[st.integers(-9, 9)] * 4).filter(lambda t: any(t)))
    if draw(st.integers(0, 2)) == 0:
        # far from the origin: 1e3 .. 1e7 mesh sizes away (georeferenced data); translation invariant quantities must survive
        mag = draw(st.sampled_from([1e3, 3e3, 1e4, 1e5, 1e6, 1e7]))
        tr = [mag * draw(st.integers(-4, 4)) / 4.0 + draw(st.floats(-20, 20, allow_nan=False)) for _ in range(3)]
        if max(abs(x) for x in tr) < mag / 4:
            tr[0] += mag
    else:
        tr = [draw(st.floats(-20, 20, allow_nan=False, width=64)) for _ in range(3)]
    # a third moderate, a third tiny (1e-6 .. 1e-3), a third huge (1e3 .. 1e6); log-uniform or round powers of ten
    s = draw(st.one_of(st.sampled_from([0.5, 2.0, 0.25, 4.0, 1.0 / 32, 32.0, 3.0, 0.1, 10.0, 1.000008, 0.999997]),
                       st.floats(1.0 / 32, 32.0, allow_nan=False),
                       st.sampled_from([1e-3, 1e-4, 1e-5, 1e-6]),
                       st.integers(-60, -30).map(lambda k: 10.0 ** (k / 10.0)),
                       st.sampled_from([1e3, 1e4, 1e5, 1e6]),
                       st.integers(30, 60).map(lambda k: 10.0 ** (k / 10.0))))
    # library-wide switches under which the unchanged library satisfies the oracles (see PENDING for the duplicate-name switch)
    return {"quat": list(q), "trans": tr, "scale": s, "sort_nb": draw(st.booleans()), "dup_switch": draw(st.booleans())}


def surface_relabelling(draw, V, F):
    nV, nF = len(V), len(F)
    vperm = list(draw(st.permutations(list(range(nV)))))
    fperm = list(draw(st.permutations(list(range(nF)))))
    frot = [draw(st.integers(0, len(F[k]) - 1)) for k in range(nF)]      # indexed by new face position
    return {"vperm": vperm, "fperm": fperm, "frot": frot}


def snap_to_lattice(draw, V, ok):
    """one case in five: coordinates multiplied by 4 and rounded to integers (kept when the mesh stays well shaped); such meshes
    are handed to the library with integer-typed coordinates"""
    if draw(st.integers(0, 4)) != 0:
        return V, False
    Vi = [[float(round(4 * x)) for x in v] for v in V]
    if ok(Vi):
        return Vi, True
    return V, False


def add_isolated(draw, V, F, tags):
    """one case in six: 1-3 vertices that belong to no face, inserted as the first id, a middle id and / or the last id"""
    if draw(st.integers(0, 5)) != 0:
        return V, F
    where = draw(st.lists(st.sampled_from(["first", "middle", "last"]), min_size=1, max_size=3, unique=True))
    A = np.array(V, dtype=float)
    lo, hi = A.min(axis=0), A.max(axis=0)
    V = [list(v) for v in V]
    F = [list(f) for f in F]
    for k, w in enumerate(sorted(where)):
        pos = 0 if w == "first" else len(V) if w == "last" else len(V) // 2
        pt = [float(lo[j] + (hi[j] - lo[j] + 1.0) * draw(st.sampled_from([-0.5, 0.25, 0.5, 1.5]))) for j in range(3)]
        V.insert(pos, pt)
        F = [[v + 1 if v >= pos else v for v in f] for f in F]
    tags.append("isolated-vertices=" + "+".join(sorted(where)))
    return V, F


@st.composite
def tri_case(draw, max_faces=44):
    if max_faces >= 40 and draw(st.integers(0, 59)) == 37:
        # element counts around 256 (uint8 ids, one-byte counters): a long triangle strip with 253..257 faces = 255..259 vertices
        nf = draw(st.sampled_from([253, 254, 255, 256, 257]))
        Vs, Fs = G.strip(nf)
        s = {"V": [[float(x) for x in v] for v in Vs], "F": Fs, "tags": ["base=strip", f"faces={nf}", "around-256-elements"] + G.tags_of(Vs, Fs)}
        rows = draw(st.sampled_from(["uint8", "uint8", "int16", "list"]))
    else:
        s = draw(G.well_shaped_trisurf(max_faces=max_faces))
        rows = None
    s["V"], snapped = snap_to_lattice(draw, s["V"], lambda Vi: poly_ok(Vi, s["F"]))
    if snapped:
        s["tags"] = s["tags"] + ["lattice"]
    if rows is None:
        s["V"], s["F"] = add_isolated(draw, s["V"], s["F"], s["tags"])
    c = {"V": s["V"], "F": s["F"], "tags": s["tags"], "seed": draw(st.integers(0, 10 ** 6))}
    if rows:
        c["rows"] = rows
    c.update(draw(motion()))
    c.update(surface_relabelling(draw, c["V"], c["F"]))
    return c


def poly_ok(V, F, strict=True):
    """valid manifold, faces planar and strictly convex with bounded corner angles. strict: bounds used while generating
    (polygons [10.5, 164.5], triangles [8.5, 164.5] degrees); not strict: the documented domain ([10, 165], triangles [8, 170])"""
    if SurfRef(len(V), F).validate() is not None:
        return False
    if any(len(f) > 8 for f in F):
        return False
    if R.planarity_defect(V, F) > (1e-10 if strict else 1e-9):
        return False
    m = 0.5 if strict else -1e-6
    for f, row in zip(F, R.signed_corner_angles_deg(V, F)):
        lo, hi = (8.0, 165.0 if strict else 170.0) if len(f) == 3 else (10.0, 165.0)
        if min(row) < lo + m or max(row) > hi - m:
            return False
    return True


POLY_BASES = ["grid", "grid", "cyl_u", "cube", "prism", "prism", "antiprism", "polygon", "fan_closed", "hexgrid", "hexgrid"]
FLAT = ("grid", "polygon", "fan_closed", "fan_open", "strip", "hexgrid")


def hexgrid(nu, nv):
    """honeycomb-like brick pattern: a (2 nu) x nv quad grid whose vertices are displaced alternately up / down and whose quads
    are merged pairwise (pairs shifted by one column on odd rows) into strictly convex planar hexagons; lone quads at row ends"""
    V, F = G.grid(2 * nu, nv)
    cu = 2 * nu + 1
    V = [[v[0], v[1] + (0.2 if ((k % cu) + (k // cu)) % 2 == 0 else -0.2), 0.0] for k, v in enumerate(V)]
    out = []
    for j in range(nv):
        row = F[j * 2 * nu:(j + 1) * 2 * nu]
        i = 0
        if j % 2 == 1:
            out.append(row[0]); i = 1
        while i + 1 < 2 * nu:
            a, b = row[i], row[i + 1]          # a=[p00,p10,p11,p01]  b=[p10,p20,p21,p11]
            out.append([a[0], a[1], b[1], b[2], a[2], a[3]])
            i += 2
        if i < 2 * nu:
            out.append(row[i])
    return V, out


@st.composite
def poly_case(draw, max_faces=36):
    name = draw(st.sampled_from(POLY_BASES))
    a = draw(st.integers(0, 7)); b = draw(st.integers(0, 7))
    if name == "hexgrid":
        V, F = hexgrid(1 + a % 3, 1 + b % 3)
    else:
        V, F = G.build_base(name, a, b)
    V = [[float(x) for x in v] for v in V]
    tags = ["base=" + name]
    if name in FLAT:
        amp = draw(st.sampled_from([0.0, 0.04, 0.1]))
        if amp:
            Vj = [[v[0], v[1], 0.0] for v in G.jitter(V, draw(st.integers(0, 1000)), amp)]
            if poly_ok(Vj, F):
                V = Vj
                tags.append("jitter")
    if not poly_ok(V, F):
        # (hexgrid with straight corners, degenerate parameters): fall back to a plain quad grid
        V, F = G.build_base("grid", a, b)
        V = [[float(x) for x in v] for v in V]
        tags = ["base=grid(fallback)"]
    ops = draw(st.lists(st.tuples(st.sampled_from(["del", "split", "merge", "1to3", "flip"]), st.integers(0, 200), st.integers(0, 40)), max_size=5))
    for (op, i, d) in ops:
        if len(F) >= max_faces:
            break
        r = G.OPS[op](V, F, i, d) if op == "split" else G.OPS[op](V, F, i)
        if r is None or not r[1]:
            continue
        Vr, Fr = G.compact(r[0], r[1])
        if not poly_ok(Vr, Fr):
            continue
        V, F = [[float(x) for x in v] for v in Vr], Fr
        tags.append("op=" + op)
    V, F = G.compact(V, F)
    # an affine map keeps faces planar and convex; accept it if corner angles stay in range
    if draw(st.booleans()):
        q1 = R.quat_to_matrix([draw(st.integers(-5, 5)) for _ in range(3)] + [draw(st.integers(1, 5))])
        q2 = R.quat_to_matrix([draw(st.integers(-5, 5)) for _ in range(3)] + [draw(st.integers(1, 5))])
        dg = np.diag([draw(st.sampled_from([0.6, 0.8, 1.0, 1.3, 1.7])) for _ in range(3)])
        Va = (np.array(V) @ (q1 @ dg @ q2).T).tolist()
        if poly_ok(Va, F):
            V = Va
            tags.append("affine")
    if draw(st.booleans()):
        V, F, _ = G.relabel(V, F, draw(st.integers(0, 10000)))
        tags.append("relabelled")
    V = [[float(x) for x in v] for v in V]
    F = [list(map(int, f)) for f in F]
    V, snapped = snap_to_lattice(draw, V, lambda Vi: poly_ok(Vi, F))
    if snapped:
        tags.append("lattice")
    assert poly_ok(V, F), "poly generator produced an invalid case"
    tags = tags + G.tags_of(V, F)
    V, F = add_isolated(draw, V, F, tags)
    c = {"V": V, "F": F, "tags": tags, "seed": draw(st.integers(0, 10 ** 6))}
    c.update(draw(motion()))
    c.update(surface_relabelling(draw, V, F))
    return c


@st.composite
def tet_case(draw, max_cells=30):
    s = draw(GT.tets(max_cells=max_cells))
    V, C = s["V"], s["C"]
    V, snapped = snap_to_lattice(draw, V, lambda Vi: GT.valid(Vi, C) and all(GT.lib_det(Vi, c) * GT.lib_det(V, c) > 0 for c in C))
    c = {"V": V, "C": C, "tags": s["tags"] + (["lattice"] if snapped else []), "seed": draw(st.integers(0, 10 ** 6))}
    c.update(draw(motion()))
    c["vperm"] = list(draw(st.permutations(list(range(len(V))))))
    c["cperm"] = list(draw(st.permutations(list(range(len(C))))))
    c["cvperm"] = [draw(st.integers(0, 23)) for _ in C]
    return c


@st.composite
def interp_case(draw):
    s = draw(st.one_of(tri_case(max_faces=30), poly_case(max_faces=24)))
    s["V"], s["F"] = G.compact(s["V"], s["F"])          # averages onto a vertex without faces are undefined (0/0)
    s["tags"] = [t for t in s["tags"] if not t.startswith("isolated")]
    c = {"V": s["V"], "F": s["F"], "tags": s["tags"], "seed": draw(st.integers(0, 10 ** 6)),
         "scale": s["scale"] if draw(st.booleans()) else 1.0,
         "const": draw(st.floats(-50, 50, allow_nan=False).filter(lambda x: abs(x) > 1e-3)),
         "cvec": [draw(st.floats(-50, 50, allow_nan=False)) for _ in range(3)],
         "precompute": draw(st.booleans())}
    return c


# --------------------------------------------------------------------------------------------- sub-check functions

def check_generated_surface(case):
    V = np.array(case["V"], dtype=float).reshape(-1, 3)
    F = [list(map(int, f)) for f in case["F"]]
    err = SurfRef(len(V), F).validate()
    if err is not None:
        raise AssertionError("invalid generated surface: " + err)
    if not poly_ok(V, F, strict=False):
        raise AssertionError("generated surface is not well shaped (planar strictly convex faces, angle bounds)")
    if len(set(v for f in F for v in f)) != len(V) and not any(str(t).startswith("isolated") for t in case.get("tags", [])):
        raise AssertionError("generated surface has an isolated vertex")
    return V, F


def apply_config(case, ctx):
    """per-case library switches (the runner saves / restores mouette.config around every case)"""
    import mouette as M
    M.config.sort_neighborhoods = bool(case.get("sort_nb", True))
    ctx.label("sort_neighborhoods=" + str(M.config.sort_neighborhoods))
    if PENDING["recall_existing"]:
        M.config.display_duplicate_attribute_warning = bool(case.get("dup_switch", False))
        ctx.label("display_duplicate_attribute_warning=" + str(M.config.display_duplicate_attribute_warning))


def common_labels(case, ctx, V, s, tr):
    ctx.label("scale=tiny(<=1e-3)" if s <= 1e-3 else "scale=huge(>=1e3)" if s >= 1e3 else "scale=moderate")
    ctx.label("offset=far(>=1e3 sizes)" if float(np.max(np.abs(tr))) >= 250 else "offset=near")
    iform = int_form_of(V, case["seed"])
    ctx.label("coords=" + (iform or "float"))
    xform = idx_form_of(case["seed"], len(V))
    if case.get("rows") and not (case["rows"] == "uint8" and len(V) > 256):
        xform = case["rows"]
    ctx.label("rows=" + xform)
    return iform, xform


def motion_of(case):
    Rm = R.quat_to_matrix(case["quat"])
    t = np.array(case["trans"], dtype=float)
    s = float(case["scale"])
    ident = np.allclose(Rm, np.eye(3)) or not np.any(t) or s == 1.0
    return Rm, t, s, ident


def fn_surface(case, ctx):
    V, F = check_generated_surface(case)
    for t in case.get("tags", []):
        ctx.label(t)
    Rm, tr, s, ident = motion_of(case)
    ref0 = SurfRef(len(V), F)
    bv = ref0.border_vertices()
    ctx.nontrivial((not ident) and ((not bv and len(F) >= 4) or (bv and len(bv) < len(V))))
    ctx.label("border+interior" if (bv and len(bv) < len(V)) else "closed" if not bv else "border-only")
    if len(F) <= 2:
        ctx.label(f"minimal:faces={len(F)}")
    rnd = random.Random(case["seed"])
    apply_config(case, ctx)
    iform, xform = common_labels(case, ctx, V, s, tr)
    how = f" (rows: {xform}" + (f", {iform} coordinates)" if iform else ")")

    # (meshes with ~256 elements: one option combination per function keeps the case affordable)
    r0 = evaluate_surface(ctx, V, F, rnd, "base mesh" + how, len(F) < 120, iform, xform)
    if r0 is None:
        return
    out0, medges0, refv = r0
    identities_surface(ctx, V, F, out0, refv, "base mesh")

    # rigid motion
    V1 = V @ Rm.T + tr
    gc.collect(1)
    pre = V if case["seed"] % 2 == 1 else None      # every other case: the moved mesh is the base-coordinate mesh object mutated in place
    r1 = evaluate_surface(ctx, V1, F, rnd, "rigidly moved mesh" + (" [built on the base coordinates, measured, then moved in place]" if pre is not None else "")
                          + f" (rows: {xform}, translation {tr.tolist()})", False, None, xform, False, pre)
    gc.collect(1)
    if r1 is not None:
        metamorphic(ctx, out0, r1[0], Variant("rigid", Rm, tr), coord_scale(V1), "rigid motion")
    # scaling
    V2 = s * V
    r2 = evaluate_surface(ctx, V2, F, rnd, f"mesh scaled by {s!r} (rows: {xform})", False, None, xform)
    if r2 is not None:
        metamorphic(ctx, out0, r2[0], Variant("scale", s=s), coord_scale(V2), f"scaling by {s!r}")
    # renumbering: vertex i -> vperm[i]; new face k = old face fperm[k], rotated by frot[k]
    vperm, fperm, frot = case["vperm"], case["fperm"], case["frot"]
    nV = len(V)
    V3 = np.zeros_like(V)
    V3[vperm] = V
    F3 = []
    for k in range(len(F)):
        g = [vperm[v] for v in F[fperm[k]]]
        r = frot[k] % len(g)
        F3.append(g[r:] + g[:r])
    r3 = evaluate_surface(ctx, V3, F3, rnd, "renumbered mesh" + how, False, iform, xform)
    if r3 is not None:
        inv = [0] * nV
        for i, j in enumerate(vperm):
            inv[j] = i
        off0 = R.corner_offsets(F)
        srcC = []
        for k in range(len(F)):
            n = len(F3[k]); r = frot[k] % n
            srcC += [off0[fperm[k]] + (j + r) % n for j in range(n)]
        e0 = {e: i for i, e in enumerate(medges0)}
        srcE = [e0[key(inv[a], inv[b])] for (a, b) in r3[1]]
        src = {"V": np.array(inv), "F": np.array(fperm), "C": np.array(srcC), "E": np.array(srcE)}
        metamorphic(ctx, out0, r3[0], Variant("renumber", src=src), coord_scale(V3), "renumbering")
        identities_surface(ctx, V3, F3, r3[0], r3[2], "renumbered mesh")
    # single precision coordinates: the library computes in the precision it is given; compared with the reference evaluated on
    # the rounded coordinates, with single precision tolerances (values only, no metamorphic relation)
    if case["seed"] % 4 == 0:
        V4 = V.astype(np.float32).astype(float)
        if poly_ok(V4, F, strict=False):
            ctx.label("float32-coordinates")
            PREC.update(PREC32)
            try:
                evaluate_surface(ctx, V4, F, rnd, f"mesh given with numpy float32 coordinates (rows: {xform})", False, None, xform, True)
            finally:
                PREC.update(PREC64)


INTERP_PARAMS = {"interpolate_vertices_to_faces": ("vattr", "fattr"), "interpolate_faces_to_vertices": ("fattr", "vattr"),
                 "scatter_vertices_to_corners": ("vattr", "cattr"), "average_corners_to_vertices": ("cattr", "vattr"),
                 "scatter_faces_to_corners": ("fattr", "cattr"), "average_corners_to_faces": ("cattr", "fattr")}

PERMS4 = None


def perms4():
    global PERMS4
    if PERMS4 is None:
        import itertools
        PERMS4 = list(itertools.permutations(range(4)))
    return PERMS4


def evaluate_tets(ctx, V, C, rnd, where, full, int_form=None, idx_form="list", float32=False, premutate=None):
    import mouette as M
    A = M.attributes
    if premutate is not None:
        names = ["cell_volume", "face_area", "edge_length", "cell_barycenter", "face_barycenter", "face_circumcenter"]
        rnd.shuffle(names)
        mesh = premutated_mesh(ctx, premutate, V, rnd, names[:3], where, C=C, idx_form=idx_form)
    else:
        mesh = build_mesh(V, C=C, int_form=int_form, idx_form=idx_form, float32=float32)
    medges = [tuple(ints(e)) for e in mesh.edges]
    if not ctx.check(len(set(medges)) == len(medges) and set(medges) == R.edges_of_cells(C), "edges",
                     f"{where}: mesh.edges is not the set of cell edges (low index first)"):
        return None
    mfaces = [ints(f) for f in mesh.faces]
    expf = set(key(*[c[j] for j in range(4) if j != i]) for c in C for i in range(4))
    if not ctx.check(all(len(f) == 3 for f in mfaces) and len(set(key(*f) for f in mfaces)) == len(mfaces) and set(key(*f) for f in mfaces) == expf,
                     "faces", f"{where}: mesh.faces is not the set of triangles of the cells"):
        return None
    if not ctx.check([ints(c) for c in mesh.cells] == [list(c) for c in C], "cells", f"{where}: mesh.cells differs from the input"):
        return None
    L = coord_scale(V, medges)
    sizes = {"V": len(V), "E": len(medges), "F": len(mfaces), "K": len(C)}
    ref = {"degree": R.vertex_degrees(len(V), medges), "length": R.edge_lengths(V, medges), "middle": R.edge_midpoints(V, medges),
           "area": R.face_areas(V, mfaces), "fbary": R.face_barycenters(V, mfaces),
           "volume": R.tet_volumes(V, C), "cbary": R.cell_barycenters(V, C)}
    if circumcenter_in_reach(ctx, V, mfaces, where):
        ref["circum"] = R.face_circumcenters(V, mfaces)
    extra = []

    def bary(call, out, hist):
        hist.append("barycenter")
        ok, v = ctx.call("barycenter", A.barycenter, mesh)
        if ok:
            v = np.asarray(v, dtype=float)
            if compare(ctx, "ref:barycenter", v, V.mean(axis=0), "point", L, f"{where}: barycenter(mesh)"):
                out["bary"] = v
    extra.append(("glob", bary))
    extra += mean_calls(ctx, mesh, "mean_edge_length", "mean_len", ref["length"], "len", L, rnd, where, full, "edges")
    extra += mean_calls(ctx, mesh, "mean_face_area", "mean_area", ref["area"], "area", L, rnd, where, full, "faces")
    extra += mean_calls(ctx, mesh, "mean_cell_volume", "mean_vol", ref["volume"], "vol", L, rnd, where, full, "cells")

    def v2f(call, out, hist):
        hist.append("interpolate_vertices_to_faces")
        cval = 3.25
        di, do = rnd.randrange(2) == 0, rnd.randrange(2) == 0
        va = mesh.vertices.create_attribute("c07_const_v", float, dense=di)
        for i in range(len(V)):
            va[i] = cval
        fa = mesh.faces.create_attribute("c07_const_f", float, dense=do)
        ok, r = ctx.call("interpolate_vertices_to_faces", A.interpolate_vertices_to_faces, mesh, va, fa)
        if ok:
            vals = read_attr(ctx, "interpolate_vertices_to_faces", r, len(mfaces), 1, where)
            if vals is not None:
                compare(ctx, "const:interpolate_vertices_to_faces", vals, np.full(len(mfaces), cval), "inv", L,
                        f"{where}: constant {cval} through interpolate_vertices_to_faces on a VolumeMesh (in dense={di}, out dense={do})")
    extra.append(("glob", v2f))
    extra += other_library_calls(ctx, mesh, rnd, len(V), False)
    out = run_attribute_calls(ctx, mesh, TET_FUNCS, ref, {}, sizes, L, rnd, where, full, extra)
    out["_masks"] = {}
    out["_L"] = L
    if "volume" in out and "mean_vol" in out:
        ctx.check(abs(float(out["mean_vol"]) * len(C) - float(np.sum(out["volume"]))) <= tol_of("vol", out["volume"], L) * len(C),
                  "identity:mean-volume", f"{where}: mean_cell_volume * #cells != sum of cell_volume")
    mesh_unchanged(ctx, mesh, V, where, C=C)
    if full and rnd.randrange(2) == 0:
        copy_round_trip(ctx, mesh, [sp for sp in TET_FUNCS if sp[0] in ("area", "length", "volume", "degree")], ref, sizes, L, rnd, where)
    return out, medges, mfaces


def fn_tets(case, ctx):
    V = np.array(case["V"], dtype=float).reshape(-1, 3)
    C = [list(map(int, c)) for c in case["C"]]
    if not GT.valid(V.tolist(), C):
        raise AssertionError("invalid generated tet mesh")
    for t in case.get("tags", []):
        ctx.label(t)
    Rm, tr, s, ident = motion_of(case)
    ctx.nontrivial((not ident) and len(C) >= 2)
    if len(C) <= 2:
        ctx.label(f"minimal:cells={len(C)}")
    rnd = random.Random(case["seed"])
    apply_config(case, ctx)
    iform, xform = common_labels(case, ctx, V, s, tr)
    how = f" (rows: {xform}" + (f", {iform} coordinates)" if iform else ")")
    r0 = evaluate_tets(ctx, V, C, rnd, "base mesh" + how, True, iform, xform)
    if r0 is None:
        return
    out0, medges0, mfaces0 = r0
    V1 = V @ Rm.T + tr
    gc.collect(1)
    pre = V if case["seed"] % 2 == 1 else None
    r1 = evaluate_tets(ctx, V1, C, rnd, "rigidly moved mesh" + (" [built on the base coordinates, measured, then moved in place]" if pre is not None else "")
                       + f" (rows: {xform}, translation {tr.tolist()})", False, None, xform, False, pre)
    gc.collect(1)
    if r1 is not None:
        metamorphic(ctx, out0, r1[0], Variant("rigid", Rm, tr), coord_scale(V1), "rigid motion")
    V2 = s * V
    r2 = evaluate_tets(ctx, V2, C, rnd, f"mesh scaled by {s!r} (rows: {xform})", False, None, xform)
    if r2 is not None:
        metamorphic(ctx, out0, r2[0], Variant("scale", s=s), coord_scale(V2), f"scaling by {s!r}")
    vperm, cperm, cvperm = case["vperm"], case["cperm"], case["cvperm"]
    V3 = np.zeros_like(V)
    V3[vperm] = V
    C3 = []
    for k in range(len(C)):
        g = [vperm[v] for v in C[cperm[k]]]
        p = perms4()[cvperm[k] % 24]
        C3.append([g[j] for j in p])
    r3 = evaluate_tets(ctx, V3, C3, rnd, "renumbered mesh" + how, False, iform, xform)
    if r3 is not None:
        inv = [0] * len(V)
        for i, j in enumerate(vperm):
            inv[j] = i
        e0 = {e: i for i, e in enumerate(medges0)}
        f0 = {key(*f): i for i, f in enumerate(mfaces0)}
        src = {"V": np.array(inv), "K": np.array(cperm), "E": np.array([e0[key(inv[a], inv[b])] for (a, b) in r3[1]]),
               "F": np.array([f0[key(*[inv[v] for v in f])] for f in r3[2]])}
        metamorphic(ctx, out0, r3[0], Variant("renumber", src=src), coord_scale(V3), "renumbering")
    if case["seed"] % 4 == 0:
        V4 = V.astype(np.float32).astype(float)
        if GT.valid(V4.tolist(), C):
            ctx.label("float32-coordinates")
            PREC.update(PREC32)
            try:
                evaluate_tets(ctx, V4, C, rnd, f"mesh given with numpy float32 coordinates (rows: {xform})", False, None, xform, True)
            finally:
                PREC.update(PREC64)


# --------------------------------------------------------------------------------------------- interpolation

def fn_interp(case, ctx):
    import mouette as M
    A = M.attributes
    V, F = check_generated_surface(case)
    for t in case.get("tags", []):
        ctx.label(t)
    rnd = random.Random(case["seed"])
    nrnd = np.random.RandomState(case["seed"] % (2 ** 31))
    sc = float(case.get("scale", 1.0))
    V = sc * V          # the weights (areas, angles) must be insensitive to the absolute size of the mesh
    ctx.label("scale=tiny(<=1e-3)" if sc <= 1e-3 else "scale=huge(>=1e3)" if sc >= 1e3 else "scale=moderate")
    M.config.sort_neighborhoods = (case["seed"] % 2 == 0)
    xform = idx_form_of(case["seed"], len(V))
    ctx.label("rows=" + xform)
    mesh = build_mesh(V, F=F, idx_form=xform)
    if [ints(f) for f in mesh.faces] != [list(f) for f in F]:
        ctx.fail("faces", "mesh.faces differs from the input face list")
        return
    nV, nF = len(V), len(F)
    nC = sum(len(f) for f in F)
    cont = {"V": (mesh.vertices, nV), "F": (mesh.faces, nF), "C": (mesh.face_corners, nC)}
    L = coord_scale(V)
    if case["precompute"]:
        # cached attributes are used by the 'area' / 'angle' modes when present
        A.corner_angles(mesh); A.face_area(mesh)
        ctx.label("cached angles+area")
    bv = R.border_vertices(F)
    ctx.nontrivial(len(F) >= 2 and ((not bv) or len(bv) < nV))
    cnt_vf = np.zeros(nV); cnt_fc = np.array([float(len(f)) for f in F])
    for f in F:
        for v in f:
            cnt_vf[v] += 1
    # (function, source container, target container, weights, reference, multiplicity of 'sum')
    jobs = [("interpolate_vertices_to_faces", "V", "F", [None], lambda x, w: R.vertices_to_faces(F, x), None),
            ("scatter_vertices_to_corners", "V", "C", [None], lambda x, w: np.array([x[v] for f in F for v in f]), None),
            ("scatter_faces_to_corners", "F", "C", [None], lambda x, w: np.array([x[k] for k, f in enumerate(F) for v in f]), None),
            ("interpolate_faces_to_vertices", "F", "V", ["uniform", "area", "angle", "sum"], lambda x, w: R.faces_to_vertices(V, F, x, w), cnt_vf),
            ("average_corners_to_vertices", "C", "V", ["uniform", "angle", "sum"], lambda x, w: R.corners_to_vertices(V, F, x, w), cnt_vf),
            ("average_corners_to_faces", "C", "F", ["uniform", "angle", "sum"], lambda x, w: R.corners_to_faces(V, F, x, w), cnt_fc)]
    rnd.shuffle(jobs)
    uid = 0
    from mouette.mesh.mesh_attributes import Attribute, ArrayAttribute

    def new_attr(cnt, n, name, dim, dense, standalone, default=None):
        """an attribute created through the container (registered on the mesh) or an object of the caller's own (what in-repo callers
        pass as outputs: ArrayAttribute(float, n))"""
        kw = {} if default is None else {"default_value": default}
        if standalone:
            return ArrayAttribute(float, n, dim, **kw) if dense else Attribute(float, dim, **kw)
        return cnt.create_attribute(name, float, dim, dense=dense, **kw)

    for (fname, src, dst, weights, reff, mult) in jobs:
        f = getattr(A, fname)
        pin, pout = INTERP_PARAMS[fname]
        (csrc, nsrc), (cdst, ndst) = cont[src], cont[dst]
        for what in ("const", "random", "sparse-default"):
            for dim in (1, 3):
                if what == "sparse-default" and dim == 3:
                    continue
                uid += 1
                din = rnd.randrange(2) == 0 and what != "sparse-default"
                by_default = (what == "const" and dim == 1 and not din and rnd.randrange(2) == 0)
                sa_in = rnd.randrange(4) == 0       # input attribute not registered on the mesh
                # values handed over as numpy float32 scalars (a narrow dtype the attribute accepts as 'float')
                vform = rnd.randrange(4) if (what == "const" and dim == 1 and not by_default) else 0
                f32 = vform == 1          # values handed over as numpy.float32
                as_int = vform == 2       # an integer-valued constant handed over as python int (castable into a float attribute)
                zero = what == "const" and dim == 1 and rnd.randrange(5) == 0      # (falsy but legitimate) the constant 0.0 / int 0
                written = None
                if what == "const":
                    cv = float(case["const"]) if dim == 1 else np.array(case["cvec"], dtype=float)
                    if f32:
                        cv = float(np.float32(cv))
                    if as_int:
                        cv = float(round(cv)) or 3.0
                    if zero:
                        cv = 0.0
                        ctx.label("constant=0")
                    x = np.array([cv] * nsrc, dtype=float)
                elif what == "sparse-default":
                    # a sparse attribute with a NON-ZERO default: most entries never written, a few written in decreasing index order,
                    # some of them with the falsy value 0.0; reading it gives x
                    dflt = float(case["const"])
                    x = np.full(nsrc, dflt)
                    written = sorted(set(int(k) for k in nrnd.randint(0, nsrc, size=max(1, nsrc // 3))), reverse=True)
                    for j, k in enumerate(written):
                        x[k] = 0.0 if j % 2 == 0 else float(nrnd.uniform(-1, 1))
                else:
                    x = nrnd.uniform(-1, 1, (nsrc,) if dim == 1 else (nsrc, 3))
                # ONE input attribute object serves every weight mode of the function (argument reuse)
                if by_default:
                    ain = new_attr(csrc, nsrc, f"c07_in_{uid}", dim, False, sa_in, float(cv))
                elif written is not None:
                    ain = new_attr(csrc, nsrc, f"c07_in_{uid}", 1, False, sa_in, dflt)
                    for k in written:
                        ain[k] = float(x[k])
                    ctx.label("input=sparse,non-zero-default,few-written")
                else:
                    ain = new_attr(csrc, nsrc, f"c07_in_{uid}", dim, din, sa_in)
                    for i in range(nsrc):
                        ain[i] = (np.float32(x[i]) if f32 else int(x[i]) if as_int else float(x[i])) if dim == 1 else x[i]
                if sa_in:
                    ctx.label("input=attribute-object-not-registered-on-the-mesh")
                ws = list(weights)
                if ws[0] is not None:
                    ws.append("<omitted>")          # the documented default of `weight` is 'uniform'
                rnd.shuffle(ws)
                if ws[0] is not None and rnd.randrange(2) == 0:
                    # (after a call that raised) an unknown mode must be refused; the calls that follow must be unaffected
                    bad_out = cdst.create_attribute(f"c07_out_{uid}_bad", float, dim, dense=True)
                    try:
                        f(mesh, ain, bad_out, "c07-no-such-weight")
                    except Exception:
                        ctx.n_assert += 1
                    else:
                        ctx.fail("bad-weight:" + fname, f"{fname}: unknown weight mode accepted (documented to raise)")
                last = None
                for wi, w00 in enumerate(ws):
                    # the functions lower-case their `weight` argument: any capitalisation of a mode is the same mode
                    w0 = "uniform" if w00 == "<omitted>" else w00
                    w = None if w00 == "<omitted>" else w0
                    if w is not None:
                        w = (w0, w0, w0.capitalize(), w0.upper(), w0[0] + w0[1:].upper())[rnd.randrange(5)]
                        if w != w0:
                            ctx.label("weight-spelling=non-lower-case")
                    dout = rnd.randrange(2) == 0
                    sa_out = rnd.randrange(3) == 0
                    odef = None
                    if PENDING["output_default"] and rnd.randrange(3) == 0:
                        odef = 7.0          # an output attribute created with a non-zero default value
                        ctx.label("output=non-zero-default")
                    aout = new_attr(cdst, ndst, f"c07_out_{uid}_{wi}", dim, dout, sa_out, odef)
                    if sa_out:
                        ctx.label("output=attribute-object-not-registered-on-the-mesh")
                    # (spelling) everything by position / weight= / the attributes by their documented names / mesh= too
                    form = rnd.randrange(4)
                    if form == 0:
                        a_, k_ = (mesh, ain, aout) + (() if w is None else (w,)), {}
                    elif form == 1:
                        a_, k_ = (mesh, ain, aout), ({} if w is None else {"weight": w})
                    elif form == 2:
                        a_, k_ = (mesh,), dict({pin: ain, pout: aout}, **({} if w is None else {"weight": w}))
                    else:
                        a_, k_ = (), dict({"mesh": mesh, pout: aout, pin: ain}, **({} if w is None else {"weight": w}))
                    ctx.label("interp-call-form=" + ("positional", "weight=", "attributes-by-name", "all-by-name")[form])
                    desc = (f"{fname}(mesh, <{what} {'scalar' if dim == 1 else 'vector'} attribute, {'dense' if din else 'sparse'}"
                            f"{' via default value' if by_default else ''}{', not registered' if sa_in else ''}>, <fresh {'dense' if dout else 'sparse'} output"
                            f"{', not registered' if sa_out else ''}{', default 7.0' if odef else ''}>"
                            + (f", weight={w!r})" if w else ")") + f" [called as {show_call(fname, a_, k_)}]"
                            + (" [values given as numpy.float32]" if f32 else " [values given as python int]" if as_int else "")
                            + f" [weights so far on this input: {ws[:wi]}]")
                    sig = fname + (":" + w0 if w0 else "") + (":default-weight" if w00 == "<omitted>" else "")
                    ok, r = ctx.call(sig, f, *a_, **k_)
                    if not ok:
                        continue
                    vals = read_attr(ctx, sig, r, ndst, dim, desc)
                    if vals is None:
                        continue
                    if r is not aout:
                        # documented: the function fills and returns the output attribute it was given
                        vo = read_attr(ctx, sig, aout, ndst, dim, desc + " [the output attribute handed in]")
                        if vo is not None:
                            ctx.check(bool(np.array_equal(vo, vals)), "output-not-filled:" + sig,
                                      f"{desc}: the output attribute handed in does not hold the returned values")
                    if what == "const":
                        exp = np.array([cv] * ndst, dtype=float)
                        if w0 == "sum":
                            exp = exp * (mult if dim == 1 else mult[:, None])
                        m = float(np.max(np.abs(exp)))
                        i, g, e, d = worst(vals, exp)
                        ctx.check(d <= (1e-5 if f32 else 1e-10) * max(m, 1e-300), "const:" + sig,
                                  f"{desc}: element {i} is {fmt(g)}, expected {fmt(e)}" + (" (count x constant)" if w0 == "sum" else " (the constant)"))
                    else:
                        exp = reff(x, w0)
                        i, g, e, d = worst(vals, exp)
                        ctx.check(d <= 1e-9 * max(1.0, float(np.max(np.abs(exp)))), "ref:" + sig,
                                  f"{desc}: element {i} is {fmt(g)}, the documented weighted mean gives {fmt(e)}")
                    last = (aout, vals, desc, sig)
                    if PENDING["reused_output"]:
                        # the same call a second time into the SAME output attribute must give the same values again
                        ok, r2 = ctx.call(sig, f, *a_, **k_)
                        if ok:
                            v2 = read_attr(ctx, sig, r2, ndst, dim, desc + " [second call, same output attribute]")
                            if v2 is not None:
                                i, g, e, d = worst(v2, vals)
                                ctx.check(d <= (1e-5 if f32 else 1e-10) * max(1.0, float(np.max(np.abs(vals)))), "reused-output:" + sig,
                                          f"{desc}: called a second time into the same output attribute, element {i} becomes {fmt(g)} (first call: {fmt(e)})")
                                last = (aout, v2, desc, sig)
                # the input must not be modified by any of the calls
                back = read_attr(ctx, fname, ain, nsrc, dim, f"{fname}: input attribute after weights {ws}")
                if back is not None:
                    ctx.check(bool(np.array_equal(back, x)), "input-modified:" + fname, f"{fname}: the input attribute was modified (weights {ws})")
                # (the caller's container changed after the call) overwriting the input afterwards must not reach an output already computed
                if last is not None and rnd.randrange(2) == 0:
                    for i in range(nsrc):
                        if dim == 3 and i % 2 == 0:
                            ain[i][0] = 99.5         # in place, through the object the attribute hands out
                        ain[i] = 99.5 if dim == 1 else [99.5, -99.5, 99.5]
                    again = read_attr(ctx, last[3], last[0], ndst, dim, last[2] + " [read again after the caller overwrote the input attribute]")
                    if again is not None:
                        ctx.check(bool(np.array_equal(again, last[1])), "output-follows-input:" + fname,
                                  f"{last[2]}: the output changed when the caller overwrote the input attribute after the call")
    mesh_unchanged(ctx, mesh, V, "interpolation mesh", F=F)


# --------------------------------------------------------------------------------------------- non-convex planar faces

def fan_signed_min(P, c):
    """min over the sides (P_i, P_i+1) of the signed area of triangle (P_i, P_i+1, c) measured against the polygon's own normal,
    divided by the polygon's area: >= 0 iff the point c sees every side from the inside (c in the kernel)"""
    P = np.asarray(P, dtype=float)
    va = R.vector_area(P)
    A = float(np.linalg.norm(va))
    nrm = va / A
    n = len(P)
    return min(0.5 * float(np.dot(np.cross(P[i] - c, P[(i + 1) % n] - c), nrm)) for i in range(n)) / A


def library_area_expected_exact(P):
    """What the (recorded, finding F-C07-3) algorithms of face_area can do: quads = mean of both triangulations (exact on convex
    quads only); >= 5 sides = unsigned triangle fan about the mean of the vertices (exact iff that point lies in the kernel).
    Returns True / False, or None when too close to call."""
    P = np.asarray(P, dtype=float)
    if len(P) == 4:
        rows = R.signed_corner_angles_deg(P, [list(range(4))])[0]
        return all(a > 0 for a in rows)
    m = fan_signed_min(P, P.mean(axis=0))
    return True if m > 1e-6 else False if m < -1e-6 else None


def library_normal_expected_exact(P):
    """face_normals = normalised cross product at the first three vertices: right iff the corner at the second vertex is convex"""
    a = R.signed_corner_angles_deg(P, [list(range(len(P)))])[0][1]
    return True if a > 1e-3 else False if a < -1e-3 else None


@st.composite
def nonconvex_case(draw):
    """one simple planar polygon with 4..10 vertices, star-shaped about the origin, with at least one reflex corner (every corner at
    least 15 degrees away from 0 / 180 / 360): random radii, or a regular star (alternating radii) listed from a drawn start vertex;
    notches optionally filled with triangles (planar mesh) or one triangle glued out of plane on side (0,1); then rigidly moved"""
    kind = draw(st.sampled_from(["random", "star", "star", "dart"]))
    P = None
    if kind == "random":
        n = draw(st.integers(4, 10))
        ang = [2 * math.pi * (i + draw(st.floats(-0.2, 0.2, allow_nan=False))) / n for i in range(n)]
        small = draw(st.lists(st.booleans(), min_size=n, max_size=n))
        rad = [draw(st.floats(0.25, 0.5, allow_nan=False)) if small[i] else draw(st.floats(0.9, 1.3, allow_nan=False)) for i in range(n)]
        P = [[rad[i] * math.cos(ang[i]), rad[i] * math.sin(ang[i]), 0.0] for i in range(n)]
    elif kind == "star":
        k = draw(st.integers(3, 5))                 # number of tips
        n = 2 * k
        Ro = draw(st.sampled_from([1.0, 2.0, 1.5])); ri = Ro * draw(st.sampled_from([0.4, 0.3, 0.5, 0.45]))
        start = draw(st.integers(0, n - 1))          # the first listed vertex: a tip (even) or a notch (odd)
        jit = draw(st.sampled_from([0.0, 0.02]))
        P = []
        for j in range(n):
            i = (j + start) % n
            r = (Ro if i % 2 == 0 else ri) * (1 + jit * math.sin(7.0 * i + 1.0))
            a = math.pi / 2 + i * math.pi / k
            P.append([r * math.cos(a), r * math.sin(a), 0.0])
    if P is not None:
        n = len(P)
        rows = R.signed_corner_angles_deg(P, [list(range(n))])[0]
        if not (all((15 <= a <= 165) or (-165 <= a <= -15) for a in rows) and any(a < 0 for a in rows)):
            P = None
    if P is None and kind == "random":
        # fall back to a plain regular five-pointed star listed from a drawn vertex
        st0 = draw(st.integers(0, 9))
        P = [[(2.0 if ((j + st0) % 10) % 2 == 0 else 0.8) * math.cos(math.pi / 2 + ((j + st0) % 10) * math.pi / 5),
              (2.0 if ((j + st0) % 10) % 2 == 0 else 0.8) * math.sin(math.pi / 2 + ((j + st0) % 10) * math.pi / 5), 0.0] for j in range(10)]
        n = 10
    if P is None:
        # the classic dart / arrow head, reflex corner at a drawn position
        n = 4
        k = draw(st.integers(0, 3))
        base = [[0.0, 0.0, 0.0], [2.0, 0.0, 0.0], [0.5, 0.5, 0.0], [0.0, 2.0, 0.0]]        # reflex at index 2
        P = [base[(i - k + 2) % 4] for i in range(4)]
    V = [list(p) for p in P]
    F = [list(range(n))]
    extra = draw(st.sampled_from(["none", "neighbour", "fill", "fill"]))
    if extra == "fill":
        # a triangle in every notch whose two neighbours are convex corners: (next, reflex, previous) runs against the polygon
        rows = R.signed_corner_angles_deg(V, [F[0]])[0]
        Ff = list(F)
        for i in range(n):
            if rows[i] < 0 and rows[i - 1] > 0 and rows[(i + 1) % n] > 0:
                Ff.append([(i + 1) % n, i, (i - 1) % n])
        if len(Ff) > 1 and SurfRef(len(V), Ff).validate() is None:
            F = Ff
        else:
            extra = "neighbour"
    if extra == "neighbour":
        m = (np.array(V[0]) + np.array(V[1])) / 2
        V.append([float(m[0]), float(m[1]), 0.7])
        # side (0,1) of the polygon is traversed 0 -> 1, the triangle must traverse it 1 -> 0
        F.append([1, 0, n])
    c = {"V": V, "F": F, "rot": draw(st.integers(1, n - 1)), "seed": draw(st.integers(0, 1000))}
    c.update(draw(motion()))
    return c


def fn_nonconvex(case, ctx):
    import mouette as M
    A = M.attributes
    V0 = np.array(case["V"], dtype=float).reshape(-1, 3)
    F0 = [list(map(int, f)) for f in case["F"]]
    if SurfRef(len(V0), F0).validate() is not None:
        raise AssertionError("invalid generated surface")
    n = len(F0[0])
    rows = R.signed_corner_angles_deg(V0, [F0[0]])[0]
    if not (any(a < 0 for a in rows) and all(15 - 1e-6 <= abs(a) <= 165 + 1e-6 for a in rows)) or R.planarity_defect(V0, [F0[0]]) > 1e-12:
        raise AssertionError("generated polygon is not a well-shaped non-convex planar polygon")
    Rm, tr, s, ident = motion_of(case)
    P0 = V0[F0[0]]
    exact = library_area_expected_exact(P0)
    first_in_kernel = fan_signed_min(P0, P0[0]) >= -1e-9
    ctx.label(f"n={n}", f"reflex={sum(1 for a in rows if a < 0)}", "reflex-at-second-vertex" if rows[1] < 0 else "second-vertex-convex",
              "alone" if len(F0) == 1 else "with-neighbour" if len(V0) > n else "notches-filled",
              "vertex-mean-in-kernel(area exact expected)" if exact else "vertex-mean-outside-kernel-or-quad(F-C07-3)",
              "first-vertex-in-kernel" if first_in_kernel else "first-vertex-outside-kernel")
    ctx.nontrivial(not ident)
    r = case["rot"] % n
    variants = [("as generated", V0, F0),
                (f"face vertex list rotated by {r}", V0, [F0[0][r:] + F0[0][:r]] + F0[1:]),
                ("rigidly moved", V0 @ Rm.T + tr, F0)]
    xform = idx_form_of(case["seed"], len(V0))
    for where, V, F in variants:
        mesh = build_mesh(V, F=F, idx_form=xform)
        if [ints(f) for f in mesh.faces] != F:
            ctx.fail("faces", "mesh.faces differs from the input face list")
            return
        L = coord_scale(V, [tuple(ints(e)) for e in mesh.edges])
        for q, fname, dim, kind, ref in (("area", "face_area", 1, "area", R.face_areas(V, F)),
                                         ("fnormal", "face_normals", 3, "dir", R.face_normals(V, F)),
                                         ("fbary", "face_barycenter", 3, "point", R.face_barycenters(V, F))):
            p, d = COMBOS[(case["seed"] + len(where) + dim) % 4]
            ok, attr = ctx.call(fname, getattr(A, fname), mesh, name="c07_" + q, persistent=p, dense=d)
            if not ok:
                continue
            vals = read_attr(ctx, fname, attr, len(F), dim, where)
            if vals is not None:
                compare(ctx, "nonconvex:" + fname, vals, ref, kind, L,
                        f"{where}: {fname} of a planar non-convex {n}-gon with signed corner angles {np.round(rows, 1).tolist()} "
                        f"(face 0 = {F[0]}; expected = |vector area| / unit vector area / vertex mean)")
        fa = R.face_areas(V, F)
        ok, ta = ctx.call("total_area", A.total_area, mesh)
        if ok:
            compare(ctx, "nonconvex:total_area", [float(ta)], [float(np.sum(fa))], "area", L, f"{where}: total_area")
        ok, ma = ctx.call("mean_face_area", A.mean_face_area, mesh)
        if ok:
            compare(ctx, "nonconvex:mean_face_area", [float(ma)], [float(np.mean(fa))], "area", L, f"{where}: mean_face_area")
        # corner angles: asserted at the convex corners only (at a reflex corner the library returns the unsigned angle between the
        # two sides, which the docstring 'angles of a face at a vertex' does not exclude)
        ok, attr = ctx.call("corner_angles", A.corner_angles, mesh, persistent=False)
        if ok:
            vals = read_attr(ctx, "corner_angles", attr, sum(len(f) for f in F), 1, where)
            if vals is not None:
                sg = np.array([a for row in R.signed_corner_angles_deg(V, F) for a in row])
                compare(ctx, "nonconvex:corner_angles", vals, R.corner_angles(V, F), "inv", L, f"{where}: corner_angles at convex corners", sg > 0)


# --------------------------------------------------------------------------------------------- ill-conditioned ends, exact oracle

def _isub(p, q):
    return [p[0] - q[0], p[1] - q[1], p[2] - q[2]]


def _icross(u, v):
    return [u[1] * v[2] - u[2] * v[1], u[2] * v[0] - u[0] * v[2], u[0] * v[1] - u[1] * v[0]]


def _idot(u, v):
    return u[0] * v[0] + u[1] * v[1] + u[2] * v[2]


def _inorm(u):
    """Euclidean norm of an integer vector: the squared norm is exact (python ints), one rounding to double, one correctly rounded sqrt"""
    return math.sqrt(_idot(u, u))


@st.composite
def thin_case(draw):
    """Two triangles over a common long edge A=(0,0,0), B=(a,0,0), a in 1e6..1e9, with INTEGER coordinates: apex (b, h) with h = 1..3
    (needle with a right angle, cap with the apex angle within 1e-6..1e-9 of pi, obtuse at A) or h ~ a (well shaped, huge); the second
    triangle lies in the same plane or is folded out of it; the whole is multiplied by 2**k, moved by a signed axis permutation and an
    integer translation - every coordinate stays an integer below 2**51, so edge vectors are exact in double precision."""
    a = draw(st.one_of(st.sampled_from([10 ** 6, 10 ** 7, 10 ** 8, 10 ** 9, 2 ** 20, 2 ** 30, 123456789]), st.integers(10 ** 6, 10 ** 9)))
    kinds = []
    apex = []
    for _ in range(2):
        kind = draw(st.sampled_from(["needle-right", "cap", "obtuse-at-end", "needle-right", "cap", "fat-huge"]))
        if kind == "needle-right":
            b, h = draw(st.sampled_from([0, a])), draw(st.integers(1, 3))
        elif kind == "cap":
            b, h = draw(st.integers(a // 4, 3 * a // 4)), draw(st.integers(1, 3))
        elif kind == "obtuse-at-end":
            b, h = draw(st.one_of(st.integers(-a, -a // 4), st.integers(a + a // 4, 2 * a))), draw(st.integers(1, 3))
        else:
            b, h = draw(st.integers(0, a)), draw(st.integers(a // 4, a))
        kinds.append(kind)
        apex.append((b, h))
    fold = draw(st.sampled_from(["flat", "fold90", "fold45"]))
    (b1, h1), (b2, h2) = apex
    D = {"flat": [b2, -h2, 0], "fold90": [b2, 0, h2], "fold45": [b2, -h2, h2]}[fold]
    P = [[0, 0, 0], [a, 0, 0], [b1, h1, 0], D]
    k = draw(st.integers(0, 10))
    perm = draw(st.permutations([0, 1, 2]))
    sg = [draw(st.sampled_from([1, -1])) for _ in range(3)]
    shift = [draw(st.sampled_from([0, 1, -7, 10 ** 6, -10 ** 9, 3 * 10 ** 11, -2 ** 40])) for _ in range(3)]
    V = [[sg[j] * (2 ** k) * p[perm[j]] + shift[j] for j in range(3)] for p in P]
    return {"V": V, "F": [[0, 1, 2], [1, 0, 3]], "kinds": kinds, "fold": fold, "a": a, "pow2": k, "seed": draw(st.integers(0, 10 ** 6))}


def fn_thin(case, ctx):
    import mouette as M
    A = M.attributes
    Vi = [[int(x) for x in v] for v in case["V"]]
    F = [[int(v) for v in f] for f in case["F"]]
    if F != [[0, 1, 2], [1, 0, 3]] or len(Vi) != 4 or max(abs(x) for v in Vi for x in v) >= 2 ** 52:
        raise AssertionError("thin_exact: unexpected case layout")
    for t in case.get("kinds", []):
        ctx.label("triangle=" + t)
    ctx.label("fold=" + str(case.get("fold")), "coordinates<=1e%d" % len(str(max(abs(x) for v in Vi for x in v))))
    rnd = random.Random(case["seed"])
    V = np.array([[float(x) for x in v] for v in Vi], dtype=float)
    mesh = build_mesh(V, F=F, idx_form=idx_form_of(case["seed"], 4))
    medges = [tuple(ints(e)) for e in mesh.edges]
    if not ctx.check(sorted(medges) == [(0, 1), (0, 2), (0, 3), (1, 2), (1, 3)] and [ints(f) for f in mesh.faces] == F, "edges", "mesh.edges / faces differ from the input"):
        return
    # ---- exact reference
    cr, ar2, nrm = [], [], []
    ang, cot = [], []
    for f in F:
        Pf = [Vi[v] for v in f]
        c = _icross(_isub(Pf[1], Pf[0]), _isub(Pf[2], Pf[0]))
        if not any(c):
            raise AssertionError("thin_exact: degenerate triangle generated")
        cn = _inorm(c)
        cr.append(c); ar2.append(cn); nrm.append([x / cn for x in c])
        for i in range(3):
            u, w_ = _isub(Pf[i - 1], Pf[i]), _isub(Pf[(i + 1) % 3], Pf[i])
            sn, cs = _inorm(_icross(u, w_)), _idot(u, w_)
            ang.append(math.atan2(sn, float(cs)))
            cot.append(float(cs) / sn)
    ang = np.array(ang); cot = np.array(cot); area = np.array(ar2) / 2.0; nrm = np.array(nrm)
    tmin = np.array([ang[0:3].min(), ang[3:6].min()])
    ctx.label("min-angle<=1e-8" if tmin.min() <= 1e-8 else "min-angle<=1e-6" if tmin.min() <= 1e-6 else "min-angle>1e-6")
    ctx.label("max-angle>=pi-1e-6" if ang.max() >= math.pi - 1e-6 else "max-angle<pi-1e-6")
    ctx.nontrivial(tmin.min() <= 1e-5 or max(abs(x) for v in Vi for x in v) >= 10 ** 9)
    elen = np.array([_inorm(_isub(Vi[a_], Vi[b_])) for a_, b_ in medges])
    emid = np.array([[(Vi[a_][j] + Vi[b_][j]) / 2.0 for j in range(3)] for a_, b_ in medges])
    fbar = np.array([[sum(Vi[v][j] for v in f) / 3.0 for j in range(3)] for f in F])
    Lc = float(np.max(np.abs(V)))
    cot_tol = 1e-9 * np.abs(cot) + 1e-13 * cot * cot + 1e-12
    corner_of = {}
    for k_, f in enumerate(F):
        for i in range(3):
            corner_of[(k_, f[i])] = 3 * k_ + i
    cw, cw_tol = [], []
    for (a_, b_) in medges:
        w_ = 0.0; t_ = 1e-12
        for k_, f in enumerate(F):
            if a_ in f and b_ in f:
                c_ = corner_of[(k_, [v for v in f if v not in (a_, b_)][0])]
                w_ += cot[c_] / 2; t_ += cot_tol[c_]
        cw.append(w_); cw_tol.append(t_)
    asum = np.zeros(4)
    for k_, f in enumerate(F):
        for i in range(3):
            asum[f[i]] += ang[3 * k_ + i]

    def elementwise(sig, got, exp, tol, what):
        got = np.asarray(got, dtype=float); exp = np.asarray(exp, dtype=float)
        tol = np.broadcast_to(np.asarray(tol, dtype=float).reshape((-1,) + (1,) * (exp.ndim - 1)) if np.ndim(tol) else tol, exp.shape)
        bad = ~(np.abs(got - exp) <= tol * THIN_TOL_SCALE) if got.shape == exp.shape else None
        if bad is None:
            return ctx.check(False, sig + ":shape", f"{what}: shape {got.shape}, expected {exp.shape}")
        if not bad.any():
            ctx.n_assert += 1
            return True
        i = tuple(int(x) for x in np.argwhere(bad)[0])
        return ctx.check(False, sig, f"{what}: element {i}: library {got[i]!r} vs exact-arithmetic reference {exp[i]!r} (|diff| {abs(got[i] - exp[i]):.3e} > tol {float(tol[i]):.3e}); "
                         f"integer coordinates {Vi}, exact corner angles {ang.tolist()}")

    uid = [0]

    def run(fname, n, dim, **extra):
        uid[0] += 1
        p_, d_ = COMBOS[rnd.randrange(4)]
        kw = dict(extra, name=f"c07_thin_{uid[0]}", persistent=p_, dense=d_)
        style = CALL_STYLES[rnd.randrange(len(CALL_STYLES))]
        args, kwargs = spell_call(fname, mesh, kw, style, rnd)
        ok, attr = ctx.call("thin:" + fname, getattr(A, fname), *args, **kwargs)
        if not ok:
            return None, ""
        return read_attr(ctx, "thin:" + fname, attr, n, dim, fname), show_call(fname, args, kwargs)

    cache_first = rnd.randrange(2) == 0       # corner angles stored under their documented name first: cotangent / defects then read them
    steps = ["face_area", "edge_length", "edge_middle_point", "face_barycenter", "face_normals", "corner_angles", "cotangent", "cotan_weights",
             "angle_defects", "angle_defects0", "vertex_normals", "globals"]
    rnd.shuffle(steps)
    if cache_first:
        ctx.call("thin:corner_angles", A.corner_angles, mesh)
        ctx.label("angles-cached-first")
    for step in steps:
        if step == "face_area":
            v, d = run("face_area", 2, 1)
            if v is not None:
                elementwise("thin:face_area", v, area, 1e-12 * area, d)
        elif step == "edge_length":
            v, d = run("edge_length", 5, 1)
            if v is not None:
                elementwise("thin:edge_length", v, elen, 1e-12 * elen, d)
        elif step == "edge_middle_point":
            v, d = run("edge_middle_point", 5, 3)
            if v is not None:
                elementwise("thin:edge_middle_point", v, emid, 1e-12 * Lc, d)
        elif step == "face_barycenter":
            v, d = run("face_barycenter", 2, 3)
            if v is not None:
                elementwise("thin:face_barycenter", v, fbar, 1e-12 * Lc, d)
        elif step == "face_normals":
            v, d = run("face_normals", 2, 3)
            if v is not None:
                elementwise("thin:face_normals", v, nrm, 1e-9 + 1e-14 / tmin, d)
        elif step == "corner_angles":
            v, d = run("corner_angles", 6, 1)
            if v is not None:
                if elementwise("thin:corner_angles", v, ang, 1e-9 * ang + 1e-13, d):
                    s_ = v.reshape(2, 3).sum(axis=1)
                    ctx.check(bool(np.all(np.abs(s_ - math.pi) <= 1e-9)), "thin:angle-sum", f"{d}: corner angles of the triangles sum to {s_.tolist()}, not pi")
        elif step == "cotangent":
            v, d = run("cotangent", 6, 1)
            if v is not None:
                elementwise("thin:cotangent", v, cot, cot_tol, d + (" [angles cached]" if cache_first else ""))
        elif step == "cotan_weights":
            v, d = run("cotan_weights", 5, 1)
            if v is not None:
                elementwise("thin:cotan_weights", v, np.array(cw), np.array(cw_tol), d)
        elif step in ("angle_defects", "angle_defects0"):
            zb = step.endswith("0")
            v, d = run("angle_defects", 4, 1, zero_border=zb)
            if v is not None:       # every vertex of the two triangles is on the border
                elementwise("thin:angle_defects", v, np.zeros(4) if zb else math.pi - asum, 1e-9, d)
        elif step == "vertex_normals":
            mode = ("uniform", "area", "angle")[rnd.randrange(3)]
            wsum = np.zeros((4, 3)); wtot = np.zeros(4)
            for k_, f in enumerate(F):
                for i in range(3):
                    w_ = 1.0 if mode == "uniform" else area[k_] if mode == "area" else ang[3 * k_ + i]
                    wsum[f[i]] += w_ * nrm[k_]; wtot[f[i]] += w_
            ln = np.linalg.norm(wsum, axis=1)
            if np.all(ln / wtot >= 0.05):
                v, d = run("vertex_normals", 4, 3, interpolation=mode)
                if v is not None:
                    elementwise("thin:vertex_normals", v, wsum / ln[:, None], 1e-8 + 1e-13 / tmin.min(), d)
        else:
            for fname, exp in (("total_area", float(np.sum(area))), ("mean_face_area", float(np.mean(area))), ("mean_edge_length", float(np.mean(elen)))):
                ok, v = ctx.call("thin:" + fname, getattr(A, fname), mesh)
                if ok:
                    elementwise("thin:" + fname, [float(v)], [exp], 1e-12 * exp, fname + "(mesh)")
    mesh_unchanged(ctx, mesh, V, "thin / huge integer mesh", F=F)


# --------------------------------------------------------------------------------------------- element counts beyond 2**16 / 10**5

# development aid: C07_THIN_TOL_SCALE=0.01 shows how far inside its tolerances the unchanged library stays (default 1)
THIN_TOL_SCALE = float(os.environ.get("C07_THIN_TOL_SCALE", "1"))
LARGE_KINDS = ["tri-grid", "tri-grid-edges", "quad-grid", "tet-grid"]


@st.composite
def large_case(draw):
    """parameters only (the mesh is built deterministically from them inside the check, a 70 000-element case does not belong in a JSON
    file): kind, seed of the jitter and of the choice of functions, rotation"""
    return {"kind": draw(st.sampled_from(LARGE_KINDS)), "seed": draw(st.integers(0, 10 ** 6)),
            "quat": list(draw(st.tuples(*[st.integers(-9, 9)] * 4).filter(lambda t: any(t)))), "rows": draw(st.sampled_from(["int32", "list", "uint32", "int64"]))}


def large_mesh_arrays(kind, seed, quat):
    rs = np.random.RandomState(seed % (2 ** 31))
    Rm = R.quat_to_matrix(quat)
    if kind in ("tri-grid", "tri-grid-edges", "quad-grid"):
        # tri-grid: 66 976 faces, 100 830 edges, 200 928 corners; tri-grid-edges: 66 008 edges (43 808 faces);
        # quad-grid: 66 564 vertices, 66 049 faces, 132 612 edges, 264 196 corners; tet-grid: 66 654 cells, 136 298 faces
        nu, nv = {"tri-grid": (184, 182), "tri-grid-edges": (148, 148), "quad-grid": (257, 257)}[kind]
        xs, ys = np.meshgrid(np.arange(nu + 1, dtype=float), np.arange(nv + 1, dtype=float))
        V = np.stack([xs.ravel(), ys.ravel(), np.zeros(xs.size)], axis=1)
        V[:, :2] += rs.uniform(-0.15, 0.15, (len(V), 2))
        if kind != "quad-grid":
            V[:, 2] = rs.uniform(-0.3, 0.3, len(V))
        i, j = np.meshgrid(np.arange(nu), np.arange(nv))
        a = (j * (nu + 1) + i).ravel(); b = a + 1; c = b + nu + 1; d = a + nu + 1
        if kind != "quad-grid":
            F = np.stack([np.stack([a, b, c], axis=1), np.stack([a, c, d], axis=1)], axis=1).reshape(-1, 3)
        else:
            F = np.stack([a, b, c, d], axis=1)
        return V @ Rm.T + np.array([3.0, -2.0, 1.0]), F, None
    nx, ny, nz = 23, 23, 21
    g = np.stack(np.meshgrid(np.arange(nx + 1), np.arange(ny + 1), np.arange(nz + 1), indexing="ij"), axis=-1).reshape(-1, 3)
    vid = lambda q: (q[..., 2] * (ny + 1) + q[..., 1]) * (nx + 1) + q[..., 0]
    V = np.zeros((len(g), 3))
    V[vid(g)] = g
    V += rs.uniform(-0.05, 0.05, V.shape)
    base = np.stack(np.meshgrid(np.arange(nx), np.arange(ny), np.arange(nz), indexing="ij"), axis=-1).reshape(-1, 3)
    import itertools
    cells = []
    for pm in itertools.permutations(range(3)):       # Kuhn subdivision: 6 tetrahedra per cube
        q = base.copy(); col = [vid(q)]
        for ax in pm:
            q = q.copy(); q[:, ax] += 1; col.append(vid(q))
        cells.append(np.stack(col, axis=1))
    C = np.stack(cells, axis=1).reshape(-1, 4)
    return V @ Rm.T + np.array([3.0, -2.0, 1.0]), None, C


def _vangles(P, Q, S):
    """angle at Q between Q->P and Q->S, vectorised"""
    u, w = P - Q, S - Q
    return np.arctan2(np.linalg.norm(np.cross(u, w), axis=1), np.einsum("ij,ij->i", u, w))


def fn_large(case, ctx):
    import mouette as M
    A = M.attributes
    kind = case["kind"]
    rnd = random.Random(case["seed"])
    V, F, C = large_mesh_arrays(kind, case["seed"], case["quat"])
    ctx.label("kind=" + kind, "rows=" + case["rows"])
    rows = (F if C is None else C)
    rows = rows.tolist() if case["rows"] == "list" else list(rows.astype(getattr(np, case["rows"])))
    from mouette.mesh.mesh_data import RawMeshData
    raw = RawMeshData()
    raw.vertices += list(V.copy())
    if C is None:
        raw.faces += rows
        mesh = M.mesh.SurfaceMesh(raw)
    else:
        raw.cells += rows
        mesh = M.mesh.VolumeMesh(raw)
    E = np.array([ints(e) for e in mesh.edges], dtype=np.int64).reshape(-1, 2)
    nV, nE = len(V), len(E)
    if C is None:
        k = F.shape[1]
        allE = np.sort(np.concatenate([F[:, [i, (i + 1) % k]] for i in range(k)]), axis=1)
        MF = F
    else:
        allE = np.sort(np.concatenate([C[:, [i, j]] for i in range(4) for j in range(i + 1, 4)]), axis=1)
        MF = np.array([ints(f) for f in mesh.faces], dtype=np.int64).reshape(-1, 3)
        expF = np.unique(np.sort(np.concatenate([C[:, [j for j in range(4) if j != i]] for i in range(4)]), axis=1), axis=0)
        if not ctx.check(len(MF) == len(expF) and bool(np.array_equal(np.unique(np.sort(MF, axis=1), axis=0), expF)), "faces", "large tet mesh: mesh.faces is not the set of cell triangles"):
            return
    uE, cntE = np.unique(allE, axis=0, return_counts=True)
    if not ctx.check(nE == len(uE) and bool(np.array_equal(np.unique(E, axis=0), uE)) and bool(np.all(E[:, 0] < E[:, 1])), "edges", f"large mesh ({kind}): mesh.edges is not the set of element sides"):
        return
    nF = len(MF)
    sizes = {"V": nV, "E": nE, "F": nF, "C": MF.size if C is None else 0, "K": 0 if C is None else len(C)}
    for key_, n_ in sizes.items():
        if n_ > 2 ** 16:
            ctx.label(f"#{key_}>2**16")
        if n_ > 10 ** 5:
            ctx.label(f"#{key_}>10**5")
    ctx.nontrivial(True)
    elen = np.linalg.norm(V[E[:, 0]] - V[E[:, 1]], axis=1)
    L = Mag(float(np.max(np.abs(V)))); L.cond = float(L) / float(elen.min())
    P = [V[MF[:, i]] for i in range(MF.shape[1])]
    if MF.shape[1] == 3:
        crs = np.cross(P[1] - P[0], P[2] - P[0])
        area = 0.5 * np.linalg.norm(crs, axis=1)
    else:
        crs = np.cross(P[1] - P[0], P[2] - P[0])
        area = 0.5 * np.linalg.norm(np.cross(P[2] - P[0], P[3] - P[1]), axis=1)       # planar convex quads
    kf = MF.shape[1]
    where = f"large mesh ({kind}, {nV} vertices, {nE} edges, {nF} faces" + (f", {len(C)} cells)" if C is not None else ")")

    def attr_call(fname, q, n, dim, exp, kindq, mask=None, **extra):
        p_, d_ = COMBOS[rnd.randrange(4)]
        kw = dict(extra, name="c07_large_" + q, persistent=p_, dense=d_)
        style = CALL_STYLES[rnd.randrange(len(CALL_STYLES))]
        args, kwargs = spell_call(fname, mesh, kw, style, rnd)
        ok, attr = ctx.call(fname, getattr(A, fname), *args, **kwargs)
        if ok:
            vals = read_attr(ctx, fname, attr, n, dim, where)
            if vals is not None:
                compare(ctx, "large:" + fname, vals, exp, kindq, L, f"{where}: {show_call(fname, args, kwargs)}", mask)

    def mean_call(fname, per_elem, kindq, both=True):
        N = len(per_elem)
        ns = (None, (2 ** 16 + 1, N - 1, min(N, 10 ** 5 + 1), np.int64(2 ** 16))[rnd.randrange(4)])
        for n in (ns if both else ns[rnd.randrange(2):][:1]):
            ok, v = ctx.call(fname, getattr(A, fname), mesh) if n is None else ctx.call(fname, getattr(A, fname), mesh, n)
            if ok:
                kk = N if n is None else min(int(n), N)
                compare(ctx, "large:" + fname + ("" if n is None else ":n"), [float(v)], [float(np.mean(per_elem[:kk]))], kindq, L, f"{where}: {fname}(mesh, {n!r}) [mean of the first {kk}]")

    # menu: (estimated seconds on an idle machine, walks a container beyond 2**16 elements?, action); a seeded choice worth about
    # 1.6 s (quick tier) / 6 s (thorough tier) is made per case, loops over the container(s) this kind of mesh was sized for first
    big = {k_ for k_, n_ in sizes.items() if n_ > 2 ** 16}
    menu = [(0.4, "E", lambda: attr_call("degree", "degree", nV, 1, np.bincount(E.ravel(), minlength=nV).astype(float), "int")),
            (0.9, "E", lambda: attr_call("edge_length", "length", nE, 1, elen, "len")),
            (0.8, "E", lambda: mean_call("mean_edge_length", elen, "len")),
            (1.0, "E", lambda: attr_call("edge_middle_point", "middle", nE, 3, (V[E[:, 0]] + V[E[:, 1]]) / 2, "point")),
            (0.9 * kf / 3, "F", lambda: attr_call("face_area", "area", nF, 1, area, "area")),
            (1.0 * kf / 3, "F", lambda: mean_call("mean_face_area", area, "area")),
            (1.2, "F", lambda: attr_call("face_barycenter", "fbary", nF, 3, sum(P) / kf, "point")),
            (0.6, "V", lambda: compare(ctx, "large:barycenter", np.asarray(A.barycenter(mesh), dtype=float), V.mean(axis=0), "point", L, f"{where}: barycenter"))]
    if C is None:
        ang = np.stack([_vangles(P[i - 1], P[i], P[(i + 1) % kf]) for i in range(kf)], axis=1)      # (nF, kf), corner 'kf*face + i'
        fn_ = crs / np.linalg.norm(crs, axis=1)[:, None]
        border = np.zeros(nV, dtype=bool); border[uE[cntE == 1].ravel()] = True
        menu += [(1.0 * kf / 3, "F", lambda: compare(ctx, "large:total_area", [float(A.total_area(mesh))], [float(area.sum())], "area", L, f"{where}: total_area(mesh)")),
                 (1.8, "F", lambda: attr_call("face_normals", "fnormal", nF, 3, fn_, "dir")),
                 (1.5 * kf, "C", lambda: attr_call("corner_angles", "angles", nF * kf, 1, ang.ravel(), "inv")),
                 (0.1, "E", lambda: compare(ctx, "large:euler_characteristic", [float(A.euler_characteristic(mesh))], [float(nV - nE + nF)], "int", L, f"{where}: euler_characteristic"))]

        def vnormals():
            mode = ("uniform", "area", "angle")[rnd.randrange(3)]
            acc = np.zeros((nV, 3))
            for i in range(kf):
                w_ = np.ones(nF) if mode == "uniform" else area if mode == "area" else ang[:, i]
                np.add.at(acc, MF[:, i], w_[:, None] * fn_)
            attr_call("vertex_normals", "vn", nV, 3, acc / np.linalg.norm(acc, axis=1)[:, None], "dir", interpolation=mode)
        if rnd.randrange(4) == 0:
            menu.append((4.5 if kf == 3 else 8.0, "V", vnormals))

        def f2v():
            from mouette.mesh.mesh_attributes import ArrayAttribute
            x = np.random.RandomState(case["seed"] % 1000 + 1).uniform(-1, 1, nF)
            w_ = ("uniform", "sum")[rnd.randrange(2)]
            fa = ArrayAttribute(float, nF)
            for i_ in range(nF):
                fa[i_] = float(x[i_])
            ok, r = ctx.call("interpolate_faces_to_vertices", A.interpolate_faces_to_vertices, mesh, fa, ArrayAttribute(float, nV), weight=w_)
            if ok:
                vals = read_attr(ctx, "interpolate_faces_to_vertices", r, nV, 1, where)
                acc = np.zeros(nV); cnt = np.zeros(nV)
                for i in range(kf):
                    np.add.at(acc, MF[:, i], x); np.add.at(cnt, MF[:, i], 1.0)
                if vals is not None:
                    compare(ctx, "large:interpolate_faces_to_vertices", vals, acc if w_ == "sum" else acc / cnt, "inv", L, f"{where}: interpolate_faces_to_vertices(weight={w_!r})")
        menu.append((1.5, "V", f2v))
        if kf == 3:
            def defects():
                zb = rnd.randrange(2) == 0
                asum = np.zeros(nV)
                for i in range(3):
                    np.add.at(asum, MF[:, i], ang[:, i])
                exp = np.where(border, 0.0 if zb else math.pi - asum, 2 * math.pi - asum)
                attr_call("angle_defects", "defect", nV, 1, exp, "inv", zero_border=zb)
            menu.append((5.0, "C", defects))
            menu.append((7.0, "C", lambda: attr_call("cotangent", "cotan", nF * 3, 1, 1.0 / np.tan(ang.ravel()), "inv")))
    else:
        Q = [V[C[:, i]] for i in range(4)]
        det = np.einsum("ij,ij->i", np.cross(Q[0] - Q[3], Q[1] - Q[3]), Q[2] - Q[3])
        if float(np.min(np.abs(det))) < 0.2:
            raise AssertionError("large tet grid: a cell is nearly flat")
        vol = np.abs(det) / 6.0
        menu = [m_ for m_ in menu if m_[1] != "F"]          # 136 298 faces: left to the surface kinds
        menu += [(1.5, "K", lambda: attr_call("cell_volume", "volume", len(C), 1, vol, "vol")),
                 (1.5, "K", lambda: mean_call("mean_cell_volume", vol, "vol")),
                 (2.2, "K", lambda: attr_call("cell_barycenter", "cbary", len(C), 3, sum(Q) / 4, "point"))]
    target = {"tri-grid": "F", "tri-grid-edges": "E", "quad-grid": "V", "tet-grid": "K"}[kind]
    menu = [m_ for m_ in menu if m_[1] in big]
    rnd.shuffle(menu)
    menu.sort(key=lambda m_: m_[1] != target)          # (stable) the loops over the target container first
    # in every case: the cheapest loop beyond 2**16 (the first n > 2**16 edges, or all of them)
    mean_call("mean_edge_length", elen, "len", both=False)
    spent = 0.0
    budget = 1.6 if ctx.tier == "quick" else 6.0          # (the tier is stored in a replay file)
    menu = [m_ for m_ in menu if m_[0] <= 1.5 * budget]     # corner_angles / angle_defects / cotangent / vertex_normals: thorough tier only
    for cost, _, act in menu:
        if spent > 0 and spent + cost > budget:
            continue
        spent += cost
        act()

def self_test():
    R.self_test()
    # the variant laws on a literal case: a unit right triangle moved by a quarter turn about z and (1,2,3)
    Rm = R.quat_to_matrix([1, 0, 0, 1])
    v = Variant("rigid", Rm, np.array([1., 2., 3.]))
    assert np.allclose(v.expect("fnormal", np.array([[1., 0, 0]])), [[0, 1, 0]])
    assert np.allclose(v.expect("fbary", np.array([[1., 0, 0]])), [[1, 3, 3]])
    assert np.allclose(Variant("scale", s=2.0).expect("area", np.array([1.5])), [6.0])
    V, F = hexgrid(2, 2)
    assert SurfRef(len(V), F).validate() is None


SUBCHECKS = [
    SubCheck("tri_surface", tri_case(), fn_surface, quick=480, thorough=600),
    SubCheck("poly_surface", poly_case(), fn_surface, quick=400, thorough=500),
    SubCheck("tet_volume", tet_case(), fn_tets, quick=240, thorough=300),
    SubCheck("interpolation", interp_case(), fn_interp, quick=240, thorough=250),
    SubCheck("nonconvex_face", nonconvex_case(), fn_nonconvex, quick=200, thorough=200),
    SubCheck("thin_exact", thin_case(), fn_thin, quick=160, thorough=200),
    SubCheck("large_mesh", large_case(), fn_large, quick=1, thorough=1, watchdog=(150, 400)),
]

def kf_nonconvex_faces(case, violation):
    """F-C07-3: face_area (quads: mean of the two triangulations; >= 5 sides: unsigned fan about the mean of the vertices) and
    face_normals (first three vertices) are not right on every non-convex face. Narrow: only the dedicated sub-check, only these
    signatures, and only where those very algorithms cannot be exact: a non-convex quad or a polygon whose vertex mean lies outside
    its kernel (areas); the corner at the second listed vertex - of the face list of the failing variant - is reflex (normals)."""
    if violation.sub_check != "nonconvex_face":
        return False
    V = np.array(case["V"], dtype=float)
    f = [int(v) for v in case["F"][0]]
    if violation.message.startswith("face vertex list rotated by"):
        r = int(case["rot"]) % len(f)
        f = f[r:] + f[:r]
    P = V[f]
    if violation.signature in ("nonconvex:face_area", "nonconvex:total_area", "nonconvex:mean_face_area"):
        return library_area_expected_exact(P) is not True
    if violation.signature == "nonconvex:face_normals":
        return library_normal_expected_exact(P) is not True
    return False


def _min_double_area(case):
    V = np.array(case["V"], dtype=float)
    if "C" in case:
        tris = [[c[j] for j in range(4) if j != i] for c in case["C"] for i in range(4)]
    else:
        tris = [f for f in case["F"] if len(f) == 3]
    return 2 * float(np.min(R.face_areas(V, tris))) if tris else float("inf")


def kf_circumcenter_tiny_triangle(case, violation):
    """(only reachable with PENDING['circumcenter_tiny']) face_circumcenter fails / is wrong on the scaled mesh when a triangle has
    2*area < 1e-10: geometry.intersect_2lines2D calls the two bisectors parallel because |det| < 1e-12 is an absolute test"""
    if violation.sub_check not in ("tri_surface", "poly_surface", "tet_volume"):
        return False
    if "face_circumcenter" not in violation.signature and "circum" not in violation.signature:
        return False
    s = float(case.get("scale", 1.0))
    return "scaled by" in violation.message and _min_double_area(case) * s * s < 1e-10


def kf_reused_output(case, violation):
    """(only reachable with PENDING['reused_output']) a second interpolation into the same output attribute accumulates"""
    return violation.sub_check == "interpolation" and violation.signature.startswith("reused-output:") and \
        violation.signature.split(":")[1] in ("interpolate_faces_to_vertices", "average_corners_to_vertices", "average_corners_to_faces")


def kf_recall_existing(case, violation):
    """(only reachable with PENDING['recall_existing']) with config.display_duplicate_attribute_warning = True the second all-default
    call of degree / angle_defects / cotan_weights / face_area (>4 sides; also after mean_face_area) adds to the existing attribute"""
    if not case.get("dup_switch") or violation.sub_check not in ("tri_surface", "poly_surface", "tet_volume"):
        return False
    sig = violation.signature.split(":")
    return len(sig) >= 2 and sig[0] in ("ref", "variants", "register", "meta") and any(
        f in violation.signature for f in ("degree", "angle_defects", "cotan_weights", "face_area", "total_area", "mean_face_area",
                                           "defect", "cotw", "area"))


def kf_output_default(case, violation):
    """(only reachable with PENDING['output_default']) interpolation into an output attribute that was created with a non-zero default
    value starts its sums from that default (interpolate_vertices_to_faces; 'area' / 'angle' modes of interpolate_faces_to_vertices;
    average_corners_to_vertices; 'uniform' / 'angle' modes of average_corners_to_faces)"""
    return violation.sub_check == "interpolation" and violation.signature.split(":")[0] in ("const", "ref", "reused-output") and \
        "default 7.0>" in violation.message


MATCHERS = {"kf_output_default": kf_output_default, "kf_recall_existing": kf_recall_existing, "kf_nonconvex_faces": kf_nonconvex_faces, "kf_circumcenter_tiny_triangle": kf_circumcenter_tiny_triangle,
            "kf_reused_output": kf_reused_output}
