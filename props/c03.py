"""C03 - volume connectivity answers agree with the cell list; boundary extraction."""
import random
from collections import Counter
import numpy as np
from hypothesis import strategies as st
from vlib.runner import SubCheck
from vlib import gen_tets as GT
from vlib.topo import TetRef, SurfRef, key
from vlib.build import volume_from, ints, coords

PROPERTY = "C03"
RULE = ("Generated conforming tetrahedral meshes (single/two tets, fans around an edge, Kuhn subdivisions of box grids, 3-D "
        "Delaunay, 1-4 splits and cell removals; vertex renumbering, cell order and per-cell vertex permutation, orientation "
        "parity all-positive / all-negative / mixed) x neighbourhood sorting on/off x a generated query sequence on a fresh "
        "mesh + full sweep in shuffled kind order on a second fresh mesh + boundary extraction (boundary connectivity object "
        "and standalone extractor). One base shape is a 3x3x3 block of cubes with the centre cube missing (boundary with a cavity "
        "component). Argument spellings: element ids as int / numpy int64 / numpy int32 (per case, also for the boundary connectivity "
        "object); cell rows as list / tuple / numpy int64 / numpy int32 rows, vertex rows as list / tuple / numpy; the mesh constructor "
        "and the standalone extractor called positionally or by their documented keyword (data= / mesh=); in_cell_index, edge_id, "
        "is_cell_tet and the boundary object's in_face_index by position or by documented keyword; the config flags (sort_neighborhoods, "
        "duplicate-attribute switch) as bool / numpy.bool_ / 0-1; the vertices of a face go to face_id unpacked, as ONE re-iterable "
        "container (list / tuple / numpy / set / frozenset / dict keys / deque / the mesh's own face row) or as ONE one-shot iterator "
        "(iter / generator / map / reversed / chain), and vertex tuples that are no face (arbitrary triple, 2 or 4 vertices) / no edge "
        "(arbitrary pair, u == u) must give None. Query kind 'chained': the arguments are the library's own answers handed on exactly as "
        "they came (cells of a face -> cell_to_face / in_cell_face_index / other_face_side; neighbours of a cell -> common_face -> "
        "face_to_cells; the vertex row of a cell -> in_cell_index / face_id / is_face_on_border / edge_id / vertex_to_cell; the mesh's "
        "own edge row -> edge_id / is_edge_on_border, cells and faces around the edge -> cell_to_edge / face_to_cells; cells of a vertex "
        "-> in_cell_index; elements of the border / interior lists -> the is_*_on_border tests, n_F2C, other_face_side), every "
        "intermediate and final answer compared with the reference. Histories: a query may be issued twice in a row; "
        "enable_boundary_connectivity and extract_boundary_of_volume also occur INSIDE the query sequence; the boundary object / the "
        "extractor run on a fresh mesh, on the mesh that answered the sequence, on the swept mesh or (extractor) on the mesh whose "
        "boundary object was just built; enable_boundary_connectivity twice before anything is read, and again after everything was "
        "read. The boundary object is asked at the boundary elements with boundary index 0 and the last one and volume id min / max. "
        "Geometry ends (orientation test only): uniform scales 1e-6..1e6, one axis squeezed by 2**-20..2**-40 (exact), coordinates on "
        "a 2**-10 grid translated by up to 2**40 per axis (exactly representable; the outward oracle is evaluated on the untranslated "
        "coordinates). Minimal: meshes without cells (no-argument / None / data=None / empty RawMeshData constructor, vertices only). "
        "Size regime (huge): Kuhn grids with > 65536 cells but < 65536 vertices (24^3 vertices, 73002 cells) and slabs, "
        "vertex_to_cell for every vertex, cell / face / edge tables sampled at both ends of the id range, border lists, boundary "
        "extraction; a fan of 66000 cells around ONE edge (closed / open: > 65536 cells, vertices and border faces; the walk around the "
        "hub edge visits every cell). "
        "non-trivial = >=2 cells and >=1 interior face (huge: > 65536 cells or vertices; minimal: always); distinct = distinct (cells, sort, sequence).")
ASSUMPTIONS = ["cells are tetrahedra forming a conforming complex whose boundary is a manifold surface",
               "'positively oriented' = det(pA-pD,pB-pD,pC-pD) > 0 for a cell (A,B,C,D), the library's own signed volume",
               "ids may be numpy signed integers (int64 / int32) as well as int: that is what iterating numpy index arrays or the rows of a "
               "mesh built from numpy cells yields, and what the library itself hands out for such a mesh; unsigned / narrower types are not generated",
               "face_id accepts, besides the documented unpacked integers, ONE iterable of vertex ids (the library builds the key of a face row "
               "that way itself and reads it once); a vertex tuple that is no face / no edge gets None (docstrings of face_id / edge_id)",
               "a config flag is any truthy / falsy value of bool, numpy.bool_ or int 0/1",
               "a mesh without cells is a (vacuously) conforming tetrahedral mesh: its border lists and its boundary surface are empty",
               "keyword spellings are used only for parameter names a docstring documents (C, V / V1, V2 / ic / F, V / mesh / data)",
               "the caller's containers are NOT mutated after construction: the mesh shares its rows with the RawMeshData it was built from by design"]

KINDS = ["face_to_cells", "cell_to_face", "cell_to_cell", "edge_to_cell", "edge_to_face", "vertex_to_cell", "cell_to_edge",
         "in_cell_index", "in_cell_face_index", "common_face", "other_face_side", "is_face_on_border", "is_face_on_border_v",
         "is_edge_on_border", "is_edge_on_border_uv", "is_vertex_on_border", "border_faces", "border_edges", "border_vertices",
         "cell_to_vertex", "face_id", "edge_id", "clear_caches", "n_F2C", "is_tetrahedral", "poke_invalid",
         "chained", "enable_boundary", "extract_boundary"]
SEQ_KINDS = KINDS + ["chained", "chained", "face_id"]
N_CHAIN = 6          # variants of the 'chained' kind

ID_TYPES = ("int", "int64", "int32")
FLAG_FORMS = ("bool", "numpy_bool", "int")
# how the vertices of a face are handed to face_id: unpacked integers, ONE re-iterable container, or ONE one-shot iterator
FACE_ID_FORMS = ["unpacked", "list", "tuple", "numpy", "set", "frozenset", "dict_keys", "deque", "own-row",
                 "iter", "generator", "map", "reversed", "chain"]
ONE_SHOT_FORMS = ("iter", "generator", "map", "reversed", "chain")
REITERABLE_FORMS = ("list", "tuple", "numpy", "set", "frozenset", "dict_keys", "deque", "own-row")
NONFACE_VARIANTS = ("arbitrary-triple", "face-minus-one-vertex", "face-plus-one-vertex")
GRID = 1024.0        # coordinates of translated meshes live on a 2**-10 grid


def quantised(V, C):
    """V rounded to the 2**-10 grid if that keeps the mesh valid and no cell loses more than half its volume, else None"""
    Vq = [[round(x * GRID) / GRID for x in v] for v in V]
    d0 = [GT.lib_det(V, c) for c in C]; d1 = [GT.lib_det(Vq, c) for c in C]
    if all(x * y > 0 and abs(y) >= 0.5 * abs(x) for x, y in zip(d0, d1)) and GT.valid(Vq, C):
        return Vq
    return None


@st.composite
def case_strategy(draw, max_cells=40):
    t = draw(GT.tets(max_cells=max_cells))
    first = draw(st.sampled_from(SEQ_KINDS))
    qs = st.tuples(st.sampled_from(SEQ_KINDS), st.integers(0, 10 ** 6), st.integers(0, 10 ** 6), st.integers(0, 10 ** 6))
    rest = draw(st.lists(qs, min_size=5, max_size=40))
    V = t["V"]
    via = draw(st.sampled_from([None, None, None, "tet", "mesh", "geogram_ascii"]))
    scale = draw(st.sampled_from([1.0, 1.0, 1.0, 1e-6, 1e-3, 1e3, 1e6]))
    # geometry ends of the orientation test, exact by construction: one axis squeezed by a power of two; grid coordinates translated far away
    geo = draw(st.sampled_from([None, None, None, None, None, "offset", "offset", "squeeze"]))
    offset = squeeze = None
    if geo == "offset":
        Vq = quantised(V, t["C"])
        if Vq is not None:
            V = Vq
            offset = [draw(st.sampled_from([0, 2 ** 20, -2 ** 30, 2 ** 40, -2 ** 40, 3 * 2 ** 38])) for _ in range(3)]
            if not any(offset):
                offset[draw(st.integers(0, 2))] = 2 ** 40
    elif geo == "squeeze":
        squeeze = [draw(st.integers(0, 2)), draw(st.sampled_from([20, 30, 40]))]
    if offset or squeeze:
        via, scale = None, 1.0         # (what a file keeps of such coordinates is C04's business)
    return {"V": V, "C": t["C"], "tags": t["tags"], "sort": draw(st.booleans()),
            "queries": [[first, draw(st.integers(0, 10 ** 6)), draw(st.integers(0, 10 ** 6)), draw(st.integers(0, 10 ** 6))]] + [list(q) for q in rest],
            "sweep_seed": draw(st.integers(0, 1000)),
            # cell rows as list / tuple / numpy rows (int64, int32); vertex rows as list / tuple / numpy; constructor argument by position / keyword
            "form": draw(st.sampled_from(["list", "list", "tuple", "numpy", "numpy32"])), "vform": draw(st.sampled_from(["list", "list", "tuple", "numpy"])),
            "ctor_kw": draw(st.booleans()),
            # element ids handed to the queries as plain int or as the numpy integers loops over index arrays produce
            "id_type": draw(st.sampled_from(["int", "int", "int64", "int32"])),
            # config flags as bool / numpy.bool_ / 0-1
            "flag_form": draw(st.sampled_from(["bool", "bool", "numpy_bool", "int"])),
            # how the mesh object under test is produced: directly, or written to a file and loaded back ("however a mesh is built")
            "via": via,
            "prequery_before_save": draw(st.booleans()),
            "scale": scale, "offset": offset, "squeeze": squeeze,
            "pre_border": draw(st.sampled_from([None, None, None, "bool", "bool", "int"])), "pre_border_seed": draw(st.integers(0, 1000)),
            "dup_warn": draw(st.integers(0, 3)) == 0,
            # which mesh object the boundary connectivity object / the standalone extractor work on
            "bnd_on": draw(st.sampled_from(["fresh", "fresh", "queried", "swept"])),
            "ext_on": draw(st.sampled_from(["fresh", "fresh", "queried", "swept", "boundary-enabled"])),
            "enable_twice": draw(st.booleans())}


def id_type_of(case):
    case = case or {}
    return case.get("id_type") or ("int64" if case.get("np_ids") else "int")


def id_conv(case):
    """how an integer id of this case is handed to the library"""
    t = id_type_of(case)
    return {"int": int, "int64": np.int64, "int32": np.int32}[t]


def flag(case, value):
    """a config flag in the spelling of this case"""
    f = (case or {}).get("flag_form", "bool")
    value = bool(value)
    return np.bool_(value) if f == "numpy_bool" else int(value) if f == "int" else value


def as_list(r, what):
    """the library's answer as a list of its own elements (handed on as they came), validated to be integer ids"""
    from vlib.runner import MalformedAnswer
    try:
        items = list(r)
    except TypeError as e:
        raise MalformedAnswer(f"{what}: the library returned {r!r:.200} where a sequence of ids is expected ({e})")
    ints(items)
    return items


def face_id_form(q):
    """the argument form a face_id query uses (a function of the query alone; c is mixed so that small values spread over all forms)"""
    if len(q) > 4:
        return q[4]
    c = q[3] if len(q) > 3 else 1
    return FACE_ID_FORMS[((((c // 4) * 2654435761) % 2 ** 32) >> 16) % len(FACE_ID_FORMS)]


def face_id_args(form, elems, own_row, rnd):
    """the positional arguments of face_id for vertex ids `elems` (a list) in the given form. own_row: the mesh's own row of that
    face (or None). One-shot forms can be read once only - a fresh one is made for every call."""
    if form == "unpacked":
        return tuple(elems)
    if form == "own-row" and own_row is None:
        form = "list"
    if form == "list": one = list(elems)
    elif form == "tuple": one = tuple(elems)
    elif form == "numpy": one = np.array([int(x) for x in elems], dtype=(np.int32 if rnd.randrange(2) else np.int64))
    elif form == "set": one = set(elems)
    elif form == "frozenset": one = frozenset(elems)
    elif form == "dict_keys": one = dict.fromkeys(elems).keys()
    elif form == "deque":
        import collections
        one = collections.deque(elems)
    elif form == "own-row": one = own_row
    elif form == "iter": one = iter(list(elems))
    elif form == "generator": one = (x for x in list(elems))
    elif form == "map": one = map(int, list(elems))
    elif form == "reversed": one = reversed(list(elems))
    elif form == "chain":
        import itertools
        k = rnd.randrange(len(elems) + 1)
        one = itertools.chain(list(elems)[:k], list(elems)[k:])
    else:
        raise AssertionError(form)
    return (one,)


def bfaces(ref):
    r = getattr(ref, "_bf_cache", None)
    if r is None:
        r = ref._bf_cache = ref.border_faces()
    return r


def bverts(ref):
    r = getattr(ref, "_bv_cache", None)
    if r is None:
        r = ref._bv_cache = ref.border_vertices()
    return r


def rot_ok_cells(seq, ref, ek, closed):
    """consecutive cells share a face containing the edge; cyclic if closed"""
    n = len(seq)
    def share(c1, c2):
        common = set(ref.C[c1]) & set(ref.C[c2])
        return len(common) == 3 and set(ek) <= common
    for i in range(n - 1):
        if not share(seq[i], seq[i + 1]):
            return False
    if closed and n > 2 and not share(seq[-1], seq[0]):
        return False
    return True


def rot_ok_faces(seq_keys, ref, ek, closed):
    n = len(seq_keys)
    def share(f1, f2):
        return bool(set(ref.f2c[f1]) & set(ref.f2c[f2]))
    for i in range(n - 1):
        if not share(seq_keys[i], seq_keys[i + 1]):
            return False
    if closed and n > 2 and not share(seq_keys[-1], seq_keys[0]):
        return False
    if not closed and n >= 1:
        if len(ref.f2c[seq_keys[0]]) != 1 or len(ref.f2c[seq_keys[-1]]) != 1:
            return False
    return True


def do_query(m, ref, info, sort_on, q, ctx, where):
    """issue one query on mesh m and compare with the reference. q = [kind, a, b] or [kind, a, b, c] or [kind, a, b, c, form]:
    a, b select the elements, c the spelling (c % 3 == 2: documented keywords; c % 4 == 0: a vertex tuple that is no face / no edge)"""
    kind, a, b = q[:3]
    c_ = q[3] if len(q) > 3 else 1
    C = m.connectivity
    mfaces, fid, medges, eid = info
    nV, nC, nF, nE = ref.nV, len(ref.C), len(mfaces), len(medges)
    sig = "q:" + kind
    conv = id_conv(getattr(ctx, "case", None))
    by_name = c_ % 3 == 2

    def cv(x):
        return conv(x) if (isinstance(x, int) and not isinstance(x, bool)) else x

    def call(f, *args, **kw):
        return ctx.call(sig, f, *(cv(x) for x in args), **{k: cv(x) for k, x in kw.items()})

    if kind == "face_to_cells":
        f = a % nF
        ok, r = call(C.face_to_cells, f)
        if ok:
            exp = sorted(ref.f2c[mfaces[f]])
            ctx.check(sorted(ints(r)) == exp, sig, f"{where}: face_to_cells({f}) = {list(r)}, expected {exp}")
    elif kind == "cell_to_face":
        c = a % nC
        ok, r = call(C.cell_to_face, c)
        if ok:
            cl = ref.C[c]
            exp = [fid.get(key(cl[:i] + cl[i + 1:])) for i in range(4)]
            ctx.check(list(r) == exp, sig, f"{where}: cell_to_face({c}) = {list(r)}, expected (i-th opposite i-th vertex) {exp}")
    elif kind == "cell_to_cell":
        c = a % nC
        ok, r = call(C.cell_to_cell, c)
        if ok:
            ctx.check(sorted(ints(r)) == ref.cell_neighbours(c), sig, f"{where}: cell_to_cell({c}) = {list(r)}, expected {ref.cell_neighbours(c)}")
    elif kind in ("edge_to_cell", "edge_to_face"):
        e = a % nE
        ek = medges[e]
        ok, r = call(getattr(C, kind), e)
        if not ok: return
        r = ints(r)
        closed = ek not in info_border_edges(ref)
        if kind == "edge_to_cell":
            exp = sorted(ref.e2c[ek])
            if not ctx.check(sorted(r) == exp, sig, f"{where}: edge_to_cell({e}={ek}) = {r}, expected set {exp}"): return
            if sort_on:
                ctx.check(rot_ok_cells(r, ref, ek, closed), sig + ":order", f"{where}: edge_to_cell({e}={ek}) = {r} not in rotational order (closed={closed})")
        else:
            exp = sorted(fid[fk] for fk in ref.e2f[ek])
            if not ctx.check(sorted(r) == exp, sig, f"{where}: edge_to_face({e}={ek}) = {r}, expected set {exp}"): return
            if sort_on:
                ctx.check(rot_ok_faces([mfaces[f] for f in r], ref, ek, closed), sig + ":order", f"{where}: edge_to_face({e}={ek}) = {r} not in rotational order (closed={closed})")
    elif kind == "vertex_to_cell":
        v = a % nV
        ok, r = call(C.vertex_to_cell, v)
        if ok:
            ctx.check(sorted(ints(r)) == sorted(ref.v2c[v]), sig, f"{where}: vertex_to_cell({v}) = {list(r)}, expected {sorted(ref.v2c[v])}")
    elif kind == "cell_to_edge":
        c = a % nC
        ok, r = call(C.cell_to_edge, c)
        if ok:
            cl = ref.C[c]
            exp = sorted(eid[key(cl[i], cl[j])] for i in range(4) for j in range(i))
            ctx.check(sorted(ints(r)) == exp, sig, f"{where}: cell_to_edge({c}) = {list(r)}, expected {exp}")
    elif kind == "cell_to_vertex":
        c = a % nC
        ok, r = call(C.cell_to_vertex, c)
        if ok:
            ctx.check(ints(r) == list(ref.C[c]), sig, f"{where}: cell_to_vertex({c}) = {list(r)}")
    elif kind == "in_cell_index":
        c = a % nC
        cl = ref.C[c]
        v = cl[b % 4] if b % 3 else b % nV
        if by_name:
            ctx.label("spelling=keyword")
            ok, r = call(C.in_cell_index, V=v, C=c) if b % 2 else call(C.in_cell_index, C=c, V=v)
        else:
            ok, r = call(C.in_cell_index, c, v)
        if ok:
            exp = cl.index(v) if v in cl else None
            ctx.check(r == exp, sig, f"{where}: in_cell_index({c},{v}) = {r!r}, expected {exp!r}")
    elif kind == "in_cell_face_index":
        c = a % nC
        cl = ref.C[c]
        if b % 3:
            i = b % 4
            f = fid[key(cl[:i] + cl[i + 1:])]
        else:
            f = b % nF
        ok, r = call(C.in_cell_face_index, c, f)
        if ok:
            exp = None
            for i in range(4):
                if key(cl[:i] + cl[i + 1:]) == mfaces[f]:
                    exp = i
            ctx.check(r == exp, sig, f"{where}: in_cell_face_index({c},{f}) = {r!r}, expected {exp!r}")
    elif kind == "common_face":
        c1 = a % nC
        nb = ref.cell_neighbours(c1)
        c2 = nb[b % len(nb)] if (nb and b % 3) else b % nC
        if c1 == c2: return
        ok, r = call(C.common_face, c1, c2)
        if ok:
            common = set(ref.C[c1]) & set(ref.C[c2])
            exp = fid.get(key(common)) if len(common) == 3 else None
            ctx.check(r == exp, sig, f"{where}: common_face({c1},{c2}) = {r!r}, expected {exp!r}")
    elif kind == "other_face_side":
        c = a % nC
        cl = ref.C[c]
        if b % 3:
            i = b % 4
            f = fid[key(cl[:i] + cl[i + 1:])]
        else:
            f = b % nF
        ok, r = call(C.other_face_side, c, f)
        if ok:
            cs = ref.f2c[mfaces[f]]
            exp = None
            if len(cs) == 2 and c in cs:
                exp = cs[0] if cs[1] == c else cs[1]
            ctx.check(r == exp, sig, f"{where}: other_face_side({c},{f}) = {r!r}, expected {exp!r}")
    elif kind == "is_face_on_border":
        f = a % nF
        ok, r = call(m.is_face_on_border, f)
        if ok:
            ctx.check(bool(r) == (len(ref.f2c[mfaces[f]]) == 1), sig, f"{where}: is_face_on_border({f}) = {r!r}")
    elif kind == "is_face_on_border_v":
        f = a % nF
        vs = list(mfaces[f]); random.Random(b).shuffle(vs)
        ok, r = call(m.is_face_on_border, *vs)
        if ok:
            ctx.check(bool(r) == (len(ref.f2c[mfaces[f]]) == 1), sig, f"{where}: is_face_on_border{tuple(vs)} = {r!r}")
    elif kind == "is_edge_on_border":
        e = a % nE
        ok, r = call(m.is_edge_on_border, e)
        if ok:
            ctx.check(bool(r) == (medges[e] in info_border_edges(ref)), sig, f"{where}: is_edge_on_border({e}) = {r!r}")
    elif kind == "is_edge_on_border_uv":
        e = a % nE
        u, v = medges[e] if b % 2 else medges[e][::-1]
        ok, r = call(m.is_edge_on_border, u, v)
        if ok:
            ctx.check(bool(r) == (medges[e] in info_border_edges(ref)), sig, f"{where}: is_edge_on_border({u},{v}) = {r!r}")
    elif kind == "is_vertex_on_border":
        v = a % nV
        ok, r = call(m.is_vertex_on_border, v)
        if ok:
            ctx.check(bool(r) == (v in bverts(ref)), sig, f"{where}: is_vertex_on_border({v}) = {r!r}")
    elif kind == "border_faces":
        ok, bf = call(lambda: m.boundary_faces)
        ok2, jf = call(lambda: m.interior_faces)
        if ok and ok2:
            bf, jf = ints(bf), ints(jf)
            exp = sorted(fid[fk] for fk in bfaces(ref))
            ctx.check(sorted(bf) == exp and len(set(bf)) == len(bf), sig, f"{where}: boundary_faces = {bf}, expected {exp}")
            ctx.check(sorted(bf + jf) == list(range(nF)), sig, f"{where}: boundary/interior faces do not partition the face range")
    elif kind == "border_edges":
        ok, be = call(lambda: m.boundary_edges)
        ok2, je = call(lambda: m.interior_edges)
        if ok and ok2:
            be, je = ints(be), ints(je)
            exp = sorted(eid[ek] for ek in info_border_edges(ref))
            ctx.check(sorted(be) == exp and len(set(be)) == len(be), sig, f"{where}: boundary_edges = {be}, expected {exp}")
            ctx.check(sorted(be + je) == list(range(nE)), sig, f"{where}: boundary/interior edges do not partition the edge range")
    elif kind == "border_vertices":
        ok, bv = call(lambda: m.boundary_vertices)
        ok2, jv = call(lambda: m.interior_vertices)
        if ok and ok2:
            bv, jv = ints(bv), ints(jv)
            exp = sorted(bverts(ref))
            ctx.check(sorted(bv) == exp and len(set(bv)) == len(bv), sig, f"{where}: boundary_vertices = {bv}, expected {exp}")
            ctx.check(sorted(bv + jv) == list(range(nV)), sig, f"{where}: boundary/interior vertices do not partition the vertex range")
    elif kind == "face_id":
        f = a % nF
        rnd = random.Random(b)
        vs = list(mfaces[f]); rnd.shuffle(vs)
        form = face_id_form(q)
        own_row = None
        if c_ % 4 == 0:
            # a vertex tuple that is (most likely) not a face: arbitrary vertices, a face without one of its vertices, a face and one more vertex
            variant = NONFACE_VARIANTS[(c_ // 4 + b) % len(NONFACE_VARIANTS)]
            if variant == "face-minus-one-vertex":
                vs = vs[1:]
            elif variant == "face-plus-one-vertex" and nV > 3:
                vs.insert(rnd.randrange(4), rnd.choice([w for w in range(nV) if w not in mfaces[f]]))
            else:
                variant = "arbitrary-triple"
                vs = rnd.sample(range(nV), 3)
            ctx.label("face_id:" + variant)
        elif form == "own-row":
            own_row = m.faces[f]
        exp = fid.get(key(vs)) if len(vs) == 3 else None
        if exp is None: ctx.label("face_id:expected-None")
        args = face_id_args(form, [cv(x) for x in vs], own_row, rnd)
        ctx.label("face_id-form=" + ("unpacked" if form == "unpacked" else "one-shot-iterator" if form in ONE_SHOT_FORMS else "container"))
        ok, r = ctx.call(sig, C.face_id, *args)
        if ok:
            ctx.check(r == exp and (r is None) == (exp is None), sig, f"{where}: face_id of vertices {vs} handed over as {form} = {r!r}, expected {exp!r}")
        if ok and form in REITERABLE_FORMS and b % 3 == 0:
            ok, r = ctx.call(sig, C.face_id, *args)       # the same container once more
            if ok:
                ctx.check(r == exp and (r is None) == (exp is None), sig, f"{where}: face_id of vertices {vs} handed over as the same {form} a second time = {r!r}, expected {exp!r}")
    elif kind == "edge_id":
        e = a % nE
        u, v = medges[e] if b % 2 else medges[e][::-1]
        if c_ % 4 == 0:
            u, v = (a // 7) % nV, (b // 7) % nV           # an arbitrary pair: mostly no edge; u == v is no edge
            ctx.label("edge_id:arbitrary-pair")
        exp = eid.get(key(u, v)) if u != v else None
        if by_name:
            ctx.label("spelling=keyword")
            ok, r = call(C.edge_id, V1=u, V2=v)
        else:
            ok, r = call(C.edge_id, u, v)
        if ok:
            ctx.check(r == exp and (r is None) == (exp is None), sig, f"{where}: edge_id({u},{v}) = {r!r}, expected {exp!r}")
    elif kind == "poke_invalid":
        bad = [(C.face_to_cells, (nF + 1 + a % 3,)), (C.cell_to_face, (nC + a % 2,)), (C.cell_to_cell, (nC + 1,)), (C.edge_to_cell, (nE + 2,)),
               (C.edge_to_face, (nE,)), (C.vertex_to_cell, (nV + 3,)), (C.cell_to_edge, (nC,)), (C.in_cell_index, (nC + 1, 0)),
               (C.other_face_side, (nC, nF)), (C.common_face, (nC, nC + 1)), (m.is_face_on_border, (nF + 4,)), (m.is_edge_on_border, (nE + 1,)),
               (m.is_vertex_on_border, (nV + 2,)), (C.face_id, (nV, nV + 1, nV + 2))]
        f_, args_ = bad[b % len(bad)]
        try:
            f_(*args_)      # whatever it answers or raises, later answers must not change
        except Exception:
            pass
    elif kind == "clear_caches":
        call(C.clear)          # documented reset; later answers must not change
    elif kind == "n_F2C":
        f = a % nF
        ok, r = call(C.n_F2C, f)
        if ok:
            ctx.check(r == len(ref.f2c[mfaces[f]]), sig, f"{where}: n_F2C({f}) = {r}")
    elif kind == "is_tetrahedral":
        ok, r = call(m.is_tetrahedral)
        ok2, r2 = call(m.is_cell_tet, ic=a % nC) if by_name else call(m.is_cell_tet, a % nC)
        if ok and ok2:
            ctx.check(bool(r) and bool(r2), sig, f"{where}: is_tetrahedral() = {r}, is_cell_tet = {r2} on a tetrahedral mesh")
    elif kind == "chained":
        chained(m, ref, info, a, b, ctx, where, cv)
    elif kind == "enable_boundary":
        # building the boundary object in the middle of a history: it must be made of the border faces, and later answers must not change
        ok, _ = call(m.enable_boundary_connectivity)
        if ok:
            bm, bc = m.boundary_mesh, m.boundary_connectivity
            if ctx.check(bm is not None and bc is not None, sig, f"{where}: boundary_mesh is None after enable_boundary_connectivity()"):
                b2m = dict(bc.b2m_vertex)
                got = sorted(key(b2m.get(v, -1) for v in ints(f)) for f in bm.faces)
                ctx.check(got == sorted(bfaces(ref)), sig, f"{where}: the boundary mesh built in mid-history is not made of the border faces: {got[:6]}.. vs {sorted(bfaces(ref))[:6]}..")
    elif kind == "extract_boundary":
        from mouette.processing import border as B
        if by_name:
            ctx.label("spelling=keyword")
            ok, res = call(B.extract_boundary_of_volume, mesh=m)
        else:
            ok, res = call(B.extract_boundary_of_volume, m)
        if ok and ctx.check(isinstance(res, tuple) and len(res) == 3, sig, f"{where}: extract_boundary_of_volume returned {type(res).__name__}, expected (surface, m2b, b2m)"):
            sm, m2b, b2m = res
            got = sorted(key(b2m.get(v, -1) for v in ints(f)) for f in sm.faces)
            ctx.check(got == sorted(bfaces(ref)), sig, f"{where}: the surface extracted in mid-history is not made of the border faces: {got[:6]}.. vs {sorted(bfaces(ref))[:6]}..")
    else:
        raise AssertionError(kind)


def chained(m, ref, info, a, b, ctx, where, cv):
    """the arguments of every call but the first are the library's own answers, handed on exactly as they came"""
    K = m.connectivity
    mfaces, fid, medges, eid = info
    nV, nC, nF, nE = ref.nV, len(ref.C), len(mfaces), len(medges)
    variant = b % N_CHAIN
    sig = "q:chained"
    where = f"{where} chained#{variant}"
    call = lambda f, *args: ctx.call(sig, f, *args)
    be = info_border_edges(ref)
    if variant == 0:
        # a face -> its cells -> back to the face
        f = a % nF
        ok, cs = call(K.face_to_cells, cv(f))
        if not ok: return
        cs = as_list(cs, "face_to_cells")
        exp = sorted(ref.f2c[mfaces[f]])
        if not ctx.check(sorted(ints(cs)) == exp, sig, f"{where}: face_to_cells({f}) = {cs}, expected {exp}"): return
        for c in cs:
            ok, fl = call(K.cell_to_face, c)
            ok2, row = call(K.cell_to_vertex, c)
            if not (ok and ok2): return
            fl, row = as_list(fl, "cell_to_face"), as_list(row, "cell_to_vertex")
            if not ctx.check(len(fl) == 4 and len(row) == 4 and ints(fl).count(f) == 1, sig, f"{where}: cell_to_face({c!r}) = {fl} does not list face {f} once although face_to_cells({f}) = {cs}"): return
            i = ints(fl).index(f)
            ctx.check(int(row[i]) not in mfaces[f] and set(ints(row)) - {int(row[i])} == set(mfaces[f]), sig,
                      f"{where}: face {f} = {mfaces[f]} is the {i}-th face of cell {c!r} = {row} but not the one opposite its {i}-th vertex")
            ok, r = call(K.in_cell_face_index, c, f)
            if ok: ctx.check(r == i and r is not None, sig, f"{where}: in_cell_face_index({c!r},{f}) = {r!r}, cell_to_face says {i}")
            ok, r = call(K.in_cell_index, c, row[i])
            if ok: ctx.check(r == i and r is not None, sig, f"{where}: in_cell_index({c!r},{row[i]!r}) = {r!r}, expected {i} (cell row {row})")
            ok, r = call(K.other_face_side, c, cv(f))
            if ok:
                other = [x for x in exp if x != int(c)]
                e_ = other[0] if len(exp) == 2 else None
                ctx.check(r == e_ and (r is None) == (e_ is None), sig, f"{where}: other_face_side({c!r},{f}) = {r!r}, expected {e_!r} (face_to_cells = {cs})")
    elif variant == 1:
        # a cell -> its neighbours -> the common face -> its cells
        c = a % nC
        ok, nb = call(K.cell_to_cell, cv(c))
        if not ok: return
        nb = as_list(nb, "cell_to_cell")
        if not ctx.check(sorted(ints(nb)) == ref.cell_neighbours(c), sig, f"{where}: cell_to_cell({c}) = {nb}, expected {ref.cell_neighbours(c)}"): return
        for c2 in nb:
            common = set(ref.C[c]) & set(ref.C[int(c2)])
            exp = fid.get(key(common)) if len(common) == 3 else None
            ok, f = call(K.common_face, cv(c), c2) if b % 2 else call(K.common_face, c2, cv(c))
            if not ok: return
            if not ctx.check(f == exp and f is not None, sig, f"{where}: common_face of cell {c} and its neighbour {c2!r} = {f!r}, expected {exp!r}"): return
            ok, cs = call(K.face_to_cells, f)
            if ok:
                cs = as_list(cs, "face_to_cells")
                ctx.check(sorted(ints(cs)) == sorted([c, int(c2)]), sig, f"{where}: face_to_cells(common_face({c},{c2!r}) = {f!r}) = {cs}")
            ok, r = call(K.other_face_side, c2, f)
            if ok: ctx.check(r == c and r is not None, sig, f"{where}: other_face_side({c2!r},{f!r}) = {r!r}, expected {c}")
            ok, r = call(K.other_face_side, cv(c), f)
            if ok: ctx.check(r == int(c2) and r is not None, sig, f"{where}: other_face_side({c},{f!r}) = {r!r}, expected {c2!r}")
    elif variant == 2:
        # a cell -> its vertex row -> indices, faces, edges, cells of the vertices
        c = a % nC
        ok, row = call(K.cell_to_vertex, cv(c))
        ok2, fl = call(K.cell_to_face, cv(c))
        ok3, el = call(K.cell_to_edge, cv(c))
        if not (ok and ok2 and ok3): return
        row, fl, el = as_list(row, "cell_to_vertex"), as_list(fl, "cell_to_face"), as_list(el, "cell_to_edge")
        if not ctx.check(ints(row) == list(ref.C[c]), sig, f"{where}: cell_to_vertex({c}) = {row}, expected {ref.C[c]}"): return
        if not ctx.check(len(fl) == 4, sig, f"{where}: cell_to_face({c}) = {fl}"): return
        for i in range(4):
            v = row[i]
            ok, r = call(K.in_cell_index, cv(c), v)
            if ok: ctx.check(r == i and r is not None, sig, f"{where}: in_cell_index({c},{v!r}) = {r!r}, expected {i} (cell row {row})")
            others = row[:i] + row[i + 1:]
            if (a + b + i) % 2: others = others[::-1]
            fk = key(ints(others))
            ok, r = call(K.face_id, *others)
            if ok: ctx.check(r == fid[fk] and r == int(fl[i]) and r is not None, sig, f"{where}: face_id{tuple(others)} = {r!r}, expected {fid[fk]} = cell_to_face({c})[{i}] = {fl[i]!r}")
            ok, r = call(m.is_face_on_border, *others)
            if ok: ctx.check(bool(r) == (len(ref.f2c[fk]) == 1), sig, f"{where}: is_face_on_border{tuple(others)} = {r!r}, the face belongs to cells {ref.f2c[fk]}")
            ok, cs = call(K.vertex_to_cell, v)
            if ok: ctx.check(c in ints(as_list(cs, "vertex_to_cell")), sig, f"{where}: vertex_to_cell({v!r}) = {cs} does not contain cell {c} = {row}")
            for j in range(i):
                ok, r = call(K.edge_id, row[i], row[j])
                if ok:
                    e_ = eid[key(int(row[i]), int(row[j]))]
                    ctx.check(r == e_ and r is not None and e_ in ints(el), sig, f"{where}: edge_id({row[i]!r},{row[j]!r}) = {r!r}, expected {e_}; cell_to_edge({c}) = {el}")
    elif variant == 3:
        # the mesh's own edge row -> edge_id / border test; the cells and faces around the edge -> back
        e = a % nE
        ok, row = call(lambda: m.edges[e])
        if not ok: return
        row = as_list(row, "edges[e]")
        if not ctx.check(tuple(ints(row)) == medges[e], sig, f"{where}: edges[{e}] = {row}"): return
        if b % 2: row = row[::-1]
        ok, r = call(K.edge_id, *row)
        if ok: ctx.check(r == e and r is not None, sig, f"{where}: edge_id{tuple(row)} = {r!r}, expected {e}")
        ok, r = call(m.is_edge_on_border, *row)
        ok2, r2 = call(m.is_edge_on_border, cv(e))
        if ok and ok2:
            ctx.check(bool(r) == (medges[e] in be) and bool(r2) == (medges[e] in be), sig,
                      f"{where}: is_edge_on_border{tuple(row)} = {r!r}, is_edge_on_border({e}) = {r2!r}, expected {medges[e] in be}")
        ok, cs = call(K.edge_to_cell, cv(e))
        ok2, fs = call(K.edge_to_face, cv(e))
        if not (ok and ok2): return
        cs, fs = as_list(cs, "edge_to_cell"), as_list(fs, "edge_to_face")
        if not ctx.check(sorted(ints(cs)) == sorted(ref.e2c[medges[e]]) and sorted(ints(fs)) == sorted(fid[fk] for fk in ref.e2f[medges[e]]), sig,
                         f"{where}: edge_to_cell({e}) = {cs}, edge_to_face({e}) = {fs}; expected {sorted(ref.e2c[medges[e]])}, {sorted(fid[fk] for fk in ref.e2f[medges[e]])}"): return
        for c in cs[:6] + cs[-2:]:
            ok, el = call(K.cell_to_edge, c)
            if ok: ctx.check(e in ints(as_list(el, "cell_to_edge")), sig, f"{where}: cell_to_edge({c!r}) = {el} does not contain edge {e} although edge_to_cell({e}) = {cs}")
            ok, r = call(K.in_cell_index, c, row[0])
            if ok: ctx.check(r is not None and r == ref.C[int(c)].index(int(row[0])), sig, f"{where}: in_cell_index({c!r},{row[0]!r}) = {r!r} for cell {ref.C[int(c)]}")
        for f in fs[:6] + fs[-2:]:
            ok, fc = call(K.face_to_cells, f)
            if ok:
                fc = as_list(fc, "face_to_cells")
                ctx.check(sorted(ints(fc)) == sorted(ref.f2c[mfaces[int(f)]]) and set(ints(fc)) <= set(ints(cs)), sig, f"{where}: face_to_cells({f!r}) = {fc}; the face is around edge {e} whose cells are {cs}")
            ok, frow = call(lambda: m.faces[f])
            if ok:
                ok, r = call(K.face_id, frow) if b % 3 == 0 else call(K.face_id, *as_list(frow, "faces[f]"))
                if ok: ctx.check(r == int(f) and r is not None, sig, f"{where}: face_id of the mesh's own face row {frow} = {r!r}, expected {f!r}")
    elif variant == 4:
        # a vertex -> its cells -> its index in them
        v = a % nV
        ok, cs = call(K.vertex_to_cell, cv(v))
        if not ok: return
        cs = as_list(cs, "vertex_to_cell")
        if not ctx.check(sorted(ints(cs)) == sorted(ref.v2c[v]), sig, f"{where}: vertex_to_cell({v}) = {cs}, expected {sorted(ref.v2c[v])}"): return
        for c in cs[:6] + cs[-2:]:
            ok, i = call(K.in_cell_index, c, cv(v))
            ok2, row = call(K.cell_to_vertex, c)
            if ok and ok2:
                row = as_list(row, "cell_to_vertex")
                ctx.check(i is not None and i == ref.C[int(c)].index(v) and int(row[i]) == v, sig, f"{where}: in_cell_index({c!r},{v}) = {i!r}, cell_to_vertex({c!r}) = {row}")
        ok, r = call(m.is_vertex_on_border, cv(v))
        if ok: ctx.check(bool(r) == (v in bverts(ref)), sig, f"{where}: is_vertex_on_border({v}) = {r!r}")
    else:
        # elements of the border / interior lists -> the border tests and the tables
        lists = {}
        for name in ("boundary_faces", "interior_faces", "boundary_edges", "interior_edges", "boundary_vertices", "interior_vertices"):
            ok, l = call(lambda: getattr(m, name))
            if not ok: return
            lists[name] = as_list(l, name)
        expd = {"boundary_faces": sorted(fid[fk] for fk in bfaces(ref)), "boundary_edges": sorted(eid[ek] for ek in be), "boundary_vertices": sorted(bverts(ref))}
        for name, exp in expd.items():
            other = name.replace("boundary", "interior")
            n = {"faces": nF, "edges": nE, "vertices": nV}[name.split("_")[1]]
            if not ctx.check(sorted(ints(lists[name])) == exp and sorted(ints(lists[name]) + ints(lists[other])) == list(range(n)), sig,
                             f"{where}: {name} = {lists[name][:12]}.., expected {exp[:12]}..; with {other} it must partition range({n})"): return
        pick = lambda l: [l[i] for i in sorted(set([0, len(l) - 1, a % len(l), (a // 7) % len(l)]))] if l else []
        for f in pick(lists["boundary_faces"]):
            ok, r = call(m.is_face_on_border, f)
            ok2, n = call(K.n_F2C, f)
            ok3, cs = call(K.face_to_cells, f)
            ok4, frow = call(lambda: m.faces[f])
            if not (ok and ok2 and ok3 and ok4): return
            cs, frow = as_list(cs, "face_to_cells"), as_list(frow, "faces[f]")
            if not ctx.check(bool(r) and n == 1 and len(cs) == 1, sig, f"{where}: face {f!r} of boundary_faces: is_face_on_border = {r!r}, n_F2C = {n!r}, face_to_cells = {cs}"): return
            ok, r = call(K.other_face_side, cs[0], f)
            if ok: ctx.check(r is None, sig, f"{where}: other_face_side({cs[0]!r},{f!r}) = {r!r} for a border face, expected None")
            ok, r = call(m.is_face_on_border, *frow)
            if ok: ctx.check(bool(r), sig, f"{where}: is_face_on_border{tuple(frow)} = {r!r} for the row of border face {f!r}")
            for i in range(3):
                u, v = frow[i], frow[(i + 1) % 3]
                ok, r = call(m.is_edge_on_border, u, v)
                ok2, r2 = call(m.is_vertex_on_border, u)
                if ok and ok2: ctx.check(bool(r) and bool(r2), sig, f"{where}: border face {f!r} = {frow}: is_edge_on_border({u!r},{v!r}) = {r!r}, is_vertex_on_border({u!r}) = {r2!r}")
        for f in pick(lists["interior_faces"]):
            ok, r = call(m.is_face_on_border, f)
            ok2, cs = call(K.face_to_cells, f)
            if not (ok and ok2): return
            cs = as_list(cs, "face_to_cells")
            if not ctx.check(not bool(r) and len(cs) == 2, sig, f"{where}: face {f!r} of interior_faces: is_face_on_border = {r!r}, face_to_cells = {cs}"): return
            ok, r = call(K.other_face_side, cs[0], f)
            if ok: ctx.check(r == int(cs[1]) and r is not None, sig, f"{where}: other_face_side({cs[0]!r},{f!r}) = {r!r}, face_to_cells = {cs}")
        for name, test, expect in (("boundary_edges", m.is_edge_on_border, True), ("interior_edges", m.is_edge_on_border, False),
                                   ("boundary_vertices", m.is_vertex_on_border, True), ("interior_vertices", m.is_vertex_on_border, False)):
            for x in pick(lists[name]):
                ok, r = call(test, x)
                if ok: ctx.check(bool(r) == expect, sig, f"{where}: {test.__name__}({x!r}) = {r!r} for an element of {name}")


_be_cache = {}


def info_border_edges(ref):
    # cached on the reference object itself (an id()-keyed cache can go stale when ids are reused)
    be = getattr(ref, "_border_edges_cache", None)
    if be is None:
        be = ref.border_edges()
        ref._border_edges_cache = be
    return be


def build(case):
    import mouette as M
    M.config.display_duplicate_attribute_warning = flag(case, case.get("dup_warn", False))
    m = _build(case)
    if case.get("pre_border"):
        # attributes called "border" (the name the mesh uses for its own flags) already on the vertices / edges, arbitrary flags
        rnd = random.Random(case.get("pre_border_seed", 0))
        typ = bool if case["pre_border"] == "bool" else int
        for cont in (m.vertices, m.edges):
            a = cont.create_attribute("border", typ, dense=bool(rnd.randrange(2)))
            for i in range(len(cont)):
                if rnd.randrange(2):
                    a[i] = typ(1)
    return m


def _build(case):
    import mouette as M, os, tempfile, shutil
    M.config.sort_neighborhoods = flag(case, case["sort"])
    m = volume_in_form(case.get("Vlib", case["V"]), case["C"], case.get("form", "list"), case.get("vform", "list"), case.get("ctor_kw", False))
    via = case.get("via")
    if via:
        if case.get("prequery_before_save"):
            m.connectivity.cell_to_cell(0)     # leaves the cell adjacency attribute on the mesh that gets saved
        d = tempfile.mkdtemp(prefix="c03_")
        try:
            p = os.path.join(d, "m." + via)
            M.mesh.save(m, p)
            m2 = M.mesh.load(p)
        finally:
            shutil.rmtree(d, ignore_errors=True)
        # whether the file round trip preserves the cells is C04's business: only a faithful reload is used here
        same = (type(m2).__name__ == "VolumeMesh" and [tuple(ints(c)) for c in m2.cells] == [tuple(c) for c in case["C"]]
                and len(m2.vertices) == len(case["V"]))
        if same:
            return m2
    return m


def volume_in_form(V, C, form="list", vform="list", ctor_kw=False):
    """a fresh VolumeMesh: cell rows as list / tuple / numpy int64 / numpy int32 rows, vertex rows as list / tuple / numpy rows, the
    constructor's argument by position or by its documented name"""
    import mouette as M
    from mouette.mesh.mesh_data import RawMeshData
    raw = RawMeshData()
    if vform == "numpy":
        raw.vertices += [np.array(v, dtype=float) for v in V]
    elif vform == "tuple":
        raw.vertices += [tuple(map(float, v)) for v in V]
    else:
        raw.vertices += [list(map(float, v)) for v in V]
    if form == "tuple":
        raw.cells += [tuple(c) for c in C]
    elif form == "numpy":
        raw.cells += [np.array(c, dtype=np.int64) for c in C]
    elif form == "numpy32":
        raw.cells += [np.array(c, dtype=np.int32) for c in C]
    else:
        raw.cells += [list(c) for c in C]
    return M.mesh.VolumeMesh(data=raw) if ctor_kw else M.mesh.VolumeMesh(raw)


def containers(m, ref, ctx):
    mfaces = [key(f) for f in m.faces]
    medges = [tuple(ints(e)) for e in m.edges]
    ok = ctx.check(len(set(mfaces)) == len(mfaces) and set(mfaces) == ref.fkeys, "faces",
                   f"face container is not 'each face of each tetrahedron exactly once': {len(mfaces)} faces, {len(ref.fkeys)} expected")
    ok = ctx.check(len(set(medges)) == len(medges) and set(medges) == ref.ekeys, "edges",
                   f"edge container is not 'each edge exactly once, low index first'") and ok
    return mfaces, {f: i for i, f in enumerate(mfaces)}, medges, {e: i for i, e in enumerate(medges)}, ok


def check_boundary_surface(ctx, V, faces_b, b2m_v, ref, what, expect_outward, cells_of_face, light=False):
    """faces_b: boundary faces as tuples of boundary vertex ids; b2m_v maps them to volume ids. light (size regime): consistent
    orientation is checked through the half edges only (every one once, its reverse once), not through the vertex links"""
    vol_faces = [tuple(b2m_v[v] for v in f) for f in faces_b]
    ctx.check(sorted(key(f) for f in vol_faces) == sorted(bfaces(ref)), what + ":faces",
              f"{what}: faces are not exactly the border faces: {sorted(key(f) for f in vol_faces)[:10]} vs {sorted(bfaces(ref))[:10]}")
    nb = 1 + max((v for f in faces_b for v in f), default=-1)
    if expect_outward:
        A = np.array(V, dtype=float).reshape(-1, 3)
        sel = [(f, ref.C[ref.f2c[key(f)][0]]) for f in vol_faces if len(ref.f2c.get(key(f), ())) == 1]
        if sel:
            F_ = np.array([f for f, _ in sel], dtype=np.int64).reshape(-1, 3)
            cc = A[np.array([c for _, c in sel], dtype=np.int64)].mean(axis=1)
            a, b, c = A[F_[:, 0]], A[F_[:, 1]], A[F_[:, 2]]
            d = np.einsum("ij,ij->i", np.cross(b - a, c - a), (a + b + c) / 3 - cc)
            bad = np.nonzero(~(d > 0))[0]
            if len(bad):
                k = int(bad[0])
                ctx.check(False, what + ":outward", f"{what}: face {sel[k][0]} (volume ids) points into its cell {sel[k][1]} (n.(cf-cc) = {float(d[k]):.3g}); {len(bad)} such faces")
            else:
                ctx.check(True, what + ":outward", "")
        if light:
            he = Counter((f[i], f[(i + 1) % 3]) for f in faces_b for i in range(3))
            err = None if all(n == 1 and he.get((b, a)) == 1 for (a, b), n in he.items()) else "a half edge occurs twice or has no reverse half edge"
        else:
            err = SurfRef(nb, faces_b).validate()
        ctx.check(err is None, what + ":manifold", f"{what}: boundary surface is not a consistently oriented manifold: {err}")
    # closed: every edge in exactly two faces
    cnt = Counter()
    for f in faces_b:
        for i in range(3):
            cnt[key(f[i], f[(i + 1) % 3])] += 1
    ctx.check(all(n == 2 for n in cnt.values()), what + ":closed", f"{what}: boundary surface is not closed: edge/face counts {dict(Counter(cnt.values()))}")


def fn(case, ctx):
    sc = case.get("scale", 1.0)
    if sc != 1.0:
        case = dict(case, V=[[x * sc for x in v] for v in case["V"]])     # uniform scale: no answer may depend on it
        ctx.label("scale=%g" % sc)
    V, Cl = case["V"], case["C"]
    # exact geometry ends: the library sees the translated / squeezed coordinates, the orientation oracle the original ones (translation and
    # a positive axis scale do not change which side of a face its cell is on, and both are exact in floating point by construction)
    if case.get("offset"):
        o = case["offset"]
        Vlib = [[x + t for x, t in zip(v, o)] for v in V]
        if all(float(x) - t == y for vl, v in zip(Vlib, V) for x, y, t in zip(vl, v, o)):      # (always, for the grid coordinates the strategy stores)
            case = dict(case, Vlib=Vlib)
            ctx.label("geometry=translated-by-up-to-2**40")
    elif case.get("squeeze"):
        ax, k = case["squeeze"]
        case = dict(case, Vlib=[[x * 2.0 ** -k if i == ax else x for i, x in enumerate(v)] for v in V])
        ctx.label("geometry=one-axis-squeezed-by-2**-%d" % k)
    ref = TetRef(len(V), Cl)
    for t in case.get("tags", []):
        ctx.label(t)
    ctx.label("sort=" + str(case["sort"]), "via=" + str(case.get("via")), "ids=" + id_type_of(case), "form=" + case.get("form", "list"),
              "vform=" + case.get("vform", "list"), "flags-as=" + case.get("flag_form", "bool"), "ctor=" + ("keyword" if case.get("ctor_kw") else "positional"))
    if case.get("pre_border"): ctx.label("pre-existing-border-attributes=" + case["pre_border"])
    if case.get("dup_warn"): ctx.label("duplicate-attribute-switch-on")
    ctx.label("first=" + case["queries"][0][0])
    ctx.nontrivial(len(Cl) >= 2 and any(len(cs) == 2 for cs in ref.f2c.values()))

    m = build(case)
    mfaces, fid, medges, eid, ok = containers(m, ref, ctx)
    if not ok:
        return
    info = (mfaces, fid, medges, eid)
    for i, q in enumerate(case["queries"]):
        where = f"query #{i} (after {[x[0] for x in case['queries'][:i]][-3:]})"
        do_query(m, ref, info, case["sort"], q, ctx, where)
        if len(q) > 3 and q[3] % 5 == 0:
            do_query(m, ref, info, case["sort"], q, ctx, where + " issued a second time")      # the answer was read; the same question again

    m2 = build(case)
    rnd = random.Random(case["sweep_seed"])
    kinds = list(KINDS); rnd.shuffle(kinds)
    nV, nC, nF, nE = len(V), len(Cl), len(mfaces), len(medges)

    def some(n, k=24):
        """all ids below n, or the first, the last and a sample"""
        return list(range(n)) if n <= k else sorted(set([0, 1, n - 2, n - 1] + [rnd.randrange(n) for _ in range(k - 4)]))

    for kind in kinds:
        if kind in ("face_to_cells", "is_face_on_border", "is_face_on_border_v"):
            qs = [[kind, f, rnd.randrange(100)] for f in range(nF)]
        elif kind == "face_id":
            # every face: unpacked, as one re-iterable container, as one one-shot iterator (forms drawn per face); tuples that are no face in drawn forms
            qs = [[kind, f, rnd.randrange(100), 1, form] for f in range(nF) for form in ("unpacked", rnd.choice(REITERABLE_FORMS), rnd.choice(ONE_SHOT_FORMS))]
            qs += [[kind, rnd.randrange(10 ** 4), rnd.randrange(10 ** 4), 4 * rnd.randrange(10 ** 4)] for _ in range(6)]
            rnd.shuffle(qs)
        elif kind in ("cell_to_face", "cell_to_cell", "cell_to_edge", "cell_to_vertex"):
            qs = [[kind, c, 0] for c in range(nC)]
        elif kind in ("edge_to_cell", "edge_to_face", "is_edge_on_border"):
            qs = [[kind, e, 0] for e in range(nE)]
        elif kind == "is_edge_on_border_uv":
            qs = [[kind, e, o] for e in range(nE) for o in (0, 1)]
        elif kind == "edge_id":
            qs = [[kind, e, o, 1 + (e + o) % 2] for e in range(nE) for o in (0, 1)] + [[kind, rnd.randrange(10 ** 4), rnd.randrange(10 ** 4), 4 * rnd.randrange(1, 100)] for _ in range(6)]
        elif kind in ("vertex_to_cell", "is_vertex_on_border"):
            qs = [[kind, v, 0] for v in range(nV)]
        elif kind in ("in_cell_index", "in_cell_face_index", "other_face_side"):
            qs = [[kind, c, b, 1 + (c + b) % 2] for c in range(nC) for b in (1, 2, 4, 5)] + [[kind, c, 3 * rnd.randrange(50), 1 + c % 2] for c in range(nC)]
        elif kind == "common_face":
            qs = [[kind, c, b] for c in range(nC) for b in (1, 2, 4, 5)] + [[kind, c, 3 * rnd.randrange(50)] for c in range(nC)]
        elif kind == "n_F2C":
            qs = [[kind, f, 0] for f in range(nF)]
        elif kind == "poke_invalid":
            qs = [[kind, rnd.randrange(12), rnd.randrange(40)] for _ in range(3)]
        elif kind == "chained":
            # (variants: 0 face, 1 / 2 cell, 3 edge, 4 vertex, 5 border lists)
            qs = ([[kind, f, 0 + N_CHAIN * rnd.randrange(6)] for f in some(nF)] + [[kind, c, v_ + N_CHAIN * rnd.randrange(6)] for c in some(nC) for v_ in (1, 2)]
                  + [[kind, e, 3 + N_CHAIN * rnd.randrange(6)] for e in some(nE)] + [[kind, v, 4] for v in some(nV)] + [[kind, rnd.randrange(10 ** 4), 5]])
            rnd.shuffle(qs)
        elif kind == "is_tetrahedral":
            qs = [[kind, 0, 0, 1], [kind, nC - 1, 0, 2]]
        elif kind == "extract_boundary":
            qs = [[kind, 0, 0, 1 + rnd.randrange(2)]]
        else:
            qs = [[kind, 0, 0]]
        for q in qs:
            do_query(m2, ref, info, case["sort"], q, ctx, f"sweep (kind order ..{kinds[:kinds.index(kind) + 1][-3:]})")

    # ---- boundary: connectivity object, on a fresh mesh or on one with a history
    bnd_on, ext_on = case.get("bnd_on", "fresh"), case.get("ext_on", "fresh")
    ctx.label("boundary-object-on=" + bnd_on, "extractor-on=" + ext_on)
    m3 = {"queried": m, "swept": m2}.get(bnd_on) or build(case)
    check_boundary_object(m3, case, ctx, ref, info, V)

    # ---- boundary: standalone extractor
    m4 = {"queried": m, "swept": m2, "boundary-enabled": m3}.get(ext_on) or build(case)
    check_extractor(m4, case, ctx, ref, info, V)


def check_boundary_object(m3, case, ctx, ref, info, V):
    mfaces, fid, medges, eid = info
    conv = id_conv(case)
    be = info_border_edges(ref)
    ok, _ = ctx.call("boundary:enable", m3.enable_boundary_connectivity)
    if ok and case.get("enable_twice"):
        ctx.label("enable_boundary_connectivity-twice-before-reading")
        ok, _ = ctx.call("boundary:enable", m3.enable_boundary_connectivity)
    if not ok:
        return
    bc = m3.boundary_connectivity
    bm = m3.boundary_mesh
    if not ctx.check(bm is not None and bc is not None, "boundary:mesh", "boundary_mesh is None after enable_boundary_connectivity()"):
        return
    bf = [tuple(ints(f)) for f in bm.faces]
    b2m_v = dict(bc.b2m_vertex); m2b_v = dict(bc.m2b_vertex)
    good = ctx.check(sorted(b2m_v) == list(range(len(bm.vertices))) and sorted(m2b_v) == sorted(bverts(ref)), "boundary:vmap",
                     f"vertex maps do not cover boundary vertices: b2m keys {sorted(b2m_v)[:8]}.., m2b keys {sorted(m2b_v)[:8]}..")
    if not good:
        return
    ctx.check(all(m2b_v[b2m_v[i]] == i for i in b2m_v) and all(b2m_v[m2b_v[v]] == v for v in m2b_v), "boundary:vmap", "m2b_vertex and b2m_vertex are not mutually inverse")
    Vb = coords(bm); Vm = coords(m3)
    ctx.check(all(np.array_equal(Vb[i], Vm[b2m_v[i]]) for i in b2m_v), "boundary:vcoords", "a boundary vertex does not have its volume vertex's coordinates")
    check_boundary_surface(ctx, V, bf, b2m_v, ref, "boundary_mesh", True, None)
    m2b_f = dict(bc.m2b_face); b2m_f = dict(bc.b2m_face)
    fgood = ctx.check(sorted(m2b_f) == sorted(fid[fk] for fk in bfaces(ref)) and sorted(b2m_f) == list(range(len(bf))), "boundary:fmap", "face maps do not cover exactly the border faces")
    fgood = ctx.check(all(m2b_f.get(b2m_f[i]) == i for i in b2m_f) and all(b2m_f.get(m2b_f[f]) == f for f in m2b_f), "boundary:fmap", "m2b_face / b2m_face not mutually inverse") and fgood
    for i, f in enumerate(bf):
        if i in b2m_f and 0 <= b2m_f[i] < len(mfaces):
            ctx.check(key(b2m_v[v] for v in f) == mfaces[b2m_f[i]], "boundary:fmap", f"boundary face {i} maps to volume face {b2m_f[i]} with other vertices")
    m2b_e = dict(bc.m2b_edge); b2m_e = dict(bc.b2m_edge)
    bedges = [tuple(ints(e)) for e in bm.edges]
    ctx.check(sorted(m2b_e) == sorted(eid[ek] for ek in be) and sorted(b2m_e) == list(range(len(bedges))), "boundary:emap",
              f"edge maps do not cover exactly the border edges: m2b {sorted(m2b_e)[:8]} b2m {sorted(b2m_e)[:8]} expected {sorted(eid[ek] for ek in be)[:8]}")
    ctx.check(all(m2b_e.get(b2m_e[i]) == i for i in b2m_e) and all(b2m_e.get(m2b_e[e]) == e for e in m2b_e), "boundary:emap", "m2b_edge / b2m_edge not mutually inverse")
    for i, (a, b) in enumerate(bedges):
        if i in b2m_e and 0 <= b2m_e[i] < len(medges):
            ctx.check(key(b2m_v[a], b2m_v[b]) == medges[b2m_e[i]], "boundary:emap", f"boundary edge {i} maps to a volume edge with other end points")
    # a few answers of the boundary connectivity object, translated to volume ids: at the elements with boundary index 0 / last (falsy
    # index, last iteration), with the smallest / largest volume ids, and a few more
    sbv = sorted(bverts(ref))
    vs = list(dict.fromkeys([b2m_v[0], b2m_v[len(b2m_v) - 1]] + sbv[:3] + sbv[-1:]))
    nb_v = {}
    for ek in be:
        nb_v.setdefault(ek[0], []).append(ek[1]); nb_v.setdefault(ek[1], []).append(ek[0])
    for v in vs:
        ok2, r = ctx.call("boundary:v2v", bc.vertex_to_vertices, conv(v))
        if ok2:
            exp = sorted(nb_v.get(v, []))
            ctx.check(sorted(ints(r)) == exp, "boundary:v2v", f"boundary vertex_to_vertices({v}) = {r}, expected {exp} (boundary index {m2b_v[v]})")
        ok2, r = ctx.call("boundary:v2f", bc.vertex_to_faces, conv(v))
        if ok2 and ctx.check(r is not None, "boundary:v2f", f"boundary vertex_to_faces({v}) = None for a border vertex (boundary index {m2b_v[v]})"):
            exp = sorted(fid[fk] for fk in bfaces(ref) if v in fk)
            ctx.check(sorted(ints(r)) == exp, "boundary:v2f", f"boundary vertex_to_faces({v}) = {r}, expected {exp} (boundary index {m2b_v[v]})")
        ok2, r = ctx.call("boundary:v2e", bc.vertex_to_edges, conv(v))
        if ok2:
            exp = sorted(eid[key(v, w)] for w in nb_v.get(v, []))
            ctx.check(sorted(ints(r)) == exp, "boundary:v2e", f"boundary vertex_to_edges({v}) = {r}, expected {exp} (boundary index {m2b_v[v]})")
    sbf = sorted(bfaces(ref))
    fks = [mfaces[b2m_f[0]], mfaces[b2m_f[len(b2m_f) - 1]]] if fgood else []
    fks = list(dict.fromkeys(fks + sbf[:3] + sbf[-1:] + [mfaces[f] for f in sorted(fid[fk] for fk in sbf)[:1]]))
    for n_, fk in enumerate(fks):
        f = fid[fk]
        ok2, r = ctx.call("boundary:f2e", bc.face_to_edges, conv(f))
        if ok2:
            exp = sorted(eid[key(fk[i], fk[(i + 1) % 3])] for i in range(3))
            ctx.check(sorted(ints(r)) == exp, "boundary:f2e", f"boundary face_to_edges({f}) = {r}, expected {exp} (boundary index {m2b_f.get(f)})")
        ok2, r = ctx.call("boundary:f2f", bc.face_to_faces, conv(f))
        if ok2:
            exp = sorted(fid[g] for g in bfaces(ref) if g != fk and len(set(g) & set(fk)) == 2)
            ctx.check(sorted(ints(r)) == exp, "boundary:f2f", f"boundary face_to_faces({f}) = {r}, expected {exp} (boundary index {m2b_f.get(f)})")
        if not fgood:
            continue
        brow = bf[m2b_f[f]]
        ok2, r = ctx.call("boundary:f2v", bc.face_to_vertices, conv(f))
        if ok2:
            # (the vertices of the face, as the row of the boundary mesh or translated to the volume: the object answers in boundary ids, its
            #  siblings in volume ids - both are accepted)
            r = ints(r)
            ctx.check(len(r) == 3 and (set(r) == set(brow) or set(r) == set(fk)), "boundary:f2v", f"boundary face_to_vertices({f}) = {r}; the face is {fk} in the volume, {brow} on the boundary")
        # position of a vertex in the boundary face (the first position is a falsy answer), by position or by the documented names
        others = [v for v in sbv if v not in fk][:1]
        for v in list(fk) + others:
            if (n_ + v) % 2:
                ok2, r = ctx.call("boundary:in_face_index", bc.in_face_index, conv(f), conv(v))
            else:
                ok2, r = ctx.call("boundary:in_face_index", bc.in_face_index, F=conv(f), V=conv(v))
            if ok2:
                exp = brow.index(m2b_v[v]) if v in fk else None
                ctx.check(r == exp and (r is None) == (exp is None), "boundary:in_face_index", f"boundary in_face_index({f},{v}) = {r!r}, expected {exp!r} (boundary row {brow}, vertex {v} has boundary index {m2b_v.get(v)})")
        # the volume's tables asked with the ids the maps hand out
        ok2, r = ctx.call("boundary:chained", m3.connectivity.face_to_cells, bc.b2m_face[m2b_f[f]])
        ok3, r3 = ctx.call("boundary:chained", m3.is_face_on_border, *[bc.b2m_vertex[x] for x in bm.faces[m2b_f[f]]])
        if ok2 and ok3:
            ctx.check(ints(r) == ref.f2c[fk] and bool(r3), "boundary:chained", f"face_to_cells(b2m_face[{m2b_f[f]}]) = {r}, is_face_on_border(b2m vertices of boundary face {m2b_f[f]}) = {r3!r}; the face is {fk}")
    interior = [f for f in range(len(mfaces)) if len(ref.f2c[mfaces[f]]) == 2][:2]
    for f in interior:
        ok2, r = ctx.call("boundary:f2e-interior", bc.face_to_edges, conv(f))
        if ok2:
            ctx.check(list(r) == [], "boundary:f2e-interior", f"boundary face_to_edges of interior face {f} = {r}, expected []")
    # everything was read: built once more on the same mesh, it is made of the border faces again
    ok, _ = ctx.call("boundary:enable-again", m3.enable_boundary_connectivity)
    if ok:
        bm2, bc2 = m3.boundary_mesh, m3.boundary_connectivity
        if ctx.check(bm2 is not None and bc2 is not None, "boundary:enable-again", "boundary_mesh is None after a repeated enable_boundary_connectivity()"):
            b2m2 = dict(bc2.b2m_vertex)
            got = sorted(key(b2m2.get(v, -1) for v in ints(f)) for f in bm2.faces)
            ctx.check(got == sorted(bfaces(ref)) and sorted(dict(bc2.m2b_face)) == sorted(m2b_f) and sorted(dict(bc2.m2b_edge)) == sorted(m2b_e), "boundary:enable-again",
                      "the boundary object built again after its answers were read is not made of the border faces / edges")


def check_extractor(m4, case, ctx, ref, info, V):
    mfaces, fid, medges, eid = info
    Cl = case["C"]
    from mouette.processing import border as B
    ok, res = ctx.call("extract:call", B.extract_boundary_of_volume, m4)
    if ok and ctx.check(isinstance(res, tuple) and len(res) == 3, "extract:call", f"extract_boundary_of_volume returned {type(res).__name__}, expected (surface, m2b, b2m)"):
        sm, m2b, b2m = res
        sf = [tuple(ints(f)) for f in sm.faces]
        good = ctx.check(sorted(b2m) == list(range(len(sm.vertices))) and sorted(m2b) == sorted(bverts(ref)), "extract:vmap", "vertex maps do not cover the boundary vertices")
        if good:
            ctx.check(all(m2b[b2m[i]] == i for i in b2m) and all(b2m[m2b[v]] == v for v in m2b), "extract:vmap", "maps not mutually inverse")
            Vb = coords(sm); Vm = coords(m4)
            ctx.check(all(np.array_equal(Vb[i], Vm[b2m[i]]) for i in b2m), "extract:vcoords", "a boundary vertex does not have its volume vertex's coordinates")
            allpos = all(GT.lib_det(V, c) > 0 for c in Cl)
            check_boundary_surface(ctx, V, sf, b2m, ref, "extract_boundary_of_volume", allpos, None)
            bedges = set(tuple(ints(e)) for e in sm.edges)
            ctx.check(bedges == set(key(m2b[a], m2b[b]) for (a, b) in info_border_edges(ref)), "extract:edges", "edges of the extracted surface are not the mapped border edges")
        # history on the same mesh object: border answers after the extraction, a second extraction, then the connectivity object
        for kind in ("border_faces", "border_edges", "border_vertices"):
            do_query(m4, ref, info, case["sort"], [kind, 0, 0], ctx, "after extract_boundary_of_volume on the same mesh")
        for f in range(min(len(mfaces), 8)):
            do_query(m4, ref, info, case["sort"], ["is_face_on_border", f, 0], ctx, "after extract_boundary_of_volume on the same mesh")
        ok2, res2 = ctx.call("extract:second-call", B.extract_boundary_of_volume, mesh=m4)
        if ok2:
            sf2 = [tuple(ints(f)) for f in res2[0].faces]
            ctx.check(sorted(key(res2[2][v] for v in f) for f in sf2) == sorted(bfaces(ref)), "extract:second-call",
                      "a second extract_boundary_of_volume on the same mesh does not give the border faces")
        ok3, _ = ctx.call("boundary:enable-after-extract", m4.enable_boundary_connectivity)
        if ok3 and m4.boundary_mesh is not None:
            bc4 = m4.boundary_connectivity
            ctx.check(sorted(key(bc4.b2m_vertex[v] for v in ints(f)) for f in m4.boundary_mesh.faces) == sorted(bfaces(ref)),
                      "boundary:enable-after-extract", "boundary_mesh built after a standalone extraction is not made of the border faces")


# ----------------------------------------------------------------------------- size regime: ids and counts beyond 2**16
@st.composite
def huge_case(draw):
    # a Kuhn grid with fewer than 65536 vertices and more than 65536 cells (24^3 vertices, 73002 cells), or a slab with more
    # than 65536 vertices; a fixed recipe realised in fn (the case stays small)
    # ... or a fan of 66000 cells around ONE edge (dims = ["fan", n, closed]): more than 65536 cells, vertices and border faces, and the
    # rotational walk around the hub edge has to visit every cell
    # (the first example of a run is the simplest one = the first element of each list: the closed fan with sorted neighbourhoods is in every run,
    #  the second example is drawn)
    return {"dims": draw(st.sampled_from([["fan", 66000, 1], [23, 23, 23], [23, 23, 23], [40, 40, 7], [110, 100, 1], ["fan", 66000, 0]])), "sort": draw(st.sampled_from([True, False])),
            "reverse_cells": draw(st.booleans()), "seed": draw(st.integers(0, 10 ** 6)), "id_type": draw(st.sampled_from(["int", "int64", "int32"]))}


def fn_huge(case, ctx):
    import mouette as M
    M.config.sort_neighborhoods = bool(case["sort"])
    a, b, c = case["dims"]
    fan = a == "fan"
    if fan:
        V, C = GT.around_edge(b, bool(c))
        C = [list(cl) for cl in C]
        ctx.label("fan-around-one-edge:" + ("closed" if c else "open"))
    else:
        V, C = GT.kuhn(a, b, c)
    if case["reverse_cells"]:
        C = C[::-1]
    ref = TetRef(len(V), C)
    conv = id_conv(case)
    ctx.label(f"cells>{2 ** 16}" if len(C) > 2 ** 16 else "cells<=65536", f"vertices>{2 ** 16}" if len(V) > 2 ** 16 else "vertices<=65536", "ids=" + id_type_of(case))
    ctx.nontrivial(len(C) > 2 ** 16 or len(V) > 2 ** 16)
    m = volume_from(V, C)
    K = m.connectivity
    rnd = random.Random(case["seed"])
    nV, nC = len(V), len(C)
    v2c = {}
    for ic, cell in enumerate(ref.C):
        for v in cell:
            v2c.setdefault(v, set()).add(ic)
    for v in range(nV):
        ok, r = ctx.call("huge:vertex_to_cell", K.vertex_to_cell, conv(v))
        if ok and not ctx.check(sorted(ints(r)) == sorted(v2c.get(v, ())), "huge:vertex_to_cell",
                                f"{a}x{b}x{c} mesh ({nV} vertices, {nC} cells): vertex_to_cell({v}) = {sorted(ints(r))[:8]}.. ({len(r)} cells), expected {sorted(v2c.get(v, ()))[:8]}.. ({len(v2c.get(v, ()))} cells)"):
            return
    cells = sorted(set(list(range(min(nC, 60))) + list(range(max(0, nC - 400), nC)) + [rnd.randrange(nC) for _ in range(400)]))
    fkeys = list(ref.f2c.keys())
    for ic in cells:
        ok, r = ctx.call("huge:cell_to_cell", K.cell_to_cell, conv(ic))
        if ok:
            exp = ref.cell_neighbours(ic)          # (through the face -> cells table of the reference: two cells are neighbours iff they share a face)
            if not ctx.check(sorted(ints(r)) == exp, "huge:cell_to_cell", f"{nC} cells: cell_to_cell({ic}) = {sorted(ints(r))}, expected {exp}"):
                return
        ok, r = ctx.call("huge:cell_to_face", K.cell_to_face, conv(ic))
        if ok:
            fl = ints(r)
            good = len(fl) == 4 and all(0 <= f < len(m.faces) for f in fl)
            if good:
                for i, f in enumerate(fl):
                    good = good and set(ints(m.faces[f])) == set(ref.C[ic]) - {ref.C[ic][i]}
            if not ctx.check(good, "huge:cell_to_face", f"{nC} cells: cell_to_face({ic}) = {fl}: the i-th face is not the one opposite the i-th vertex"):
                return
    nF = len(m.faces)
    ctx.check(nF == len(ref.f2c), "huge:faces", f"{nF} faces, expected {len(ref.f2c)}")
    for f in sorted(set(list(range(min(nF, 50))) + list(range(max(0, nF - 400), nF)) + [rnd.randrange(nF) for _ in range(300)])):
        ok, r = ctx.call("huge:face_to_cells", K.face_to_cells, conv(f))
        if ok:
            exp = sorted(ref.f2c[key(ints(m.faces[f]))])
            got = sorted(ints(r))
            if not ctx.check(got == exp, "huge:face_to_cells", f"{nF} faces: face_to_cells({f}) = {r}, expected {exp}"):
                return
    bf = bfaces(ref)
    ok, lst = ctx.call("huge:boundary_faces", lambda: m.boundary_faces)
    if ok:
        ctx.check(set(key(ints(m.faces[f])) for f in ints(lst)) == bf and len(lst) == len(bf), "huge:border_faces",
                  f"boundary_faces lists {len(lst)} faces, expected {len(bf)}")
    bv = bverts(ref)
    ok, lst = ctx.call("huge:boundary_vertices", lambda: m.boundary_vertices)
    if ok:
        ctx.check(set(ints(lst)) == bv and len(lst) == len(bv), "huge:border_vertices", f"boundary_vertices lists {len(lst)} vertices, expected {len(bv)}")
    ne = len(m.edges)
    ctx.check(set(tuple(ints(e)) for e in m.edges) == ref.ekeys and ne == len(ref.ekeys), "huge:edges", f"{ne} edges, expected {len(ref.ekeys)}")
    medges = [tuple(ints(e)) for e in m.edges]
    for e in sorted(set(list(range(min(ne, 50))) + list(range(max(0, ne - 400), ne)) + [rnd.randrange(ne) for _ in range(300)])):
        u, v = medges[e]
        ok, r = ctx.call("huge:edge_id", K.edge_id, conv(u), conv(v))
        if ok and not ctx.check(r == e, "huge:edge_id", f"{ne} edges: edge_id({u},{v}) = {r!r}, expected {e}"):
            return
        ok, r = ctx.call("huge:edge_to_cell", K.edge_to_cell, conv(e))
        if ok:
            exp = sorted(j for j in v2c[u] & v2c[v])
            if not ctx.check(sorted(ints(r)) == exp, "huge:edge_to_cell", f"edge_to_cell({u},{v}) = {sorted(ints(r))}, expected {exp}"):
                return
    if fan:
        # the hub edge: every cell is around it; with sorted neighbourhoods the walk around it visits all of them in rotational order
        hub = key(0, 1)
        ok, e = ctx.call("huge:edge_id", K.edge_id, conv(0), conv(1))
        if ok and ctx.check(e is not None and medges[e] == hub, "huge:edge_id", f"edge_id(0,1) = {e!r} on the fan"):
            closed = hub not in info_border_edges(ref)
            ok, r = ctx.call("huge:hub-edge", K.edge_to_cell, conv(e))
            if ok:
                r = ints(r)
                if ctx.check(sorted(r) == list(range(nC)), "huge:hub-edge", f"fan of {nC} cells: edge_to_cell(hub edge) lists {len(r)} cells ({len(set(r))} distinct)") and case["sort"]:
                    ctx.check(rot_ok_cells(r, ref, hub, closed), "huge:hub-edge:order", f"fan of {nC} cells: edge_to_cell(hub edge) is not in rotational order (closed={closed}): {r[:6]}..{r[-3:]}")
            ok, r = ctx.call("huge:hub-edge", K.edge_to_face, conv(e))
            if ok:
                r = ints(r)
                exp = sorted(f for f in range(nF) if 0 in mfaces_h(m, f) and 1 in mfaces_h(m, f))
                if ctx.check(sorted(r) == exp, "huge:hub-edge", f"fan of {nC} cells: edge_to_face(hub edge) lists {len(r)} faces, expected {len(exp)}") and case["sort"]:
                    ctx.check(rot_ok_faces([mfaces_h(m, f) for f in r], ref, hub, closed), "huge:hub-edge:order", f"fan of {nC} cells: edge_to_face(hub edge) is not in rotational order (closed={closed})")
    # boundary extraction at this size: exactly the border faces, closed, mutually inverse vertex maps; the boundary object is oriented outwards
    from mouette.processing import border as B
    ok, res = ctx.call("huge:extract", B.extract_boundary_of_volume, m)
    if ok:
        sm, m2b, b2m = res
        got = set(key(b2m.get(v, -1) for v in ints(f)) for f in sm.faces)
        ctx.check(got == bf and len(sm.faces) == len(bf), "huge:extract", f"extract_boundary_of_volume: {len(sm.faces)} faces ({len(got)} distinct), expected the {len(bf)} border faces")
        ctx.check(sorted(b2m) == list(range(len(bv))) and sorted(m2b) == sorted(bv) and all(m2b[b2m[i]] == i for i in b2m), "huge:extract", "vertex maps of the extracted surface are not mutually inverse over the border vertices")
    ok, _ = ctx.call("huge:boundary-object", m.enable_boundary_connectivity)
    if ok and ctx.check(m.boundary_mesh is not None, "huge:boundary-object", "boundary_mesh is None after enable_boundary_connectivity()"):
        bc, bm = m.boundary_connectivity, m.boundary_mesh
        b2m_v = dict(bc.b2m_vertex)
        faces_b = [tuple(ints(f)) for f in bm.faces]
        if ctx.check(sorted(b2m_v) == list(range(len(bv))) and set(b2m_v.values()) == bv, "huge:boundary-object", "b2m_vertex does not enumerate the border vertices"):
            check_boundary_surface(ctx, V, faces_b, b2m_v, ref, "huge:boundary_mesh", True, None, light=True)
        ctx.check(len(dict(bc.m2b_edge)) == len(info_border_edges(ref)) and len(dict(bc.b2m_face)) == len(bf), "huge:boundary-object",
                  f"the maps hold {len(dict(bc.m2b_edge))} edges / {len(dict(bc.b2m_face))} faces, expected {len(info_border_edges(ref))} / {len(bf)}")


def mfaces_h(m, f):
    return key(ints(m.faces[f]))


# ----------------------------------------------------------------------------- minimal: meshes without cells
@st.composite
def minimal_case(draw):
    return {"ctor": draw(st.sampled_from(["no-argument", "None", "data=None", "empty-RawMeshData", "vertices-only", "vertices-only"])),
            "nv": draw(st.integers(1, 6)), "sort": draw(st.booleans()), "flag_form": draw(st.sampled_from(list(FLAG_FORMS))),
            "order": draw(st.permutations(["lists", "extract", "boundary-object", "tables"])), "extract_kw": draw(st.booleans())}


def fn_minimal(case, ctx):
    """a volume mesh without cells: nothing is on the border, the boundary surface is empty (in any order of asking)"""
    import mouette as M
    from mouette.mesh.mesh_data import RawMeshData
    from mouette.processing import border as B
    M.config.sort_neighborhoods = flag(case, case["sort"])
    ctor, nv = case["ctor"], 0
    ctx.label("cells=0", "ctor=" + ctor, "first=" + case["order"][0], "flags-as=" + case["flag_form"])
    ctx.nontrivial(True)
    if ctor == "no-argument":
        ok, m = ctx.call("minimal:constructor", M.mesh.VolumeMesh)
    elif ctor == "None":
        ok, m = ctx.call("minimal:constructor", M.mesh.VolumeMesh, None)          # the documented default, spelled out
    elif ctor == "data=None":
        ok, m = ctx.call("minimal:constructor", M.mesh.VolumeMesh, data=None)
    else:
        raw = RawMeshData()
        if ctor == "vertices-only":
            nv = case["nv"]
            raw.vertices += [[float(i), float(i * i % 3), 0.0] for i in range(nv)]
        ok, m = ctx.call("minimal:constructor", M.mesh.VolumeMesh, raw)
    if not ok:
        return
    for step in case["order"]:
        if step == "lists":
            got = {}
            for name in ("boundary_faces", "interior_faces", "boundary_edges", "interior_edges", "boundary_vertices", "interior_vertices"):
                ok, l = ctx.call("minimal:lists", lambda: getattr(m, name))
                if not ok: return
                got[name] = as_list(l, name)
            ctx.check(all(got[k] == [] for k in ("boundary_faces", "interior_faces", "boundary_edges", "interior_edges", "boundary_vertices")), "minimal:lists",
                      f"a mesh without cells ({nv} vertices) has border / interior elements: { {k: v for k, v in got.items() if v} }")
            # (a vertex of no cell is not on the border; whether it is listed as interior is not asserted, only that nothing is listed twice)
            ctx.check(sorted(ints(got["interior_vertices"])) in ([], list(range(nv))), "minimal:lists", f"interior_vertices = {got['interior_vertices']} on a mesh with {nv} vertices and no cell")
        elif step == "extract":
            ok, res = ctx.call("minimal:extract", B.extract_boundary_of_volume, mesh=m) if case["extract_kw"] else ctx.call("minimal:extract", B.extract_boundary_of_volume, m)
            if ok and ctx.check(isinstance(res, tuple) and len(res) == 3, "minimal:extract", f"extract_boundary_of_volume returned {res!r:.100}"):
                sm, m2b, b2m = res
                ctx.check(len(sm.faces) == 0 and len(sm.vertices) == 0 and len(m2b) == 0 and len(b2m) == 0, "minimal:extract",
                          f"the boundary of a mesh without cells has {len(sm.faces)} faces, {len(sm.vertices)} vertices, maps {dict(m2b)} / {dict(b2m)}")
        elif step == "boundary-object":
            ok, _ = ctx.call("minimal:boundary-object", m.enable_boundary_connectivity)
            if ok and ctx.check(m.boundary_mesh is not None, "minimal:boundary-object", "boundary_mesh is None after enable_boundary_connectivity()"):
                bc, bm = m.boundary_connectivity, m.boundary_mesh
                ctx.check(len(bm.faces) == 0 and len(bm.vertices) == 0 and not any(len(d) for d in (bc.m2b_vertex, bc.b2m_vertex, bc.m2b_face, bc.b2m_face, bc.m2b_edge, bc.b2m_edge)),
                          "minimal:boundary-object", f"the boundary object of a mesh without cells is not empty: {len(bm.faces)} faces, {len(bm.vertices)} vertices")
        else:
            for v in range(nv):
                ok, r = ctx.call("minimal:tables", m.connectivity.vertex_to_cell, v)
                ok2, r2 = ctx.call("minimal:tables", m.is_vertex_on_border, v)
                if ok and ok2:
                    ctx.check(as_list(r, "vertex_to_cell") == [] and not bool(r2), "minimal:tables", f"vertex {v} of a mesh without cells: vertex_to_cell = {r}, is_vertex_on_border = {r2!r}")
            ok, r = ctx.call("minimal:tables", m.connectivity.face_id, 0, 1, 2)
            ok2, r2 = ctx.call("minimal:tables", m.connectivity.edge_id, 0, 1)
            if ok and ok2:
                ctx.check(r is None and r2 is None, "minimal:tables", f"face_id(0,1,2) = {r!r}, edge_id(0,1) = {r2!r} on a mesh without cells")


SUBCHECKS = [SubCheck("volume_queries", case_strategy(), fn, quick=600, thorough=1500),
             SubCheck("minimal", minimal_case(), fn_minimal, quick=48, thorough=60),
             SubCheck("huge", huge_case(), fn_huge, quick=1, thorough=1, watchdog=(600, 1200))]
MATCHERS = {}
