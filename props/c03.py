"""C03 - volume connectivity answers agree with the cell list; boundary extraction."""
import random
from collections import Counter
import numpy as np
from hypothesis import strategies as st
from vlib.runner import SubCheck
from vlib import gen_tets as GT
from vlib.topo import TetRef, SurfRef, key
from vlib.build import volume_from, ints, coords

PROPERTY = "C03"
RULE = ("Generated conforming tetrahedral meshes (single/two tets, fans around an edge, Kuhn subdivisions of box grids, 3-D "
        "Delaunay, 1-4 splits and cell removals; vertex renumbering, cell order and per-cell vertex permutation, orientation "
        "parity all-positive / all-negative / mixed) x neighbourhood sorting on/off x a generated query sequence on a fresh "
        "mesh + full sweep in shuffled kind order on a second fresh mesh + boundary extraction (boundary connectivity object "
        "and standalone extractor). One base shape is a 3x3x3 block of cubes with the centre cube missing (boundary with a cavity "
        "component). Size regime (huge): Kuhn grids with > 65536 cells but < 65536 vertices (24^3 vertices, 73002 cells) and slabs, "
        "vertex_to_cell for every vertex, cell / face / edge tables sampled at both ends of the id range, border lists. "
        "non-trivial = >=2 cells and >=1 interior face (huge: > 65536 cells or vertices); distinct = distinct (cells, sort, sequence).")
ASSUMPTIONS = ["cells are tetrahedra forming a conforming complex whose boundary is a manifold surface",
               "'positively oriented' = det(pA-pD,pB-pD,pC-pD) > 0 for a cell (A,B,C,D), the library's own signed volume"]

KINDS = ["face_to_cells", "cell_to_face", "cell_to_cell", "edge_to_cell", "edge_to_face", "vertex_to_cell", "cell_to_edge",
         "in_cell_index", "in_cell_face_index", "common_face", "other_face_side", "is_face_on_border", "is_face_on_border_v",
         "is_edge_on_border", "is_edge_on_border_uv", "is_vertex_on_border", "border_faces", "border_edges", "border_vertices",
         "cell_to_vertex", "face_id", "edge_id", "clear_caches", "n_F2C", "is_tetrahedral", "poke_invalid"]


@st.composite
def case_strategy(draw, max_cells=40):
    t = draw(GT.tets(max_cells=max_cells))
    first = draw(st.sampled_from(KINDS))
    rest = draw(st.lists(st.tuples(st.sampled_from(KINDS), st.integers(0, 10 ** 6), st.integers(0, 10 ** 6)), min_size=5, max_size=40))
    return {"V": t["V"], "C": t["C"], "tags": t["tags"], "sort": draw(st.booleans()),
            "queries": [[first, draw(st.integers(0, 10 ** 6)), draw(st.integers(0, 10 ** 6))]] + [list(q) for q in rest],
            "sweep_seed": draw(st.integers(0, 1000)), "form": draw(st.sampled_from(["list", "tuple", "numpy"])), "np_ids": draw(st.integers(0, 3)) == 0,
            # how the mesh object under test is produced: directly, or written to a file and loaded back ("however a mesh is built")
            "via": draw(st.sampled_from([None, None, None, "tet", "mesh", "geogram_ascii"])),
            "prequery_before_save": draw(st.booleans()),
            "scale": draw(st.sampled_from([1.0, 1.0, 1.0, 1e-6, 1e-3, 1e3, 1e6])),
            "pre_border": draw(st.sampled_from([None, None, None, "bool", "bool", "int"])), "pre_border_seed": draw(st.integers(0, 1000)),
            "dup_warn": draw(st.integers(0, 3)) == 0}


def rot_ok_cells(seq, ref, ek, closed):
    """consecutive cells share a face containing the edge; cyclic if closed"""
    n = len(seq)
    def share(c1, c2):
        common = set(ref.C[c1]) & set(ref.C[c2])
        return len(common) == 3 and set(ek) <= common
    for i in range(n - 1):
        if not share(seq[i], seq[i + 1]):
            return False
    if closed and n > 2 and not share(seq[-1], seq[0]):
        return False
    return True


def rot_ok_faces(seq_keys, ref, ek, closed):
    n = len(seq_keys)
    def share(f1, f2):
        return bool(set(ref.f2c[f1]) & set(ref.f2c[f2]))
    for i in range(n - 1):
        if not share(seq_keys[i], seq_keys[i + 1]):
            return False
    if closed and n > 2 and not share(seq_keys[-1], seq_keys[0]):
        return False
    if not closed and n >= 1:
        if len(ref.f2c[seq_keys[0]]) != 1 or len(ref.f2c[seq_keys[-1]]) != 1:
            return False
    return True


def do_query(m, ref, info, sort_on, q, ctx, where):
    kind, a, b = q
    C = m.connectivity
    mfaces, fid, medges, eid = info
    nV, nC, nF, nE = ref.nV, len(ref.C), len(mfaces), len(medges)
    sig = "q:" + kind
    np_ids = bool((getattr(ctx, "case", None) or {}).get("np_ids"))

    def call(f, *args):
        if np_ids:
            args = tuple(np.int64(x) if (isinstance(x, int) and not isinstance(x, bool)) else x for x in args)
        return ctx.call(sig, f, *args)

    if kind == "face_to_cells":
        f = a % nF
        ok, r = call(C.face_to_cells, f)
        if ok:
            exp = sorted(ref.f2c[mfaces[f]])
            ctx.check(sorted(ints(r)) == exp, sig, f"{where}: face_to_cells({f}) = {list(r)}, expected {exp}")
    elif kind == "cell_to_face":
        c = a % nC
        ok, r = call(C.cell_to_face, c)
        if ok:
            cl = ref.C[c]
            exp = [fid.get(key(cl[:i] + cl[i + 1:])) for i in range(4)]
            ctx.check(list(r) == exp, sig, f"{where}: cell_to_face({c}) = {list(r)}, expected (i-th opposite i-th vertex) {exp}")
    elif kind == "cell_to_cell":
        c = a % nC
        ok, r = call(C.cell_to_cell, c)
        if ok:
            ctx.check(sorted(ints(r)) == ref.cell_neighbours(c), sig, f"{where}: cell_to_cell({c}) = {list(r)}, expected {ref.cell_neighbours(c)}")
    elif kind in ("edge_to_cell", "edge_to_face"):
        e = a % nE
        ek = medges[e]
        ok, r = call(getattr(C, kind), e)
        if not ok: return
        r = ints(r)
        closed = ek not in info_border_edges(ref)
        if kind == "edge_to_cell":
            exp = sorted(ref.e2c[ek])
            if not ctx.check(sorted(r) == exp, sig, f"{where}: edge_to_cell({e}={ek}) = {r}, expected set {exp}"): return
            if sort_on:
                ctx.check(rot_ok_cells(r, ref, ek, closed), sig + ":order", f"{where}: edge_to_cell({e}={ek}) = {r} not in rotational order (closed={closed})")
        else:
            exp = sorted(fid[fk] for fk in ref.e2f[ek])
            if not ctx.check(sorted(r) == exp, sig, f"{where}: edge_to_face({e}={ek}) = {r}, expected set {exp}"): return
            if sort_on:
                ctx.check(rot_ok_faces([mfaces[f] for f in r], ref, ek, closed), sig + ":order", f"{where}: edge_to_face({e}={ek}) = {r} not in rotational order (closed={closed})")
    elif kind == "vertex_to_cell":
        v = a % nV
        ok, r = call(C.vertex_to_cell, v)
        if ok:
            ctx.check(sorted(ints(r)) == sorted(ref.v2c[v]), sig, f"{where}: vertex_to_cell({v}) = {list(r)}, expected {sorted(ref.v2c[v])}")
    elif kind == "cell_to_edge":
        c = a % nC
        ok, r = call(C.cell_to_edge, c)
        if ok:
            cl = ref.C[c]
            exp = sorted(eid[key(cl[i], cl[j])] for i in range(4) for j in range(i))
            ctx.check(sorted(ints(r)) == exp, sig, f"{where}: cell_to_edge({c}) = {list(r)}, expected {exp}")
    elif kind == "cell_to_vertex":
        c = a % nC
        ok, r = call(C.cell_to_vertex, c)
        if ok:
            ctx.check(ints(r) == list(ref.C[c]), sig, f"{where}: cell_to_vertex({c}) = {list(r)}")
    elif kind == "in_cell_index":
        c = a % nC
        cl = ref.C[c]
        v = cl[b % 4] if b % 3 else b % nV
        ok, r = call(C.in_cell_index, c, v)
        if ok:
            exp = cl.index(v) if v in cl else None
            ctx.check(r == exp, sig, f"{where}: in_cell_index({c},{v}) = {r!r}, expected {exp!r}")
    elif kind == "in_cell_face_index":
        c = a % nC
        cl = ref.C[c]
        if b % 3:
            i = b % 4
            f = fid[key(cl[:i] + cl[i + 1:])]
        else:
            f = b % nF
        ok, r = call(C.in_cell_face_index, c, f)
        if ok:
            exp = None
            for i in range(4):
                if key(cl[:i] + cl[i + 1:]) == mfaces[f]:
                    exp = i
            ctx.check(r == exp, sig, f"{where}: in_cell_face_index({c},{f}) = {r!r}, expected {exp!r}")
    elif kind == "common_face":
        c1 = a % nC
        nb = ref.cell_neighbours(c1)
        c2 = nb[b % len(nb)] if (nb and b % 3) else b % nC
        if c1 == c2: return
        ok, r = call(C.common_face, c1, c2)
        if ok:
            common = set(ref.C[c1]) & set(ref.C[c2])
            exp = fid.get(key(common)) if len(common) == 3 else None
            ctx.check(r == exp, sig, f"{where}: common_face({c1},{c2}) = {r!r}, expected {exp!r}")
    elif kind == "other_face_side":
        c = a % nC
        cl = ref.C[c]
        if b % 3:
            i = b % 4
            f = fid[key(cl[:i] + cl[i + 1:])]
        else:
            f = b % nF
        ok, r = call(C.other_face_side, c, f)
        if ok:
            cs = ref.f2c[mfaces[f]]
            exp = None
            if len(cs) == 2 and c in cs:
                exp = cs[0] if cs[1] == c else cs[1]
            ctx.check(r == exp, sig, f"{where}: other_face_side({c},{f}) = {r!r}, expected {exp!r}")
    elif kind == "is_face_on_border":
        f = a % nF
        ok, r = call(m.is_face_on_border, f)
        if ok:
            ctx.check(bool(r) == (len(ref.f2c[mfaces[f]]) == 1), sig, f"{where}: is_face_on_border({f}) = {r!r}")
    elif kind == "is_face_on_border_v":
        f = a % nF
        vs = list(mfaces[f]); random.Random(b).shuffle(vs)
        ok, r = call(m.is_face_on_border, *vs)
        if ok:
            ctx.check(bool(r) == (len(ref.f2c[mfaces[f]]) == 1), sig, f"{where}: is_face_on_border{tuple(vs)} = {r!r}")
    elif kind == "is_edge_on_border":
        e = a % nE
        ok, r = call(m.is_edge_on_border, e)
        if ok:
            ctx.check(bool(r) == (medges[e] in info_border_edges(ref)), sig, f"{where}: is_edge_on_border({e}) = {r!r}")
    elif kind == "is_edge_on_border_uv":
        e = a % nE
        u, v = medges[e] if b % 2 else medges[e][::-1]
        ok, r = call(m.is_edge_on_border, u, v)
        if ok:
            ctx.check(bool(r) == (medges[e] in info_border_edges(ref)), sig, f"{where}: is_edge_on_border({u},{v}) = {r!r}")
    elif kind == "is_vertex_on_border":
        v = a % nV
        ok, r = call(m.is_vertex_on_border, v)
        if ok:
            ctx.check(bool(r) == (v in ref.border_vertices()), sig, f"{where}: is_vertex_on_border({v}) = {r!r}")
    elif kind == "border_faces":
        ok, bf = call(lambda: m.boundary_faces)
        ok2, jf = call(lambda: m.interior_faces)
        if ok and ok2:
            bf, jf = ints(bf), ints(jf)
            exp = sorted(fid[fk] for fk in ref.border_faces())
            ctx.check(sorted(bf) == exp and len(set(bf)) == len(bf), sig, f"{where}: boundary_faces = {bf}, expected {exp}")
            ctx.check(sorted(bf + jf) == list(range(nF)), sig, f"{where}: boundary/interior faces do not partition the face range")
    elif kind == "border_edges":
        ok, be = call(lambda: m.boundary_edges)
        ok2, je = call(lambda: m.interior_edges)
        if ok and ok2:
            be, je = ints(be), ints(je)
            exp = sorted(eid[ek] for ek in info_border_edges(ref))
            ctx.check(sorted(be) == exp and len(set(be)) == len(be), sig, f"{where}: boundary_edges = {be}, expected {exp}")
            ctx.check(sorted(be + je) == list(range(nE)), sig, f"{where}: boundary/interior edges do not partition the edge range")
    elif kind == "border_vertices":
        ok, bv = call(lambda: m.boundary_vertices)
        ok2, jv = call(lambda: m.interior_vertices)
        if ok and ok2:
            bv, jv = ints(bv), ints(jv)
            exp = sorted(ref.border_vertices())
            ctx.check(sorted(bv) == exp and len(set(bv)) == len(bv), sig, f"{where}: boundary_vertices = {bv}, expected {exp}")
            ctx.check(sorted(bv + jv) == list(range(nV)), sig, f"{where}: boundary/interior vertices do not partition the vertex range")
    elif kind == "face_id":
        f = a % nF
        vs = list(mfaces[f]); random.Random(b).shuffle(vs)
        ok, r = call(C.face_id, *vs)
        if ok:
            ctx.check(r == f, sig, f"{where}: face_id{tuple(vs)} = {r!r}, expected {f}")
    elif kind == "edge_id":
        e = a % nE
        u, v = medges[e] if b % 2 else medges[e][::-1]
        ok, r = call(C.edge_id, u, v)
        if ok:
            ctx.check(r == e, sig, f"{where}: edge_id({u},{v}) = {r!r}, expected {e}")
    elif kind == "poke_invalid":
        bad = [(C.face_to_cells, (nF + 1 + a % 3,)), (C.cell_to_face, (nC + a % 2,)), (C.cell_to_cell, (nC + 1,)), (C.edge_to_cell, (nE + 2,)),
               (C.edge_to_face, (nE,)), (C.vertex_to_cell, (nV + 3,)), (C.cell_to_edge, (nC,)), (C.in_cell_index, (nC + 1, 0)),
               (C.other_face_side, (nC, nF)), (C.common_face, (nC, nC + 1)), (m.is_face_on_border, (nF + 4,)), (m.is_edge_on_border, (nE + 1,)),
               (m.is_vertex_on_border, (nV + 2,)), (C.face_id, (nV, nV + 1, nV + 2))]
        f_, args_ = bad[b % len(bad)]
        try:
            f_(*args_)      # whatever it answers or raises, later answers must not change
        except Exception:
            pass
    elif kind == "clear_caches":
        call(C.clear)          # documented reset; later answers must not change
    elif kind == "n_F2C":
        f = a % nF
        ok, r = call(C.n_F2C, f)
        if ok:
            ctx.check(r == len(ref.f2c[mfaces[f]]), sig, f"{where}: n_F2C({f}) = {r}")
    elif kind == "is_tetrahedral":
        ok, r = call(m.is_tetrahedral)
        ok2, r2 = call(m.is_cell_tet, a % nC)
        if ok and ok2:
            ctx.check(bool(r) and bool(r2), sig, f"{where}: is_tetrahedral() = {r}, is_cell_tet = {r2} on a tetrahedral mesh")
    else:
        raise AssertionError(kind)


_be_cache = {}


def info_border_edges(ref):
    # cached on the reference object itself (an id()-keyed cache can go stale when ids are reused)
    be = getattr(ref, "_border_edges_cache", None)
    if be is None:
        be = ref.border_edges()
        ref._border_edges_cache = be
    return be


def build(case):
    import mouette as M
    M.config.display_duplicate_attribute_warning = bool(case.get("dup_warn", False))
    m = _build(case)
    if case.get("pre_border"):
        # attributes called "border" (the name the mesh uses for its own flags) already on the vertices / edges, arbitrary flags
        rnd = random.Random(case.get("pre_border_seed", 0))
        typ = bool if case["pre_border"] == "bool" else int
        for cont in (m.vertices, m.edges):
            a = cont.create_attribute("border", typ, dense=bool(rnd.randrange(2)))
            for i in range(len(cont)):
                if rnd.randrange(2):
                    a[i] = typ(1)
    return m


def _build(case):
    import mouette as M, os, tempfile, shutil
    M.config.sort_neighborhoods = bool(case["sort"])
    m = volume_from(case["V"], case["C"], case.get("form", "list"))
    via = case.get("via")
    if via:
        if case.get("prequery_before_save"):
            m.connectivity.cell_to_cell(0)     # leaves the cell adjacency attribute on the mesh that gets saved
        d = tempfile.mkdtemp(prefix="c03_")
        try:
            p = os.path.join(d, "m." + via)
            M.mesh.save(m, p)
            m2 = M.mesh.load(p)
        finally:
            shutil.rmtree(d, ignore_errors=True)
        # whether the file round trip preserves the cells is C04's business: only a faithful reload is used here
        same = (type(m2).__name__ == "VolumeMesh" and [tuple(ints(c)) for c in m2.cells] == [tuple(c) for c in case["C"]]
                and len(m2.vertices) == len(case["V"]))
        if same:
            return m2
    return m


def containers(m, ref, ctx):
    mfaces = [key(f) for f in m.faces]
    medges = [tuple(ints(e)) for e in m.edges]
    ok = ctx.check(len(set(mfaces)) == len(mfaces) and set(mfaces) == ref.fkeys, "faces",
                   f"face container is not 'each face of each tetrahedron exactly once': {len(mfaces)} faces, {len(ref.fkeys)} expected")
    ok = ctx.check(len(set(medges)) == len(medges) and set(medges) == ref.ekeys, "edges",
                   f"edge container is not 'each edge exactly once, low index first'") and ok
    return mfaces, {f: i for i, f in enumerate(mfaces)}, medges, {e: i for i, e in enumerate(medges)}, ok


def check_boundary_surface(ctx, V, faces_b, b2m_v, ref, what, expect_outward, cells_of_face):
    """faces_b: boundary faces as tuples of boundary vertex ids; b2m_v maps them to volume ids"""
    vol_faces = [tuple(b2m_v[v] for v in f) for f in faces_b]
    ctx.check(sorted(key(f) for f in vol_faces) == sorted(ref.border_faces()), what + ":faces",
              f"{what}: faces are not exactly the border faces: {sorted(key(f) for f in vol_faces)[:10]} vs {sorted(ref.border_faces())[:10]}")
    nb = 1 + max((v for f in faces_b for v in f), default=-1)
    sref = SurfRef(nb, faces_b)
    if expect_outward:
        A = np.array(V, dtype=float)
        for f in vol_faces:
            cs = ref.f2c[key(f)]
            if len(cs) != 1:
                continue
            cc = np.mean(A[list(ref.C[cs[0]])], axis=0)
            a, b, c = A[f[0]], A[f[1]], A[f[2]]
            n = np.cross(b - a, c - a)
            d = float(np.dot(n, (a + b + c) / 3 - cc))
            ctx.check(d > 0, what + ":outward", f"{what}: face {f} (volume ids) points into its cell {ref.C[cs[0]]} (n.(cf-cc) = {d:.3g})")
        err = sref.validate()
        ctx.check(err is None, what + ":manifold", f"{what}: boundary surface is not a consistently oriented manifold: {err}")
    # closed: every edge in exactly two faces
    cnt = Counter()
    for f in faces_b:
        for i in range(3):
            cnt[key(f[i], f[(i + 1) % 3])] += 1
    ctx.check(all(n == 2 for n in cnt.values()), what + ":closed", f"{what}: boundary surface is not closed: edge/face counts {dict(Counter(cnt.values()))}")


def fn(case, ctx):
    sc = case.get("scale", 1.0)
    if sc != 1.0:
        case = dict(case, V=[[x * sc for x in v] for v in case["V"]])     # uniform scale: no answer may depend on it
        ctx.label("scale=%g" % sc)
    V, Cl = case["V"], case["C"]
    ref = TetRef(len(V), Cl)
    for t in case.get("tags", []):
        ctx.label(t)
    ctx.label("sort=" + str(case["sort"]), "via=" + str(case.get("via")), "ids=" + ("numpy" if case.get("np_ids") else "int"), "form=" + case.get("form", "list"))
    if case.get("pre_border"): ctx.label("pre-existing-border-attributes=" + case["pre_border"])
    if case.get("dup_warn"): ctx.label("duplicate-attribute-switch-on")
    ctx.label("first=" + case["queries"][0][0])
    ctx.nontrivial(len(Cl) >= 2 and any(len(cs) == 2 for cs in ref.f2c.values()))

    m = build(case)
    mfaces, fid, medges, eid, ok = containers(m, ref, ctx)
    if not ok:
        return
    info = (mfaces, fid, medges, eid)
    for i, q in enumerate(case["queries"]):
        do_query(m, ref, info, case["sort"], q, ctx, f"query #{i} (after {[x[0] for x in case['queries'][:i]][-3:]})")

    m2 = build(case)
    rnd = random.Random(case["sweep_seed"])
    kinds = list(KINDS); rnd.shuffle(kinds)
    nV, nC, nF, nE = len(V), len(Cl), len(mfaces), len(medges)
    for kind in kinds:
        if kind in ("face_to_cells", "is_face_on_border", "is_face_on_border_v", "face_id"):
            qs = [[kind, f, rnd.randrange(100)] for f in range(nF)]
        elif kind in ("cell_to_face", "cell_to_cell", "cell_to_edge", "cell_to_vertex"):
            qs = [[kind, c, 0] for c in range(nC)]
        elif kind in ("edge_to_cell", "edge_to_face", "is_edge_on_border"):
            qs = [[kind, e, 0] for e in range(nE)]
        elif kind in ("is_edge_on_border_uv", "edge_id"):
            qs = [[kind, e, o] for e in range(nE) for o in (0, 1)]
        elif kind in ("vertex_to_cell", "is_vertex_on_border"):
            qs = [[kind, v, 0] for v in range(nV)]
        elif kind in ("in_cell_index", "in_cell_face_index", "other_face_side"):
            qs = [[kind, c, b] for c in range(nC) for b in (1, 2, 4, 5)] + [[kind, c, 3 * rnd.randrange(50)] for c in range(nC)]
        elif kind == "common_face":
            qs = [[kind, c, b] for c in range(nC) for b in (1, 2, 4, 5)] + [[kind, c, 3 * rnd.randrange(50)] for c in range(nC)]
        elif kind == "n_F2C":
            qs = [[kind, f, 0] for f in range(nF)]
        elif kind == "poke_invalid":
            qs = [[kind, rnd.randrange(12), rnd.randrange(40)] for _ in range(3)]
        else:
            qs = [[kind, 0, 0]]
        for q in qs:
            do_query(m2, ref, info, case["sort"], q, ctx, f"sweep (kind order ..{kinds[:kinds.index(kind) + 1][-3:]})")

    # ---- boundary: connectivity object
    m3 = build(case)
    ok, _ = ctx.call("boundary:enable", m3.enable_boundary_connectivity)
    if ok:
        bc = m3.boundary_connectivity
        bm = m3.boundary_mesh
        if ctx.check(bm is not None and bc is not None, "boundary:mesh", "boundary_mesh is None after enable_boundary_connectivity()"):
            bf = [tuple(ints(f)) for f in bm.faces]
            b2m_v = dict(bc.b2m_vertex); m2b_v = dict(bc.m2b_vertex)
            good = ctx.check(sorted(b2m_v) == list(range(len(bm.vertices))) and sorted(m2b_v) == sorted(ref.border_vertices()), "boundary:vmap",
                             f"vertex maps do not cover boundary vertices: b2m keys {sorted(b2m_v)[:8]}.., m2b keys {sorted(m2b_v)[:8]}..")
            if good:
                ctx.check(all(m2b_v[b2m_v[i]] == i for i in b2m_v) and all(b2m_v[m2b_v[v]] == v for v in m2b_v), "boundary:vmap", "m2b_vertex and b2m_vertex are not mutually inverse")
                Vb = coords(bm); Vm = coords(m3)
                ctx.check(all(np.array_equal(Vb[i], Vm[b2m_v[i]]) for i in b2m_v), "boundary:vcoords", "a boundary vertex does not have its volume vertex's coordinates")
                check_boundary_surface(ctx, V, bf, b2m_v, ref, "boundary_mesh", True, None)
                m2b_f = dict(bc.m2b_face); b2m_f = dict(bc.b2m_face)
                ctx.check(sorted(m2b_f) == sorted(fid[fk] for fk in ref.border_faces()) and sorted(b2m_f) == list(range(len(bf))), "boundary:fmap", "face maps do not cover exactly the border faces")
                ctx.check(all(m2b_f.get(b2m_f[i]) == i for i in b2m_f) and all(b2m_f.get(m2b_f[f]) == f for f in m2b_f), "boundary:fmap", "m2b_face / b2m_face not mutually inverse")
                for i, f in enumerate(bf):
                    if i in b2m_f and 0 <= b2m_f[i] < len(mfaces):
                        ctx.check(key(b2m_v[v] for v in f) == mfaces[b2m_f[i]], "boundary:fmap", f"boundary face {i} maps to volume face {b2m_f[i]} with other vertices")
                m2b_e = dict(bc.m2b_edge); b2m_e = dict(bc.b2m_edge)
                bedges = [tuple(ints(e)) for e in bm.edges]
                ctx.check(sorted(m2b_e) == sorted(eid[ek] for ek in ref.border_edges()) and sorted(b2m_e) == list(range(len(bedges))), "boundary:emap",
                          f"edge maps do not cover exactly the border edges: m2b {sorted(m2b_e)[:8]} b2m {sorted(b2m_e)[:8]} expected {sorted(eid[ek] for ek in ref.border_edges())[:8]}")
                ctx.check(all(m2b_e.get(b2m_e[i]) == i for i in b2m_e) and all(b2m_e.get(m2b_e[e]) == e for e in m2b_e), "boundary:emap", "m2b_edge / b2m_edge not mutually inverse")
                for i, (a, b) in enumerate(bedges):
                    if i in b2m_e and 0 <= b2m_e[i] < len(medges):
                        ctx.check(key(b2m_v[a], b2m_v[b]) == medges[b2m_e[i]], "boundary:emap", f"boundary edge {i} maps to a volume edge with other end points")
                # a few answers of the boundary connectivity object, translated to volume ids
                for v in sorted(ref.border_vertices())[:6]:
                    ok2, r = ctx.call("boundary:v2v", bc.vertex_to_vertices, v)
                    if ok2:
                        exp = sorted(w for w in ref.border_vertices() if key(v, w) in ref.border_edges())
                        ctx.check(sorted(ints(r)) == exp, "boundary:v2v", f"boundary vertex_to_vertices({v}) = {r}, expected {exp}")
                    ok2, r = ctx.call("boundary:v2f", bc.vertex_to_faces, v)
                    if ok2 and r is not None:
                        exp = sorted(fid[fk] for fk in ref.border_faces() if v in fk)
                        ctx.check(sorted(ints(r)) == exp, "boundary:v2f", f"boundary vertex_to_faces({v}) = {r}, expected {exp}")
                    ok2, r = ctx.call("boundary:v2e", bc.vertex_to_edges, v)
                    if ok2:
                        exp = sorted(eid[ek] for ek in ref.border_edges() if v in ek)
                        ctx.check(sorted(ints(r)) == exp, "boundary:v2e", f"boundary vertex_to_edges({v}) = {r}, expected {exp}")
                for fk in sorted(ref.border_faces())[:6]:
                    f = fid[fk]
                    ok2, r = ctx.call("boundary:f2e", bc.face_to_edges, f)
                    if ok2:
                        exp = sorted(eid[key(fk[i], fk[(i + 1) % 3])] for i in range(3))
                        ctx.check(sorted(ints(r)) == exp, "boundary:f2e", f"boundary face_to_edges({f}) = {r}, expected {exp}")
                    ok2, r = ctx.call("boundary:f2f", bc.face_to_faces, f)
                    if ok2:
                        exp = sorted(fid[g] for g in ref.border_faces() if g != fk and len(set(g) & set(fk)) == 2)
                        ctx.check(sorted(ints(r)) == exp, "boundary:f2f", f"boundary face_to_faces({f}) = {r}, expected {exp}")
                interior = [f for f in range(len(mfaces)) if len(ref.f2c[mfaces[f]]) == 2][:2]
                for f in interior:
                    ok2, r = ctx.call("boundary:f2e-interior", bc.face_to_edges, f)
                    if ok2:
                        ctx.check(list(r) == [], "boundary:f2e-interior", f"boundary face_to_edges of interior face {f} = {r}, expected []")

    # ---- boundary: standalone extractor
    from mouette.processing import border as B
    m4 = build(case)
    ok, res = ctx.call("extract:call", B.extract_boundary_of_volume, m4)
    if ok:
        sm, m2b, b2m = res
        sf = [tuple(ints(f)) for f in sm.faces]
        good = ctx.check(sorted(b2m) == list(range(len(sm.vertices))) and sorted(m2b) == sorted(ref.border_vertices()), "extract:vmap", "vertex maps do not cover the boundary vertices")
        if good:
            ctx.check(all(m2b[b2m[i]] == i for i in b2m) and all(b2m[m2b[v]] == v for v in m2b), "extract:vmap", "maps not mutually inverse")
            Vb = coords(sm); Vm = coords(m4)
            ctx.check(all(np.array_equal(Vb[i], Vm[b2m[i]]) for i in b2m), "extract:vcoords", "a boundary vertex does not have its volume vertex's coordinates")
            allpos = all(GT.lib_det(V, c) > 0 for c in Cl)
            check_boundary_surface(ctx, V, sf, b2m, ref, "extract_boundary_of_volume", allpos, None)
            bedges = set(tuple(ints(e)) for e in sm.edges)
            ctx.check(bedges == set(key(m2b[a], m2b[b]) for (a, b) in ref.border_edges()), "extract:edges", "edges of the extracted surface are not the mapped border edges")
        # history on the same mesh object: border answers after the extraction, a second extraction, then the connectivity object
        for kind in ("border_faces", "border_edges", "border_vertices"):
            do_query(m4, ref, info, case["sort"], [kind, 0, 0], ctx, "after extract_boundary_of_volume on the same mesh")
        for f in range(min(len(mfaces), 8)):
            do_query(m4, ref, info, case["sort"], ["is_face_on_border", f, 0], ctx, "after extract_boundary_of_volume on the same mesh")
        ok2, res2 = ctx.call("extract:second-call", B.extract_boundary_of_volume, m4)
        if ok2:
            sf2 = [tuple(ints(f)) for f in res2[0].faces]
            ctx.check(sorted(key(res2[2][v] for v in f) for f in sf2) == sorted(ref.border_faces()), "extract:second-call",
                      "a second extract_boundary_of_volume on the same mesh does not give the border faces")
        ok3, _ = ctx.call("boundary:enable-after-extract", m4.enable_boundary_connectivity)
        if ok3 and m4.boundary_mesh is not None:
            bc4 = m4.boundary_connectivity
            ctx.check(sorted(key(bc4.b2m_vertex[v] for v in ints(f)) for f in m4.boundary_mesh.faces) == sorted(ref.border_faces()),
                      "boundary:enable-after-extract", "boundary_mesh built after a standalone extraction is not made of the border faces")


# ----------------------------------------------------------------------------- size regime: ids and counts beyond 2**16
@st.composite
def huge_case(draw):
    # a Kuhn grid with fewer than 65536 vertices and more than 65536 cells (24^3 vertices, 73002 cells), or a slab with more
    # than 65536 vertices; a fixed recipe realised in fn (the case stays small)
    return {"dims": draw(st.sampled_from([[23, 23, 23], [23, 23, 23], [40, 40, 7], [110, 100, 1]])), "sort": draw(st.booleans()),
            "reverse_cells": draw(st.booleans()), "seed": draw(st.integers(0, 10 ** 6))}


def fn_huge(case, ctx):
    import mouette as M
    M.config.sort_neighborhoods = bool(case["sort"])
    a, b, c = case["dims"]
    V, C = GT.kuhn(a, b, c)
    if case["reverse_cells"]:
        C = C[::-1]
    ref = TetRef(len(V), C)
    ctx.label(f"cells>{2 ** 16}" if len(C) > 2 ** 16 else "cells<=65536", f"vertices>{2 ** 16}" if len(V) > 2 ** 16 else "vertices<=65536")
    ctx.nontrivial(len(C) > 2 ** 16 or len(V) > 2 ** 16)
    m = volume_from(V, C)
    K = m.connectivity
    rnd = random.Random(case["seed"])
    nV, nC = len(V), len(C)
    v2c = {}
    for ic, cell in enumerate(ref.C):
        for v in cell:
            v2c.setdefault(v, set()).add(ic)
    for v in range(nV):
        ok, r = ctx.call("huge:vertex_to_cell", K.vertex_to_cell, v)
        if ok and not ctx.check(sorted(ints(r)) == sorted(v2c.get(v, ())), "huge:vertex_to_cell",
                                f"{a}x{b}x{c} Kuhn grid ({nV} vertices, {nC} cells): vertex_to_cell({v}) = {sorted(ints(r))[:8]}.., expected {sorted(v2c.get(v, ()))[:8]}.."):
            return
    cells = sorted(set(list(range(min(nC, 60))) + list(range(max(0, nC - 400), nC)) + [rnd.randrange(nC) for _ in range(400)]))
    fkeys = list(ref.f2c.keys())
    for ic in cells:
        ok, r = ctx.call("huge:cell_to_cell", K.cell_to_cell, ic)
        if ok:
            cset = set(ref.C[ic])
            exp = sorted(set(j for v in ref.C[ic] for j in v2c[v] if j != ic and len(cset & set(ref.C[j])) == 3))
            if not ctx.check(sorted(ints(r)) == exp, "huge:cell_to_cell", f"{nC} cells: cell_to_cell({ic}) = {sorted(ints(r))}, expected {exp}"):
                return
        ok, r = ctx.call("huge:cell_to_face", K.cell_to_face, ic)
        if ok:
            fl = ints(r)
            good = len(fl) == 4 and all(0 <= f < len(m.faces) for f in fl)
            if good:
                for i, f in enumerate(fl):
                    good = good and set(ints(m.faces[f])) == set(ref.C[ic]) - {ref.C[ic][i]}
            if not ctx.check(good, "huge:cell_to_face", f"{nC} cells: cell_to_face({ic}) = {fl}: the i-th face is not the one opposite the i-th vertex"):
                return
    nF = len(m.faces)
    ctx.check(nF == len(ref.f2c), "huge:faces", f"{nF} faces, expected {len(ref.f2c)}")
    for f in sorted(set(list(range(min(nF, 50))) + list(range(max(0, nF - 400), nF)) + [rnd.randrange(nF) for _ in range(300)])):
        ok, r = ctx.call("huge:face_to_cells", K.face_to_cells, f)
        if ok:
            exp = sorted(ref.f2c[key(ints(m.faces[f]))])
            got = sorted(ints(r))
            if not ctx.check(got == exp, "huge:face_to_cells", f"{nF} faces: face_to_cells({f}) = {r}, expected {exp}"):
                return
    bf = ref.border_faces()
    ok, lst = ctx.call("huge:boundary_faces", lambda: m.boundary_faces)
    if ok:
        ctx.check(set(key(ints(m.faces[f])) for f in ints(lst)) == bf and len(lst) == len(bf), "huge:border_faces",
                  f"boundary_faces lists {len(lst)} faces, expected {len(bf)}")
    bv = ref.border_vertices()
    ok, lst = ctx.call("huge:boundary_vertices", lambda: m.boundary_vertices)
    if ok:
        ctx.check(set(ints(lst)) == bv and len(lst) == len(bv), "huge:border_vertices", f"boundary_vertices lists {len(lst)} vertices, expected {len(bv)}")
    ne = len(m.edges)
    ctx.check(set(tuple(ints(e)) for e in m.edges) == ref.ekeys and ne == len(ref.ekeys), "huge:edges", f"{ne} edges, expected {len(ref.ekeys)}")
    medges = [tuple(ints(e)) for e in m.edges]
    for e in sorted(set(list(range(min(ne, 50))) + list(range(max(0, ne - 400), ne)) + [rnd.randrange(ne) for _ in range(300)])):
        u, v = medges[e]
        ok, r = ctx.call("huge:edge_id", K.edge_id, u, v)
        if ok and not ctx.check(r == e, "huge:edge_id", f"{ne} edges: edge_id({u},{v}) = {r!r}, expected {e}"):
            return
        ok, r = ctx.call("huge:edge_to_cell", K.edge_to_cell, e)
        if ok:
            exp = sorted(j for j in v2c[u] & v2c[v])
            if not ctx.check(sorted(ints(r)) == exp, "huge:edge_to_cell", f"edge_to_cell({u},{v}) = {sorted(ints(r))}, expected {exp}"):
                return


SUBCHECKS = [SubCheck("volume_queries", case_strategy(), fn, quick=600, thorough=1500),
             SubCheck("huge", huge_case(), fn_huge, quick=1, thorough=1, watchdog=(300, 600))]
MATCHERS = {}
