"""C16 - cutting along singularities yields a disk with faces in bijection (SingularityCutter)."""
import math, io, os, copy, contextlib
from collections import defaultdict
import numpy as np
from hypothesis import strategies as st
from vlib.runner import SubCheck, HarnessError
from vlib import gen_surface as G
from vlib.topo import SurfRef, key
from vlib.build import surface_from, ints

PROPERTY = "C16"
RULE = ("Connected oriented triangulated surfaces built by the harness: grids, cylinders, tori, Delaunay disks, fans, strips, "
        "closed polyhedra (optionally midpoint-subdivided), connected sums with tori / polyhedra (genus 0-3; sub-check cut_large "
        "subdivides every base to 300-1500 faces, cut_small stays <= ~200), then random face "
        "deletions (new border loops), edge flips, 1-3 splits, triangle edge splits; largest face component kept; optional jitter "
        "(un-jittered regular grids keep exact shortest-path ties; 1 small case in 12 is a 'tie-trap' torus lattice with one exact "
        "unequal-sided parallelogram between three singular vertices, where paths computed from different sources tie; 1 in 12 is a 'crease-tie' bent sheet of equilateral triangles with two singular vertices one above the other next to the fold; "
        "1 in 5 of the others - in cut_large too - is a 'lattice-tie' sheet: staggered (rectangular outline) or sheared (parallelogram) lattice of triangles, row height "
        "sqrt(3)/2 / 0.75 / 1 / 1.25, in which every vertex has two equally distant neighbours in the row below and above, bent along 0-2 rows by "
        "+-75 / 90 / 120 degrees (sharp creases) or +-45 degrees (a crease only where its edges - the whole row or a piece that does not reach the border - are declared hard), 0-2 faces "
        "removed (inner border loops), relabelled 2 times in 3, scaled by 1 / 2^-10 / 2^10 (ties stay exact); its singular vertices are 1-3 groups entangled through exactly tied "
        "shortest paths towards a target set = border + creases / the border where it is nearer than every crease / the creases where they are nearer / one vertex: a first "
        "vertex 1-3 edges from the target with two equally short ways on, joined by vertices ON its shortest paths ('cone'), vertices whose paths continue through the same next vertex "
        "('shared'), or a random walk over those relations and same-distance neighbours, now and then a vertex of the target set itself. On every other surface the singularity mode "
        "'on-shortest-paths' (1 in 12) builds the same groups towards the border (closed surface: towards one vertex); labels 'ties:...' measure on the realised case how often a singular vertex has tied "
        "shortest paths ending on two different border / feature-graph vertices, 1-2 edges away, with another singular vertex on them), optional roof-like folds (creases for the feature detector), "
        "vertex/face relabelling (base bent_sheet = equilateral sheet folded by 90 degrees along a row: crease + exact ties); coincident positions (the vertex opposite an interior edge copied onto the other opposite "
        "vertex for 1-4 edges = adjacent faces with one barycentre, or the whole mesh collapsed onto 1-4 positions; the feature "
        "detector is dropped when a triangle has (near) zero area). Singularity sets: empty, one, two adjacent, k random, border only, mixed, a vertex with all its "
        "neighbours, all vertices; given as a list or as a vertex attribute (as the in-repo callers do). Cutter run without "
        "features, with a FeatureEdgeDetector (sharp edges, declared hard edges) or with an only-border detector. The output "
        "mesh, cut_edges, cut_adj, ref_vertex and cut_graph are compared with topology computed from the raw face lists. "
        "The cutter's verbose option is drawn (stdout captured: silent iff not verbose); the results output_mesh, cut_edges, "
        "cut_graph, cut_adj, ref_vertex are read in a drawn order followed by 0-4 re-reads, every read of one result must agree and "
        "the oracles use the last values; the singularities argument (list / tuple / int64 array / vertex attribute) and the "
        "detector's sets must be unchanged afterwards; inputs uniformly scaled by 1e-6..1e6 and/or translated by 1e3 / 1e6 times their extent; faces given as lists / tuples / numpy rows; the library switches config.sort_neighborhoods and config.display_duplicate_attribute_warning are drawn per case. "
        "1 case in 5 has 1-3 (or 2 x genus) vertices that no face uses, at the first / a middle / the last id; 1 in 3 reads the results from copy.copy / copy.deepcopy of the cutter. 2 in 5 run the same cutter object twice (run(); run() or cutter(); run()) before any result is read; the singular vertices are handed over as list / tuple / numpy array / vertex attribute / set / range / one-shot iterator / generator. Sub-check cut_twice (half of its cases start and run both cutters before any result of either is read) cuts the same mesh object a second time with an independent cutter "
        "(other / same / subset / empty singularity set, features on or off in either order, detector reused or re-run), applies "
        "every oracle to the second result too and checks that the input mesh's vertices and faces are unchanged. "
        "non-trivial = genus>0 or >=2 distinct singularities or >=2 border loops; distinct = distinct realised case.")
ASSUMPTIONS = ["input is one connected oriented manifold triangulated surface with a simple 1-skeleton; the vertex container may hold "
               "vertices that no face uses (never singular; 'onto' means onto the vertices used by faces)",
               "singular vertices are pairwise distinct valid vertex indices",
               "feature detection itself (which edges are features) is C15's subject; here only its effect on the cutter's "
               "guarantees is observed; inputs with a (near) zero-area triangle are cut without a feature detector"]

# cut_twice also cuts twice with features under config.display_duplicate_attribute_warning = True (finding F-C16-5)
STALE_TREE_ATTRIBUTE_FIXED = os.environ.get("C16_STALE_TREE_FIXED", "1") == "1"     # F-C16-5 fixed in /repo by 0930385 (set the variable to 0 to bisect)

BIG_FACES = 1500
SMALL_FACES = 200


# --------------------------------------------------------------------------------- generator helpers

def op_edge_split_tri(V, F, i):
    """split an edge of a triangle mesh at its midpoint, re-triangulating the one or two incident triangles"""
    ref = SurfRef(len(V), F)
    es = sorted(ref.uedges)
    a, b = es[i % len(es)]
    nv = len(V)
    m = ((np.array(V[a]) + np.array(V[b])) / 2).tolist()
    F2 = []
    for f in F:
        if len(f) == 3 and a in f and b in f:
            k = [j for j in range(3) if key(f[j], f[(j + 1) % 3]) == (a, b)][0]
            p, q, r = f[k], f[(k + 1) % 3], f[(k + 2) % 3]
            F2.append([p, nv, r]); F2.append([nv, q, r])
        else:
            F2.append(list(f))
    return V + [m], F2


def subdivide(V, F):
    """midpoint (1-to-4) subdivision of a triangle mesh"""
    V = [list(v) for v in V]
    mid = {}

    def m(a, b):
        k = key(a, b)
        if k not in mid:
            mid[k] = len(V)
            V.append(((np.array(V[a]) + np.array(V[b])) / 2).tolist())
        return mid[k]
    F2 = []
    for (a, b, c) in F:
        ab, bc, ca = m(a, b), m(b, c), m(c, a)
        F2 += [[a, ab, ca], [ab, b, bc], [ca, bc, c], [ab, bc, ca]]
    return V, F2


def largest_component(V, F):
    """keep the largest edge-connected set of faces (ties: the one containing the lowest face index)"""
    ref = SurfRef(len(V), F)
    comp = [-1] * len(F)
    sizes = []
    for s in range(len(F)):
        if comp[s] >= 0:
            continue
        c = len(sizes); comp[s] = c; stack = [s]; n = 0
        while stack:
            f = stack.pop(); n += 1
            for g in ref.face_neighbours(f):
                if comp[g] < 0:
                    comp[g] = c; stack.append(g)
        sizes.append(n)
    best = max(range(len(sizes)), key=lambda c: (sizes[c], -c))
    return G.compact(V, [f for k, f in enumerate(F) if comp[k] == best])


def tri_areas(V, F):
    A = np.array(V, dtype=float)
    T = np.array(F, dtype=int)
    return 0.5 * np.linalg.norm(np.cross(A[T[:, 1]] - A[T[:, 0]], A[T[:, 2]] - A[T[:, 0]]), axis=1)


def topo_summary(V, F):
    ref = SurfRef(len(V), F)
    loops = ref.border_loops()
    nl = len(loops)
    g2 = 2 - ref.euler() - nl
    return ref, nl, g2 // 2


CLOSED_POLY = ["tet", "octa", "icosa", "cube", "prism", "antiprism", "bipyramid"]
BASES16 = ["torus", "bent_sheet", "grid", "grid", "cyl_u", "cyl_v", "torus", "delaunay", "fan_closed", "fan_open", "strip", "polygon"] + CLOSED_POLY + ["icosa", "octa"]


def bent_sheet(n, m, jc):
    """sheet of equilateral triangles (rows j = 0..m, odd rows shifted by 1/2) folded by 90 degrees along row jc: a crease joining
    two border points, with exact distance ties from the vertices next to it to the crease vertices"""
    h = math.sqrt(3) / 2
    V = []
    for j in range(m + 1):
        for i in range(n + 1):
            x = i + 0.5 * (j % 2)
            V.append([x, jc * h, (j - jc) * h] if j > jc else [x, j * h, 0.0])
    idx = lambda i, j: j * (n + 1) + i
    F = []
    for j in range(m):
        for i in range(n):
            a, b, c, d = idx(i, j), idx(i + 1, j), idx(i, j + 1), idx(i + 1, j + 1)
            F += [[a, b, c], [b, d, c]] if j % 2 == 0 else [[a, b, d], [a, d, c]]
    return V, F


def build_base16(name, a, b, big):
    """a, b in 0..999"""
    if name == "bent_sheet":
        n, m = (8 + a % 16, 8 + b % 16) if big else (2 + a % 8, 3 + b % 7)
        return bent_sheet(n, m, 1 + (a // 16) % (m - 1))
    if name == "grid":
        return G.grid(6 + a % 21, 6 + b % 21) if big else G.grid(1 + a % 8, 1 + b % 8)
    if name == "cyl_u":
        return G.grid(6 + a % 20, 4 + b % 20, wrap_u=True) if big else G.grid(3 + a % 7, 1 + b % 7, wrap_u=True)
    if name == "cyl_v":
        return G.grid(4 + a % 20, 6 + b % 20, wrap_v=True) if big else G.grid(1 + a % 7, 3 + b % 7, wrap_v=True)
    if name == "torus":
        return G.grid(5 + a % 20, 5 + b % 20, True, True) if big else G.grid(3 + a % 6, 3 + b % 6, True, True)
    if name == "prism":
        return G.prism(3 + a % 6)
    if name == "antiprism":
        return G.antiprism(3 + a % 5)
    if name == "bipyramid":
        return G.bipyramid(3 + a % 6)
    if name == "fan_closed":
        return G.fan(3 + a % (40 if big else 10), True)
    if name == "fan_open":
        return G.fan(2 + a % (40 if big else 10), False)
    if name == "strip":
        return G.strip(1 + a % (200 if big else 20))
    if name == "polygon":
        return G.single_polygon(3 + a % 6)
    return G.build_base(name, a, b)


# points in general position (no three collinear, pairwise distinct distances are not required)
COLLAPSE_POSITIONS = [[0.0, 0.0, 0.0], [1.0, 0.0, 0.25], [0.0, 1.0, 0.5], [1.0, 1.5, 1.0], [-1.0, 0.5, 2.0], [0.5, -1.0, 1.5],
                      [2.0, 0.75, -1.0], [-0.5, -1.5, -0.75], [1.5, -0.5, 2.5]]

OPS16 = {"del": G.op_delete_face, "flip": G.op_edge_flip, "1to3": G.op_tri_1to3, "esplit": op_edge_split_tri}


@st.composite
def trisurface(draw, big=False):
    max_faces = BIG_FACES if big else SMALL_FACES
    name = draw(st.sampled_from(BASES16))
    tags = ["base=" + name]
    if name == "delaunay":
        d = draw(G.delaunay_disks(max_pts=400 if big else 40, ear_removals=4, height=True))
        V, F = d["V"], d["F"]
    else:
        V, F = build_base16(name, draw(st.integers(0, 999)), draw(st.integers(0, 999)), big)
        V, F = G.op_triangulate_all(V, F, draw(st.integers(0, 3)))
        if not G._valid(V, F):
            V, F = G.op_triangulate_all(*build_base16(name, 0, 0, big), 0)
    if name in CLOSED_POLY:
        for _ in range(draw(st.integers(0, 3 if big else 2))):
            if 4 * len(F) <= max_faces:
                V, F = subdivide(V, F)
                tags.append("subdivided")
    # connected sums: + torus raises the genus, + polyhedron keeps it
    nsum = draw(st.sampled_from([0, 1, 0, 0, 0, 1, 2, 3]))
    for k in range(nsum):
        n2 = draw(st.sampled_from(["torus", "torus", "torus", "octa", "icosa", "tet"]))
        V2, F2 = build_base16(n2, draw(st.integers(0, 3)), draw(st.integers(0, 3)), False)
        V2, F2 = G.op_triangulate_all(V2, F2, 0)
        V2 = (np.array(V2) + np.array([6.0 * (k + 1), 0.7 * k, 5.0 * k])).tolist()
        if len(F) + len(F2) > max_faces:
            break
        r = G.connected_sum(V, F, V2, F2, draw(st.integers(0, 5000)), draw(st.integers(0, 50)))
        if r is not None and G._valid(*r):
            V, F = r
            tags.append("sum=" + n2)
    if big:
        while len(F) < 300 and 4 * len(F) <= max_faces:
            V, F = subdivide(V, F)
            tags.append("subdivided")
    ops = draw(st.lists(st.tuples(st.sampled_from(["flip", "del", "1to3", "esplit"]), st.integers(0, 5000)),
                        max_size=12 if big else 8))
    for (op, i) in ops:
        if len(F) >= max_faces:
            break
        r = OPS16[op](V, F, i)
        if r is None or not r[1] or not G._valid(r[0], r[1]):
            continue
        V, F = r
        tags.append("op=" + op)
    V, F = largest_component(V, F)
    # geometry: jitter (breaks shortest-path ties) or not, optional folds (creases)
    amp = draw(st.sampled_from([0.0, 0.05]))
    if amp:
        V = G.jitter(V, draw(st.integers(0, 1000)), amp)
        tags.append("jitter")
    fold = draw(st.sampled_from(["none", "none", "x", "xy"]))
    if fold != "none":
        A = np.array(V, dtype=float)
        lo, hi = A.min(axis=0), A.max(axis=0)
        h = draw(st.sampled_from([0.8, 2.0]))
        tx = draw(st.integers(0, 8)) / 8.0
        ty = draw(st.integers(0, 8)) / 8.0
        x0 = round((lo[0] + tx * (hi[0] - lo[0])) * 2) / 2
        y0 = round((lo[1] + ty * (hi[1] - lo[1])) * 2) / 2
        A[:, 2] += h * np.abs(A[:, 0] - x0)
        if fold == "xy":
            A[:, 2] += h * np.abs(A[:, 1] - y0)
        V = A.tolist()
        tags.append("fold=" + fold)
    if draw(st.booleans()):
        V, F, _ = G.relabel(V, F, draw(st.integers(0, 10000)), reverse=draw(st.booleans()))
        tags.append("relabelled")
    V = [[float(x) for x in v] for v in V]
    F = [list(map(int, f)) for f in F]
    ref = SurfRef(len(V), F)
    err = ref.validate()
    if err is not None or ref.n_face_components() != 1 or any(len(f) != 3 for f in F):
        raise AssertionError(f"C16 generator produced an invalid surface: {err}")
    return V, F, tags


def _pick(draw, n):
    return draw(st.integers(0, 10 ** 6)) % n


def tie_trap(nu, nw, pi, pj, H):
    """nu x nw torus grid with sheared-lattice coordinates i*u + j*w (the wrap-around edges are long and never used). The four
    vertices (pi..pi+1, pj..pj+1) form an exact parallelogram with unequal sides, split by its edge (pi+1,pj)-(pi,pj+1): the two
    ways round it from p=(pi,pj) to q=(pi+1,pj+1) have exactly the same length, and Dijkstra started from p's side and from q
    take different ones. Vertices off row pj (i<=pi) / column pi (j<=pj) / the parallelogram are lifted by H, so that shortest
    paths from that row and column to q run through p."""
    u = np.array([2.0, 0.0, 0.0]); w = np.array([-0.5, 1.0, 0.0])
    idx = lambda i, j: (j % nw) * nu + (i % nu)
    valley = lambda i, j: (j == pj and i <= pi) or (i == pi and j <= pj) or (i in (pi, pi + 1) and j in (pj, pj + 1))
    V = [(i * u + j * w + np.array([0.0, 0.0, 0.0 if valley(i, j) else H])).tolist() for j in range(nw) for i in range(nu)]
    F = []
    for j in range(nw):
        for i in range(nu):
            a, b, c, d = idx(i, j), idx(i + 1, j), idx(i + 1, j + 1), idx(i, j + 1)
            F.append([a, b, d]); F.append([b, c, d])
    return V, F, idx


_EXACT_DIR = {0: (1.0, 0.0), 90: (0.0, 1.0), 180: (-1.0, 0.0), 270: (0.0, -1.0)}
SHARP_TURN = 60.0        # degrees: the detector flags an edge whose face normals have a dot product < 0.5 (C15's subject)


def lattice_sheet(n, m, kind, h, folds):
    """n x m cells of triangles on a lattice full of exact distance ties: every vertex has two equally distant neighbours in the
    row below and in the row above (x differs by +-1/2). kind "staggered": odd rows shifted by 1/2 (rectangular outline with
    zig-zag sides, alternating diagonals); kind "sheared": row j shifted by j/2 (parallelogram outline, one diagonal direction).
    Rows are h apart along a profile in the (y,z) plane that turns by `turn` degrees at each row of folds = [(row, turn)]:
    a crease along that row. Returns V, F, idx(i,j)."""
    turn = dict(folds)
    ang, y, z, prof = 0, 0.0, 0.0, []
    for j in range(m + 1):
        prof.append((y, z))
        ang = (ang + turn.get(j, 0)) % 360
        c, s_ = _EXACT_DIR.get(ang) or (math.cos(math.radians(ang)), math.sin(math.radians(ang)))
        y += h * c; z += h * s_
    idx = lambda i, j: j * (n + 1) + i
    V = [[i + (0.5 * (j % 2) if kind == "staggered" else 0.5 * j), prof[j][0], prof[j][1]] for j in range(m + 1) for i in range(n + 1)]
    F = []
    for j in range(m):
        for i in range(n):
            a, b, c, d = idx(i, j), idx(i + 1, j), idx(i, j + 1), idx(i + 1, j + 1)
            F += [[a, b, c], [b, d, c]] if (kind == "sheared" or j % 2 == 0) else [[a, b, d], [a, d, c]]
    return V, F, idx


def tie_dag(V, ref, T):
    """Distances (edge lengths) from every vertex to the vertex set T, and for every vertex the neighbours through which a
    shortest path to T continues (several = an exact - up to 1e-12 relative - tie). Pure harness code.
    Returns dist, down (vertex -> sorted list of next vertices), hops (fewest edges of a shortest path to T)."""
    import heapq
    A = np.array(V, dtype=float)
    L = {}
    for (a, b) in ref.uedges:
        L[(a, b)] = L[(b, a)] = float(np.linalg.norm(A[a] - A[b]))
    dist = {v: math.inf for v in range(len(V))}
    heap = []
    for t in T:
        dist[t] = 0.0
        heap.append((0.0, t))
    heapq.heapify(heap)
    done = set()
    while heap:
        d, v = heapq.heappop(heap)
        if v in done:
            continue
        done.add(v)
        for w in ref.v2v[v]:
            dw = d + L[(v, w)]
            if dw < dist[w]:
                dist[w] = dw
                heapq.heappush(heap, (dw, w))
    fin = [d for d in dist.values() if d < math.inf]
    tol = 1e-12 * (max(fin) if fin and max(fin) > 0 else 1.0)
    down, hops = {}, {}
    for v in sorted(dist, key=lambda v: (dist[v], v)):
        if dist[v] == 0.0 or dist[v] == math.inf:
            down[v] = []; hops[v] = 0
            continue
        down[v] = sorted(w for w in ref.v2v[v] if dist[w] < dist[v] and abs(dist[w] + L[(v, w)] - dist[v]) <= tol)
        hops[v] = 1 + min((hops[w] for w in down[v] if w in hops), default=0)
    return dist, down, hops


def tie_singularities(draw, ref, T, down, hops, k, eligible=None):
    """Singular vertices entangled through exactly tied shortest paths towards the vertex set T. The first one has two equally
    short ways on and is mostly 1-3 edges from T. Pattern "cone": it is joined by 1..k-1 of the vertices its shortest paths
    run through (one singular vertex on the path of another one); "shared": by vertices whose shortest paths continue through
    the same next vertex; "walk": each further one is related to one already chosen - next vertex of a shortest path, a
    vertex whose path continues through it, one sharing its next vertex, or a neighbour as many edges from T."""
    T = set(T)
    nV = ref.nV
    up = defaultdict(list)
    for v in down:
        for w in down[v]:
            up[w].append(v)
    amb = sorted(v for v in down if v not in T and len(down[v]) >= 2)
    if eligible is not None:
        amb = [v for v in amb if v in eligible] or amb          # where the first vertex may be
    pattern = draw(st.sampled_from(["cone", "cone", "cone", "shared", "walk", "walk"]))
    want = draw(st.sampled_from([2, 2, 2, 3, 3] if pattern == "cone" else [1, 1, 2, 2, 2, 3, 3, 0]))   # edges to T (0: any)
    pool = ([v for v in amb if hops[v] == want] or [v for v in amb if 2 <= hops[v] <= 3] or amb
            or sorted(set(range(nV)) - T) or list(range(nV)))
    S = [pool[_pick(draw, len(pool))]]
    if pattern == "cone":
        below, stack = [], list(down[S[0]])
        while stack:
            x = stack.pop()
            if x not in T and x not in below:
                below.append(x); stack += down[x]
        below = sorted(below, key=lambda x: (-hops[x], x))          # nearest to the first one first
        take = [x for x in below if draw(st.booleans())][:k - 1]
        S += take or below[:1]
    elif pattern == "shared":
        for x in down[S[0]]:
            S += [w for w in sorted(up[x]) if w not in S and w not in T and draw(st.booleans())][:max(0, k - len(S))]
    for _ in range(3 * (k - 1)):
        if len(S) >= k:
            break
        c = S[_pick(draw, len(S))]
        rel = draw(st.sampled_from(["down", "down", "up", "up", "shared-next", "side"]))
        if rel == "down":
            cand = list(down[c])
        elif rel == "up":
            cand = list(up[c])
        elif rel == "shared-next":
            cand = [w for x in down[c] for w in up[x]]
        else:
            cand = [w for w in ref.v2v[c] if hops.get(w) == hops.get(c)]
        cand = sorted(set(cand) - set(S))
        if draw(st.integers(0, 4)) > 0:
            cand = [w for w in cand if w not in T]                # now and then a singular vertex ON the target set
        if cand:
            S.append(cand[_pick(draw, len(cand))])
    return S


def tie_classes(V, ref, S, T, what):
    """labels (evidence only) measured on the realised case: singular vertices with exactly tied shortest paths to T that end on
    different vertices of T, and singular vertices lying on such paths of another one"""
    T = set(int(t) for t in T)
    S = [int(s_) for s_ in S if int(s_) not in T]
    if not T or not S:
        return []
    _, down, hops = tie_dag(V, ref, sorted(T))
    memo = {}

    def reach(v):            # (vertices of T where the shortest paths of v end, vertices on those paths) - iterative DFS
        if v in memo:
            return memo[v]
        order, stack, seen = [], [v], {v}
        while stack:
            x = stack.pop(); order.append(x)
            for w in down.get(x, []):
                if w not in seen:
                    seen.add(w); stack.append(w)
        memo[v] = ({x for x in order if x in T}, set(order) - {v})
        return memo[v]
    out = set()
    for s_ in S:
        ends, on = reach(s_)
        if len(ends) >= 2:
            out.add(f"ties:singularity-with-tied-shortest-paths-ending-on-2+-{what}-vertices")
            if hops.get(s_, 9) <= 2:
                out.add(f"ties:...at-1-2-edges-from-the-{what}")
            if any(t in on for t in S if t != s_):
                out.add(f"ties:...and-another-singularity-on-those-paths-to-the-{what}")
    return sorted(out)


RESULTS = ["output_mesh", "cut_edges", "cut_graph", "cut_adj", "ref_vertex"]


@st.composite
def read_order(draw):
    """every result attribute once, in a drawn order, followed by 0-4 re-reads"""
    first = list(draw(st.permutations(RESULTS)))
    again = draw(st.lists(st.sampled_from(RESULTS), max_size=4))
    return first + again


@st.composite
def cut_case(draw, big=False, twice=False):
    V, F, tags = draw(trisurface(big=big))
    trap = None
    if not big and draw(st.integers(0, 9)) == 0:
        # exact shortest-path ties between paths computed from different sources (see tie_trap); the two outer singular
        # vertices are mostly placed >= 2 columns / >= 4 rows away, where both of their paths to q are spanning-tree edges
        nu, nw = draw(st.integers(5, 7)), draw(st.integers(7, 9))
        pi, pj = draw(st.integers(2, nu - 2)), draw(st.integers(4, nw - 2))
        V, F, idx = tie_trap(nu, nw, pi, pj, draw(st.sampled_from([1.0, 2.0])))
        far = draw(st.integers(0, 4)) > 0
        trap = [idx(pi - draw(st.integers(2 if far else 1, pi)), pj), idx(pi + 1, pj + 1),
                idx(pi, pj - draw(st.integers(4 if far else 1, pj)))]
        tags = ["base=tie-trap"]
    crease = None
    if trap is None and not big and draw(st.integers(0, 11)) == 0:
        # crease + exact ties: two singular vertices one above the other next to the fold of a bent sheet of equilateral
        # triangles: the upper one sees two equally close feature vertices through the lower one
        n, m = draw(st.integers(5, 10)), draw(st.integers(6, 10))
        jc = draw(st.integers(2, m - 3))
        V, F = bent_sheet(n, m, jc)
        js = [j for j in range(1, m - 1) if j != jc and j + 1 != jc]
        near = [j for j in js if j in (jc + 1, jc - 2)]        # the pair touches the row next to the fold
        js = near if (near and draw(st.integers(0, 3)) > 0) else js
        j = js[_pick(draw, len(js))]
        i = draw(st.integers(2, n - 2)) if draw(st.integers(0, 3)) > 0 else draw(st.integers(1, n - 1))
        crease = [j * (n + 1) + i, (j + 1) * (n + 1) + i]
        trap = crease                      # same treatment: exact geometry kept (no coincident positions, scale 1)
        tags = ["base=crease-tie"]
    lat = None
    if trap is None and draw(st.integers(0, 4)) == 0:
        # lattice sheets full of exact ties, bent along 0-2 rows (creases), optionally with 1-2 faces removed (inner border
        # loops); the singular vertices are entangled through tied shortest paths towards the border / the creases / both /
        # one vertex (see tie_singularities)
        kind = draw(st.sampled_from(["staggered", "staggered", "sheared"]))
        n, m = (10 + _pick(draw, 15), 10 + _pick(draw, 15)) if big else (3 + _pick(draw, 7), 5 + _pick(draw, 7))
        h = draw(st.sampled_from([math.sqrt(3) / 2, 1.0, 1.0, 0.75, 1.25]))
        nf = draw(st.sampled_from([0, 1, 1, 1, 1, 2, 2]))
        rows = [1 + _pick(draw, m - 1)] if nf else []
        if nf == 2:
            rows = sorted(set(rows + [1 + (rows[0] + _pick(draw, m - 2)) % (m - 1)]))
        folds, tot = [], 0
        for r in rows:
            t = draw(st.sampled_from([90, 90, -90, 75, 120, -120, 45, -45]))
            if abs(tot + t) > 180:
                t = -t
            tot += t
            folds.append((r, t))
        V, F, idx = lattice_sheet(n, m, kind, h, folds)
        crease_v, lat_hard = set(), []
        for (r, t) in folds:
            if abs(t) > SHARP_TURN:
                crease_v |= {idx(i, r) for i in range(n + 1)}
            else:
                # a mild fold is a feature only where its edges are declared hard: the whole row or a piece of it
                i0, i1 = 0, n
                if draw(st.booleans()):
                    i0 = draw(st.integers(0, n - 1)); i1 = draw(st.integers(i0 + 1, n))
                lat_hard += [[idx(i, r), idx(i + 1, r)] for i in range(i0, i1)]
                crease_v |= {idx(i, r) for i in range(i0, i1 + 1)}
        for _ in range(draw(st.sampled_from([0, 0, 0, 1, 2]))):
            k = _pick(draw, len(F))
            F2 = F[:k] + F[k + 1:]
            r2 = SurfRef(len(V), F2)
            if r2.validate() is None and r2.n_face_components() == 1 and len(set(v for f in F2 for v in f)) == len(V):
                F = F2
        ref = SurfRef(len(V), F)
        bvs = set(ref.border_vertices())
        tgt = draw(st.sampled_from(["features", "features", "features", "border", "border", "border", "crease", "vertex"]))
        if tgt == "crease" and not crease_v:
            tgt = "border"
        T = {"features": bvs | crease_v, "border": bvs, "crease": crease_v, "vertex": {_pick(draw, len(V))}}[tgt]
        dist, down, hops = tie_dag(V, ref, sorted(T))
        eligible = None
        if tgt in ("border", "crease") and crease_v - bvs:
            # ties towards the border count where no crease is as near as the border (and the other way round)
            other, _, _ = tie_dag(V, ref, sorted((crease_v - bvs) if tgt == "border" else bvs))
            eligible = {v for v in dist if dist[v] < other[v] * (1 - 1e-9)}
        lat_S = []
        for _ in range(draw(st.sampled_from([1, 1, 2, 2, 3]))):          # independent groups at different places
            lat_S += tie_singularities(draw, ref, T, down, hops, draw(st.sampled_from([2, 2, 2, 3, 3, 4])), eligible)
        if tgt == "vertex":
            lat_S = lat_S + sorted(T)
        if draw(st.integers(0, 2)) > 0:
            V, F, perm = G.relabel(V, F, draw(st.integers(0, 10000)), reverse=draw(st.booleans()))
            lat_S = [perm[v] for v in lat_S]
            lat_hard = [[perm[a], perm[b]] for a, b in lat_hard]
        lat = {"S": lat_S, "hard": lat_hard, "creases": bool(crease_v)}
        tags = ["base=lattice-tie", "lattice=" + kind, "tie-target=" + tgt, f"lattice-folds={len(folds)}"]
    ref = SurfRef(len(V), F)
    if lat is not None and (ref.validate() is not None or ref.n_face_components() != 1):
        raise AssertionError("C16 generator produced an invalid lattice sheet")
    nV = len(V)
    bv = sorted(ref.border_vertices())
    iv = sorted(set(range(nV)) - set(bv))
    mode = draw(st.sampled_from(["random", "none", "one", "adjacent", "adjacent", "random", "random", "border", "mixed",
                                 "cluster", "all", "on-shortest-paths"]))
    S = []
    if mode == "on-shortest-paths" and trap is None and lat is None:
        # any surface: singular vertices on each other's shortest paths to the border (or, on a closed surface, to one vertex)
        T = set(bv) or {_pick(draw, nV)}
        _, down, hops = tie_dag(V, ref, sorted(T))
        S = tie_singularities(draw, ref, T, down, hops, draw(st.integers(2, 4))) + ([] if bv else sorted(T))
    if mode == "one":
        S = [_pick(draw, nV)]
    elif mode == "adjacent":
        es = sorted(ref.uedges)
        S = list(es[_pick(draw, len(es))])
        if draw(st.integers(0, 3)) == 0:
            S += [_pick(draw, nV) for _ in range(draw(st.integers(1, 3)))]
    elif mode == "random":
        S = [_pick(draw, nV) for _ in range(draw(st.integers(2, 10)))]
    elif mode == "border":
        pool = bv or list(range(nV))
        S = [pool[_pick(draw, len(pool))] for _ in range(draw(st.integers(1, 4)))]
    elif mode == "mixed":
        S = [(bv or iv)[_pick(draw, len(bv or iv))] for _ in range(draw(st.integers(1, 3)))]
        S += [(iv or bv)[_pick(draw, len(iv or bv))] for _ in range(draw(st.integers(1, 4)))]
    elif mode == "cluster":
        c = _pick(draw, nV)
        S = [c] + sorted(ref.v2v[c])
    elif mode == "all":
        S = list(range(nV)) if nV <= 40 else [_pick(draw, nV) for _ in range(12)]
    if trap is not None:
        mode = "crease-tie" if crease else "tie-trap"
        S = trap + ([_pick(draw, nV)] if draw(st.integers(0, 5)) == 0 else [])
    if lat is not None:
        mode = "lattice-tie"
        S = lat["S"] + ([_pick(draw, nV)] if draw(st.integers(0, 5)) == 0 else [])
    # distinct, in a drawn order (the order is an input of the spanning-tree construction)
    S = list(dict.fromkeys(int(s) for s in S))
    if trap is not None and len(S) == 3 and draw(st.booleans()):
        S = S[::-1] if draw(st.booleans()) else S            # q stays between the two others
    elif len(S) > 1:
        if len(S) <= 12:
            S = list(draw(st.permutations(S)))
        else:
            k = _pick(draw, len(S))
            S = S[k:] + S[:k]
    S = list(dict.fromkeys(S))
    # coincident positions: the property is topological, the geometry only weights the paths
    degen = draw(st.sampled_from(["no", "no", "no", "no", "dup-opposite", "dup-opposite", "collapse"]))
    if trap is not None or lat is not None:
        degen = "no"
    if degen == "dup-opposite":
        inner = sorted(e for e in ref.uedges if not ref.edge_on_border(*e))
        done = 0
        V = [list(v) for v in V]
        moved = set()
        for _ in range(draw(st.integers(1, 4))):
            if not inner:
                break
            a, b = inner[_pick(draw, len(inner))]
            f1, i1 = ref.he[(a, b)]; f2, i2 = ref.he[(b, a)]
            c, d = F[f1][(i1 + 2) % 3], F[f2][(i2 + 2) % 3]
            if draw(st.booleans()):
                c, d = d, c
            # no zero-length edge may appear: c and d (and whatever already sits on c's position) are not neighbours of d
            same_as_c = [w for w in range(nV) if V[w] == V[c]]
            if d in moved or c in moved or any(ref.is_edge(w, d) for w in same_as_c):
                continue
            V[d] = list(V[c])          # the two triangles on (a,b) now have the same barycentre
            moved.add(d); moved.add(c)
            done += 1
        tags = tags + (["dup-opposite"] if done else [])
    elif degen == "collapse":
        # the whole mesh on few positions: a proper vertex colouring, so that every edge keeps a positive length and
        # every triangle three positions in general position (many adjacent faces share their barycentre, ties everywhere)
        order = list(range(nV))
        rot = _pick(draw, nV)
        order = order[rot:] + order[:rot]
        col = {}
        for v in order:
            used = {col[w] for w in ref.v2v[v] if w in col}
            col[v] = min(c for c in range(nV + 1) if c not in used)
        if max(col.values()) < len(COLLAPSE_POSITIONS):
            sh = draw(st.integers(0, len(COLLAPSE_POSITIONS) - 1))
            V = [list(COLLAPSE_POSITIONS[(col[v] + sh) % len(COLLAPSE_POSITIONS)]) for v in range(nV)]
            tags = tags + [f"collapse={1 + max(col.values())}"]
    feat = draw(st.sampled_from(["detect", "none", "none", "detect", "detect+hard", "only_border"]))
    if crease is not None:
        feat = "detect" if draw(st.integers(0, 4)) > 0 else feat
    elif trap is not None and feat != "only_border" and draw(st.integers(0, 3)) > 0:
        feat = "none"
    if lat is not None and draw(st.integers(0, 4)) > 0:
        feat = "detect"
    if lat is not None and lat["hard"] and feat != "none":
        feat = "detect+hard"
    hard = []
    if lat is not None:
        hard = [list(e) for e in lat["hard"]] if feat == "detect+hard" else []
    elif feat == "detect+hard":
        inner = sorted(e for e in ref.uedges if not ref.edge_on_border(*e))
        if inner:
            hard = [list(inner[_pick(draw, len(inner))]) for _ in range(draw(st.integers(1, 6)))]
            hard = [list(e) for e in dict.fromkeys(tuple(e) for e in hard)]
    if feat != "none":
        ar = tri_areas(V, F)
        scale = float(np.max(np.ptp(np.array(V), axis=0))) or 1.0
        if float(ar.min()) < 1e-9 * scale * scale:
            feat, hard = "none", []       # stated assumption: degenerate triangles are cut without a detector
            tags = tags + ["degenerate->no-features"]
    # uniform scale (the property is topological: nothing may depend on the unit of length)
    sc = draw(st.sampled_from([1.0, 1.0, 1.0, 1.0, 1e-3, 1e-6, 1e3, 1e6]))
    if trap is not None:
        sc = 1.0                   # the ties must stay exact
    if lat is not None:
        sc = draw(st.sampled_from([1.0, 1.0, 2.0 ** -10, 2.0 ** 10]))       # powers of two keep them exact
    # data far from the origin compared with its size (translation by 1e3 .. 1e6 times the extent)
    far_off = draw(st.sampled_from([0.0, 0.0, 0.0, 0.0, 1e3, 1e6])) if (trap is None and lat is None) else 0.0
    if far_off:
        A = np.array(V, dtype=float) * sc
        ext = float(np.max(np.ptp(A, axis=0))) or 1.0
        V = (np.array(V, dtype=float) + np.array([1.0, -0.5, 0.25]) * far_off * ext / sc).tolist()
        tags = tags + [f"far-from-origin={far_off:g}"]
    if sc != 1.0:
        V = (np.array(V, dtype=float) * sc).tolist()
        tags = tags + [f"scale={sc:g}"]
    case = {"V": V, "F": F, "tags": tags, "singus": S, "mode": mode, "features": feat, "hard": hard,
            "singu_form": draw(st.sampled_from(["list", "list", "attribute", "numpy", "tuple", "list", "iterator", "generator", "set", "range-or-list"])),
            "verbose": draw(st.booleans()), "detector_verbose": draw(st.integers(0, 3)) == 0,
            "mesh_form": draw(st.sampled_from(["list", "list", "tuple", "numpy"])),
            "reads": draw(read_order()),
            # library-wide switches (mouette.config), set before the mesh is built
            "config": {"sort_neighborhoods": draw(st.integers(0, 3)) > 0,
                       "display_duplicate_attribute_warning": draw(st.integers(0, 2 if twice else 5)) == 0}}
    case["clone"] = draw(st.sampled_from(["no", "no", "no", "no", "copy", "deepcopy"]))
    # the same cutter object is run a second time before any result is read (run(); run()  or  cutter(); run(): Worker.__call__ = run)
    case["rerun"] = draw(st.sampled_from(["no", "no", "no", "run-run", "call-run"]))
    if twice:
        # a second, independent cutter on the very same mesh object
        how = draw(st.sampled_from(["other", "other", "same", "subset", "empty"]))
        if how == "same":
            S2 = list(S)
        elif how == "subset":
            S2 = S[::2]
        elif how == "empty":
            S2 = []
        else:
            S2 = list(dict.fromkeys(_pick(draw, nV) for _ in range(draw(st.integers(1, 5)))))
        f2 = draw(st.sampled_from(["same", "same", "none", "detect"]))
        f2 = feat if f2 == "same" else f2
        if feat == "none" and "degenerate->no-features" in tags:
            f2 = "none"
        elif f2 != "none":
            ar = tri_areas(V, F)
            scale = float(np.max(np.ptp(np.array(V), axis=0))) or 1.0
            if float(ar.min()) < 1e-9 * scale * scale:
                f2 = "none"
        if (case["config"]["display_duplicate_attribute_warning"] and not STALE_TREE_ATTRIBUTE_FIXED
                and feat in ("detect", "detect+hard") and f2 in ("detect", "detect+hard")):
            # reported defect of the unchanged library (scratch/fixes/C16-4): with that switch on, a second cut WITH features of a
            # mesh already cut WITH features reuses the 'singularity_tree' edge flags of the first cut. Not asserted until fixed.
            f2 = "none"
        case["second"] = {"singus": [int(x) for x in S2], "features": f2, "how": how,
                          "interleaved": draw(st.sampled_from(["no", "first-read-first", "second-read-first", "no"])),
                          "reuse_detector": draw(st.booleans()), "verbose": draw(st.booleans()),
                          "reads": draw(read_order())}
    # vertices that no face uses (first id, a middle id, the last id); they are never singular. On a closed surface of genus g
    # the count is mostly 2g, so that #vertices - #edges + #faces of the containers equals 2 although the surface is no sphere
    if draw(st.integers(0, 4)) == 0:
        rg = SurfRef(len(V), F)
        g2 = 2 - rg.euler() - len(rg.border_loops())
        k = g2 if (g2 > 0 and draw(st.integers(0, 3)) > 0) else draw(st.integers(1, 3))
        A = np.array(V, dtype=float)
        lo, hi = A.min(axis=0), A.max(axis=0)
        for t in range(k):
            pos = draw(st.sampled_from(["first", "middle", "last"]))
            at = 0 if pos == "first" else len(case["V"]) if pos == "last" else len(case["V"]) // 2
            shift = lambda v: v + 1 if v >= at else v
            case["V"] = case["V"][:at] + [(lo + (hi - lo) * np.array([0.3, 0.6, 0.9]) * (t + 1) / (k + 1)).tolist()] + case["V"][at:]
            case["F"] = [[shift(v) for v in f] for f in case["F"]]
            case["singus"] = [shift(v) for v in case["singus"]]
            case["hard"] = [[shift(v) for v in e] for e in case["hard"]]
            if "second" in case:
                case["second"]["singus"] = [shift(v) for v in case["second"]["singus"]]
        case["tags"] = case["tags"] + [f"unused-vertices={k}"]
    return case


# --------------------------------------------------------------------------------- oracle (pure function)

def is_known_single_edge_sphere(F, singus):
    """closed genus-0 input whose (distinct) singular vertices are exactly two end points of one edge"""
    nV = 1 + max(v for f in F for v in f)
    ref = SurfRef(nV, F)
    loops = ref.border_loops()
    if loops is None or loops or ref.n_face_components() != 1 or ref.euler() != 2:
        return False
    S = sorted(set(int(s) for s in singus))
    return len(S) == 2 and ref.is_edge(S[0], S[1])


def evaluate(V, F, singus, outV, outF, ref_vertex, cut_keys, scale):
    """All C16 oracles on plain data.  cut_keys = set of sorted vertex pairs (input numbering) reported as cut.
    Returns a list of (signature, ok, message); a later entry may be omitted when an earlier one makes it meaningless."""
    res = []

    def chk(sig, ok, msg=""):
        res.append((sig, bool(ok), msg))
        return bool(ok)

    nV, nF = len(V), len(F)
    rin = SurfRef(nV, F)
    loops_in = rin.border_loops()
    closed_in = len(loops_in) == 0
    genus_in = (2 - rin.euler() - len(loops_in)) // 2
    S = sorted(set(int(s) for s in singus))
    uncut_expected = closed_in and genus_in == 0 and len(S) < 2

    # -- faces in bijection, same order, same corner order
    if not chk("faces:count", len(outF) == nF, f"output has {len(outF)} faces, input {nF}"):
        return res
    nVo = len(outV)
    bad = [(f, list(t)) for f, t in enumerate(outF) if len(t) != 3 or any((not isinstance(v, int)) or v < 0 or v >= nVo for v in t)]
    if not chk("faces:indices", not bad, f"output faces with a bad index / arity (first: {bad[:3]}), {nVo} output vertices"):
        return res
    # -- corner coordinates
    A = np.array(V, dtype=float); B = np.array(outV, dtype=float).reshape(-1, 3)
    Ti = np.array(F, dtype=int); To = np.array(outF, dtype=int)
    d = np.abs(A[Ti] - B[To]).max(axis=2)
    w = np.argwhere(d > 1e-12 * scale)
    chk("corner-coordinates", len(w) == 0,
        f"{len(w)} output corners are not at the input corner position; first: face {w[0][0] if len(w) else None} "
        f"corner {w[0][1] if len(w) else None} (deviation {d.max():.3g}, scale {scale:.3g})")
    # -- ref map: total on output vertices, onto the input vertices, consistent face by face
    ok_ref = isinstance(ref_vertex, dict) and set(ref_vertex.keys()) == set(range(nVo))
    if chk("ref:domain", ok_ref, f"ref_vertex keys are not exactly the {nVo} output vertices "
           f"(missing {sorted(set(range(nVo)) - set(ref_vertex))[:5] if isinstance(ref_vertex, dict) else '?'}, "
           f"extra {sorted(set(ref_vertex) - set(range(nVo)))[:5] if isinstance(ref_vertex, dict) else '?'})"):
        badc = [(f, i, outF[f][i], ref_vertex[outF[f][i]], F[f][i]) for f in range(nF) for i in range(3)
                if ref_vertex[outF[f][i]] != F[f][i]]
        chk("ref:consistent", not badc, f"(face, corner, out vertex, ref, input vertex) mismatches: {badc[:4]}")
        used_in = set(v for f in F for v in f)
        miss = sorted(used_in - set(ref_vertex.values()))
        chk("ref:onto", not miss, f"input vertices (used by a face) without a copy in the cut mesh: {miss[:6]}")
        extra = sorted(set(ref_vertex.values()) - used_in)
        chk("ref:values", not extra, f"ref_vertex points to vertices that no input face uses / that do not exist: {extra[:6]}")
    else:
        ok_ref = False
    used = set(v for t in outF for v in t)
    chk("output:unused-vertices", used == set(range(nVo)), f"output vertices used by no face: {sorted(set(range(nVo)) - used)[:6]}")

    # -- cut_edges: valid input edges, contain the border, connected
    not_edges = sorted(k for k in cut_keys if k not in rin.uedges)
    chk("cut_edges:are-edges", not not_edges, f"cut_edges name non-edges {not_edges[:4]}")
    bmiss = sorted(rin.border_edges() - cut_keys)
    chk("cut_edges:contain-border", not bmiss, f"input border edges not in cut_edges: {bmiss[:5]}")
    adj = defaultdict(set)
    for (a, b) in cut_keys:
        adj[a].add(b); adj[b].add(a)
    if adj:
        s0 = min(adj); seen = {s0}; stack = [s0]
        while stack:
            x = stack.pop()
            for y in adj[x]:
                if y not in seen:
                    seen.add(y); stack.append(y)
        chk("cut_edges:connected", len(seen) == len(adj),
            f"cut graph has several components: {len(seen)} of {len(adj)} cut vertices reachable from {s0}")
    if uncut_expected:
        chk("uncut:nothing-cut", not cut_keys, f"closed sphere with {len(S)} singularities but cut_edges = {sorted(cut_keys)[:6]}")
    else:
        lone = [s for s in S if s not in adj]
        chk("cut_edges:reach-singularities", not lone, f"singular vertices touched by no cut edge: {lone[:6]}")

    # -- glued iff not cut (interior input edges)
    wrong = []
    for (a, b) in sorted(rin.uedges):
        if rin.edge_on_border(a, b):
            continue
        f1, i1 = rin.he[(a, b)]; f2, i2 = rin.he[(b, a)]
        glued = (outF[f1][i1] == outF[f2][(i2 + 1) % 3]) and (outF[f1][(i1 + 1) % 3] == outF[f2][i2])
        if glued == ((a, b) in cut_keys):
            wrong.append(((a, b), "glued but reported cut" if glued else "opened but not reported cut"))
    chk("glued-iff-not-cut", not wrong, f"{len(wrong)} interior edges disagree with cut_edges, first: {wrong[:4]}")

    # -- topology of the output
    rout = SurfRef(nVo, outF)
    err = rout.validate()
    if not chk("output:manifold", err is None, f"output mesh is not an oriented manifold: {err}"):
        return res
    ncomp = rout.n_face_components()
    loops = rout.border_loops()
    chi = rout.euler()
    nloops = len(loops) if loops is not None else -1
    if uncut_expected:
        chk("uncut:closed-sphere", ncomp == 1 and nloops == 0 and chi == 2,
            f"closed sphere, {len(S)} singularities: output has {ncomp} components, {nloops} border loops, chi={chi}")
    else:
        chk("disk:one-component", ncomp == 1, f"output has {ncomp} components")
        chk("disk:one-border-loop", nloops == 1, f"output has {nloops} border loops (input: genus {genus_in}, {len(loops_in)} loops, {len(S)} singularities)")
        chk("disk:euler", chi == 1, f"output Euler characteristic {chi} (V={len(used)}, E={len(rout.uedges)}, F={nF})")
        if ok_ref:
            bo = rout.border_vertices()
            onb = set(ref_vertex[u] for u in bo)
            inside = [s for s in S if s not in onb]
            chk("singular-on-border", not inside, f"singular vertices with no copy on the output border: {inside[:6]}")
    return res


FOURTEEN_B_SIGNATURES = {"disk:one-border-loop", "disk:euler", "singular-on-border", "glued-iff-not-cut"}


def kf_sphere_two_adjacent_singularities(case, violation):
    """DESIGN section 6 row 14b: on a closed genus-0 input whose singular vertices are the two ends of one edge the cut graph
    is that single edge, which an indexed mesh cannot open (neither end gets a second copy)."""
    sig = violation.signature
    if sig.startswith("second:"):
        sig = sig[len("second:"):]
        singus = case["second"]["singus"]
    else:
        singus = case["singus"]
    if sig not in FOURTEEN_B_SIGNATURES:
        return False
    return is_known_single_edge_sphere(case["F"], singus)


# --------------------------------------------------------------------------------- running the library

def make_detector(ctx, M, m, feat, pre="", verbose=False):
    """returns (ok, detector or None)"""
    if feat == "none":
        return True, None
    with contextlib.redirect_stdout(io.StringIO()):
        fd = M.processing.FeatureEdgeDetector(only_border=(feat == "only_border"), verbose=verbose)
        ok, _ = ctx.call(pre + "feature-detector", fd.run, m)
    return ok, fd


def _snapshot(M, name, val):
    """plain-data copy of one result attribute (None stays None)"""
    if val is None:
        return None
    if name == "output_mesh":
        if not isinstance(val, M.mesh.SurfaceMesh):
            return ("bad-type", type(val).__name__)
        return ([[float(x) for x in v] for v in val.vertices], [ints(f) for f in val.faces])
    if name == "cut_edges":
        if not isinstance(val, (set, frozenset, list)) or not all(isinstance(e, (int, np.integer)) for e in val):
            return ("bad-type", str(val)[:200])
        return sorted(int(e) for e in val)
    if name == "cut_adj":
        if not isinstance(val, dict):
            return ("bad-type", type(val).__name__)
        return {(int(k) if isinstance(k, (int, np.integer)) else repr(k)): sorted(ints(w)) for k, w in val.items()}
    if name == "ref_vertex":
        if not isinstance(val, dict):
            return ("bad-type", type(val).__name__)
        return {int(k): int(w) for k, w in val.items()}
    if name == "cut_graph":
        if not isinstance(val, M.mesh.PolyLine):
            return ("bad-type", type(val).__name__)
        return ([[float(x) for x in v] for v in val.vertices], [tuple(ints(e)) for e in val.edges])
    raise HarnessError("unknown result " + name)


def start_cut(ctx, M, m, fd, sing, pre, verbose=False, rerun="no"):
    """builds a cutter on mesh object m and runs it (stdout captured). Returns the state for finish_cut, or None."""
    # arguments are snapshotted: the cutter may not change them
    if isinstance(sing, (list, tuple, np.ndarray, range)):
        sing_before = [int(x) for x in sing]
    elif isinstance(sing, (set, frozenset)):
        sing_before = sorted(int(x) for x in sing)
    elif not hasattr(sing, "__getitem__"):  # one-shot iterable (iterator / generator): consumed by the constructor, nothing to compare
        sing_before = None
    else:                                   # vertex attribute, as the in-repo callers pass it
        sing_before = {int(k): int(sing[k]) for k in sing}
    fd_before = None if fd is None else (set(fd.feature_edges), set(fd.feature_vertices))
    sink = io.StringIO()
    with contextlib.redirect_stdout(sink):
        if sing_before is None or isinstance(sing, (set, frozenset, range)):
            # the docstring says "singularities (list)"; the constructor copies any other iterable element by element. A library that
            # REJECTS such a form (TypeError / ValueError) is within its rights; accepting it and cutting for other vertices is not.
            try:
                ok, cutter = True, M.processing.SingularityCutter(m, sing, features=fd, verbose=verbose)
            except (TypeError, ValueError):
                ctx.label("singularities-form-rejected")
                return None
        else:
            ok, cutter = ctx.call(pre + "cutter:init", M.processing.SingularityCutter, m, sing, features=fd, verbose=verbose)
        if ok:
            ok, _ = ctx.call(pre + "cutter:run", cutter if rerun == "call-run" else cutter.run)
        if ok and rerun != "no":
            ok, _ = ctx.call(pre + "cutter:run-again", cutter.run)
    if not ok:
        return None
    if verbose:
        ctx.check("SingularityCutter" in sink.getvalue(), pre + "verbose:silent", "verbose=True but run() printed nothing")
    else:
        ctx.check(sink.getvalue() == "", pre + "verbose:not-silent", f"verbose=False but run() printed {sink.getvalue()[:120]!r}")
    return {"cutter": cutter, "sing_before": sing_before, "fd_before": fd_before, "verbose": verbose}


def cut_and_check(ctx, M, m, V, F, S, feat, fd, sing, pre, info, verbose=False, reads=None, clone="no"):
    st_ = start_cut(ctx, M, m, fd, sing, pre, verbose=verbose)
    if st_ is None:
        return None
    return finish_cut(ctx, M, m, V, F, S, feat, fd, sing, pre, info, st_, reads=reads, clone=clone)


def finish_cut(ctx, M, m, V, F, S, feat, fd, sing, pre, info, state, reads=None, clone="no"):
    """reads the result attributes of a cutter that has run, in the order `reads` (with re-reads); every oracle is applied to
    the values seen LAST, and every read of one attribute must give the same value. Signatures prefixed with `pre`.
    clone = "copy" / "deepcopy": the results are read from copy.copy / copy.deepcopy of the cutter made after run().
    Returns the cutter or None."""
    cutter, sing_before, fd_before, verbose = state["cutter"], state["sing_before"], state["fd_before"], state["verbose"]
    original = cutter
    if clone in ("copy", "deepcopy"):
        okc, cutter = ctx.call(pre + "cutter:" + clone, getattr(copy, clone), cutter)
        if not okc:
            return None
    reads = list(reads or RESULTS)
    for r in RESULTS:
        if r not in reads:
            reads.append(r)
    if "ref_vertex" not in reads[reads.index("output_mesh"):]:
        reads.append("ref_vertex")           # the map is filled when the cut mesh is built: read it (again) afterwards
    rin = SurfRef(len(V), F)
    A = np.array(V, dtype=float)
    scale = float(np.abs(A).max()) or 1.0

    seen = {r: [] for r in RESULTS}          # attribute -> list of (position in the read sequence, snapshot)
    built = False                            # ref_vertex is filled when the cut mesh is built, i.e. at the first output_mesh read
    with contextlib.redirect_stdout(io.StringIO()):
        for pos, r in enumerate(reads):
            okr, val = ctx.call(pre + ("cutter:output_mesh" if r == "output_mesh" else r), lambda: getattr(cutter, r))
            if not okr:
                return None
            if r == "output_mesh":
                built = True
            if r == "ref_vertex" and not built and val is None:
                continue
            seen[r].append((pos, _snapshot(M, r, val)))
    where = f"read order {reads}"
    final = {}
    for r in RESULTS:
        if not ctx.check(len(seen[r]) > 0 and seen[r][-1][1] is not None, pre + r + ":missing", f"{r} is None after run() and after output_mesh was read ({where})"):
            return None
        final[r] = seen[r][-1][1]
        if not ctx.check(not (isinstance(final[r], tuple) and len(final[r]) == 2 and final[r][0] == "bad-type"),
                         pre + ("output:type" if r == "output_mesh" else r + ":type"), f"{r} has an unexpected type: {final[r]}"):
            return None
        diff = [p for p, snap in seen[r] if snap != final[r]]
        ctx.check(not diff, pre + "reads:" + r + "-changes",
                  f"{r} read at positions {diff} of the sequence differs from its last read (position {seen[r][-1][0]}): reading the "
                  f"other results changed it ({where})")

    # ---- values the oracles are applied to
    medges = [tuple(ints(e)) for e in m.edges]
    ekeys = [key(e) for e in medges]
    if not ctx.check(set(ekeys) == rin.uedges and len(set(ekeys)) == len(ekeys), pre + "input:edges",
                     "edge list of the input mesh differs from the edges implied by its faces"):
        return None
    ce = final["cut_edges"]
    if not ctx.check(all(0 <= e < len(medges) for e in ce), pre + "cut_edges:type",
                     f"cut_edges is not a collection of edge indices of the input mesh: {str(ce)[:200]}"):
        return None
    cut_keys = set(ekeys[e] for e in ce)
    outV, outF = final["output_mesh"]
    rv = final["ref_vertex"]
    info = info + f", verbose={verbose}, {where}"

    for sig, okk, msg in evaluate(V, F, S, outV, outF, rv, cut_keys, scale):
        ctx.check(okk, pre + sig, msg + f" | singularities {S[:12]}, features={feat}, {info}")

    # ---- cut_adj = adjacency lists of the cut graph (docstring)
    ca = final["cut_adj"]
    exp = defaultdict(set)
    for (a, b) in cut_keys:
        exp[a].add(b); exp[b].add(a)
    bad = [(v, ca.get(v, []), sorted(exp.get(v, ()))) for v in range(len(V)) if set(ca.get(v, [])) != exp.get(v, set())]
    bad += [(v, ca[v], []) for v in ca if not (isinstance(v, int) and 0 <= v < len(V)) and ca[v]]
    ctx.check(not bad, pre + "cut_adj:matches-cut_edges", f"(vertex, cut_adj, neighbours through cut_edges): {bad[:4]} | {info}")

    # ---- cut_graph: "the cut edges as a Polyline"
    P, ge = final["cut_graph"]
    P = np.array(P, dtype=float).reshape(-1, 3)
    okidx = all(0 <= a < len(P) and 0 <= b < len(P) for a, b in ge)
    if ctx.check(okidx and len(ge) == len(cut_keys), pre + "cut_graph:edges",
                 f"cut_graph has {len(ge)} edges over {len(P)} vertices, cut_edges has {len(cut_keys)} | {info}"):
        def seg(p, q):
            p = tuple(np.round(np.asarray(p) / (1e-9 * scale)).astype(np.int64)); q = tuple(np.round(np.asarray(q) / (1e-9 * scale)).astype(np.int64))
            return (min(p, q), max(p, q))
        got = sorted(seg(P[a], P[b]) for a, b in ge)
        want = sorted(seg(A[a], A[b]) for a, b in cut_keys)
        ctx.check(got == want, pre + "cut_graph:geometry", "segments of cut_graph are not the segments of the cut edges | " + info)

    # ---- the arguments are left as they were
    if sing_before is None:
        sing_after = None
    elif isinstance(sing_before, dict):
        sing_after = {int(k): int(sing[k]) for k in sing}
    elif isinstance(sing, (set, frozenset)):
        sing_after = sorted(int(x) for x in sing)
    else:
        sing_after = [int(x) for x in sing]
    ctx.check(sing_after == sing_before, pre + "argument-changed:singularities", f"singularities argument was {sing_before}, is now {sing_after}")
    if fd is not None:
        ctx.check((set(fd.feature_edges), set(fd.feature_vertices)) == fd_before, pre + "argument-changed:features",
                  "the feature detector's feature_edges / feature_vertices changed during the cut")
    return original


def input_unchanged(ctx, m, V, F, sig, when):
    mv = [[float(x) for x in v] for v in m.vertices]
    mf = [ints(f) for f in m.faces]
    ctx.check(mf == [list(f) for f in F], sig, f"the faces of the input mesh object changed {when}")
    ctx.check(len(mv) == len(V) and (not V or float(np.abs(np.array(mv) - np.array(V, dtype=float)).max()) == 0.0), sig,
              f"the vertices of the input mesh object changed {when}")


def fn(case, ctx):
    import mouette as M
    V, F, S = case["V"], case["F"], [int(s) for s in case["singus"]]
    feat = case["features"]
    rin, nloops, genus = topo_summary(V, F)
    if rin.validate() is not None or rin.n_face_components() != 1:
        raise HarnessError("C16 case is not one connected manifold surface")
    nS = len(set(S))
    bvin = rin.border_vertices()
    ctx.label("closed" if nloops == 0 else f"loops={min(nloops, 4)}", f"genus={min(genus, 3)}",
              "singus=" + ("0" if nS == 0 else "1" if nS == 1 else "2" if nS == 2 else "3-5" if nS <= 5 else "6+"),
              "features=" + feat, "form=" + case["singu_form"],
              "faces<=20" if len(F) <= 20 else "faces<=200" if len(F) <= 200 else "faces>200")
    if any(s in bvin for s in S):
        ctx.label("singularity-on-border")
    if nS >= 2 and any(rin.is_edge(a, b) for i, a in enumerate(S) for b in S[i + 1:]):
        ctx.label("adjacent-singularities")
    if nloops == 0 and genus == 0:
        ctx.label("sphere:uncut-expected" if nS < 2 else "sphere:cut")
    if is_known_single_edge_sphere(F, S):
        ctx.label("sphere:two-adjacent(14b)")
    if "jitter" not in case["tags"]:
        ctx.label("exact-ties-possible")
    if "base=tie-trap" in case["tags"]:
        ctx.label("tie-trap")
    if "base=crease-tie" in case["tags"]:
        ctx.label("crease-tie")
    if "base=lattice-tie" in case["tags"]:
        ctx.label("lattice-tie", *["lattice-tie:" + t for t in case["tags"] if t.startswith(("lattice", "tie-target"))])
    if case.get("mode") == "on-shortest-paths":
        ctx.label("singus=on-each-other's-shortest-paths")
    measure_ties = "base=lattice-tie" in case["tags"] or case.get("mode") in ("on-shortest-paths", "crease-tie")
    if measure_ties and bvin:
        ctx.label(*tie_classes(V, rin, S, bvin, "border"))
    nun = len(V) - len(set(v for f in F for v in f))
    if nun:
        ctx.label("unused-vertices")
        if nloops == 0 and genus > 0 and nun == 2 * genus:
            ctx.label("unused-vertices:container-euler-is-2-on-genus>0")
    # coincident positions (measured on the realised case)
    A = np.array(V, dtype=float)
    if len(set(map(tuple, A.tolist()))) < len(V):
        ctx.label("coincident-vertices")
        bar = A[np.array(F, dtype=int)].mean(axis=1)
        same = 0
        for (a, b) in rin.uedges:
            if not rin.edge_on_border(a, b):
                f1 = rin.he[(a, b)][0]; f2 = rin.he[(b, a)][0]
                if float(np.abs(bar[f1] - bar[f2]).max()) == 0.0:
                    same += 1
        if same:
            ctx.label("adjacent-faces-same-barycentre")
        if len(set(map(tuple, A.tolist()))) <= 4:
            ctx.label("collapsed-to<=4-positions")
    ctx.nontrivial(genus > 0 or nS >= 2 or nloops >= 2)
    info = f"{len(F)} faces, genus {genus}, {nloops} loops"

    cfg = case.get("config") or {}
    M.config.sort_neighborhoods = bool(cfg.get("sort_neighborhoods", True))          # restored by the runner after the case
    M.config.display_duplicate_attribute_warning = bool(cfg.get("display_duplicate_attribute_warning", False))
    ctx.label("config:sort_neighborhoods=" + ("on" if M.config.sort_neighborhoods else "off"),
              "config:duplicate-attribute-returns-existing=" + ("on" if M.config.display_duplicate_attribute_warning else "off"))
    hard = [tuple(e) for e in case.get("hard", [])]
    m = surface_from(V, F, E=hard or None, form=case.get("mesh_form", "list"))
    ctx.label("mesh-form=" + case.get("mesh_form", "list"))
    if any(t.startswith("far-from-origin") for t in case["tags"]):
        ctx.label("far-from-origin")
    ok, fd = make_detector(ctx, M, m, feat, verbose=bool(case.get("detector_verbose")))
    if not ok:
        return
    if measure_ties and fd is not None and isinstance(fd.feature_vertices, set) and set(fd.feature_vertices) - bvin:
        # evidence only: ties towards what the detector reports as feature vertices (border + creases)
        ctx.label(*tie_classes(V, rin, S, [v for v in fd.feature_vertices if isinstance(v, (int, np.integer)) and 0 <= v < len(V)], "feature-graph"))
    form = case["singu_form"]
    if form == "attribute":
        sing = m.vertices.create_attribute("singuls", int)
        for s in S:
            sing[s] = 1 if s % 2 == 0 else -1
    elif form == "numpy":
        sing = np.array(S, dtype=np.int64)
    elif form == "tuple":
        sing = tuple(S)
    elif form == "iterator":                # one-shot iterables: the constructor documents "indices of the singular vertices" and
        sing = iter(list(S))                # copies any non-list argument element by element
    elif form == "generator":
        sing = (int(s) for s in list(S))
    elif form == "set":
        sing = set(S)
    elif form == "range-or-list":
        sing = range(min(S), max(S) + 1) if S and sorted(set(S)) == list(range(min(S), max(S) + 1)) and len(set(S)) == len(S) else list(S)
        if isinstance(sing, range):
            S = list(sing)
            ctx.label("form=range(realised)")
    else:
        sing = list(S)
    verbose = bool(case.get("verbose"))
    reads = case.get("reads") or list(RESULTS)
    ctx.label("verbose" if verbose else "quiet", "first-read=" + reads[0],
              "ref_vertex-read-before-output_mesh" if reads.index("ref_vertex") < reads.index("output_mesh") else "ref_vertex-read-after-output_mesh",
              "cut_edges-reread-after-cut_graph" if any(r == "cut_edges" for r in reads[reads.index("cut_graph") + 1:]) else "cut_edges-not-reread-after-cut_graph",
              "re-reads" if len(reads) > len(RESULTS) else "no-re-reads")
    sc = [t for t in case["tags"] if t.startswith("scale=")]
    ctx.label(sc[0] if sc else "scale=1")
    clone = case.get("clone", "no")
    ctx.label("results-read-from=" + {"no": "the cutter", "copy": "copy.copy(cutter)", "deepcopy": "copy.deepcopy(cutter)"}[clone])
    sec = case.get("second")
    inter = (sec or {}).get("interleaved", "no")          # "no" | "first-read-first" | "second-read-first"
    rerun = case.get("rerun", "no")
    ctx.label("same-cutter-run-twice=" + rerun)
    st1 = start_cut(ctx, M, m, fd, sing, "", verbose=verbose, rerun=rerun)
    if st1 is None:
        return
    first_args = (ctx, M, m, V, F, S, feat, fd, sing, "", info + (" (a second cutter ran on the same mesh before these results were read)" if inter != "no" else ""), st1)
    if sec is None or inter == "no":
        cutter = finish_cut(*first_args, reads=reads, clone=clone)
        if cutter is None:
            return
        if fd is not None and cutter.has_features:
            ctx.label("feature-path-taken")
    if sec is None:
        return
    # ---- history: the same mesh object is cut again by an independent cutter
    input_unchanged(ctx, m, V, F, "input-mesh-changed", "during the first cut")
    S2 = [int(x) for x in sec["singus"]]
    f2 = sec["features"]
    if f2 == feat and sec.get("reuse_detector") and fd is not None:
        fd2 = fd
    else:
        ok, fd2 = make_detector(ctx, M, m, f2, "second:", verbose=bool(case.get("detector_verbose")))
        if not ok:
            return
    ctx.label("second:how=" + sec["how"], f"second:features {feat}->{f2}", "second:interleaved=" + inter)
    # the same argument object is handed over again when the set is the same and it is a plain sequence
    sing2 = sing if (sec["how"] == "same" and form in ("list", "tuple", "numpy") and S2 == S) else list(S2)
    if sing2 is sing:
        ctx.label("second:same-argument-object")
    ctx.label("second:verbose " + ("on" if verbose else "off") + "->" + ("on" if sec.get("verbose") else "off"))
    info2 = info + f" (second cutter on the same mesh object; first cutter: singularities {S[:12]}, features={feat}; interleaved={inter})"
    st2 = start_cut(ctx, M, m, fd2, sing2, "second:", verbose=bool(sec.get("verbose")))
    if st2 is None:
        return
    second_args = (ctx, M, m, V, F, S2, f2, fd2, sing2, "second:", info2, st2)
    reads2 = sec.get("reads") or list(RESULTS)
    if inter == "no":
        c2 = finish_cut(*second_args, reads=reads2, clone=clone)
    elif inter == "first-read-first":
        # both cutters have run before any lazily built result is read
        cutter = finish_cut(*first_args, reads=reads, clone=clone)
        c2 = finish_cut(*second_args, reads=reads2, clone=clone) if cutter is not None else None
    else:
        c2 = finish_cut(*second_args, reads=reads2, clone=clone)
        cutter = finish_cut(*first_args, reads=reads, clone=clone) if c2 is not None else None
    if c2 is None or cutter is None:
        return
    if inter != "no" and set(S2) != set(S):
        ctx.label("second:interleaved,different-singularities")
    if cutter.has_features and fd2 is not None and c2.has_features:
        ctx.label("second:both-on-feature-path")
        if set(S2) != set(S):
            ctx.label("second:both-on-feature-path,different-singularities")
    input_unchanged(ctx, m, V, F, "second:input-mesh-changed", "during the second cut")


def self_test():
    """the oracle accepts a hand-made correct cut and rejects broken ones"""
    V, F = G.octahedron()
    V = [[float(x) for x in v] for v in V]

    def cut(F, cut_keys):
        ref = SurfRef(1 + max(v for f in F for v in f), F)
        par = list(range(3 * len(F)))

        def find(x):
            while par[x] != x:
                par[x] = par[par[x]]; x = par[x]
            return x
        for (a, b) in ref.uedges:
            if key(a, b) in cut_keys or ref.edge_on_border(a, b):
                continue
            f1, i1 = ref.he[(a, b)]; f2, i2 = ref.he[(b, a)]
            par[find(3 * f1 + i1)] = find(3 * f2 + (i2 + 1) % 3)
            par[find(3 * f1 + (i1 + 1) % 3)] = find(3 * f2 + i2)
        ids = {}; outF = []; rv = {}; outV = []
        for f, t in enumerate(F):
            row = []
            for i, v in enumerate(t):
                r = find(3 * f + i)
                if r not in ids:
                    ids[r] = len(ids); outV.append(V[v]); rv[ids[r]] = v
                row.append(ids[r])
            outF.append(row)
        return outV, outF, rv
    # path 4 - 0 - 5 : singular vertices 4 and 5 (not adjacent)
    ck = {key(0, 4), key(0, 5)}
    oV, oF, rv = cut(F, ck)
    bad = [r for r in evaluate(V, F, [4, 5], oV, oF, rv, ck, 1.0) if not r[1]]
    assert not bad, bad
    # single edge 0-4 cannot be opened
    ck = {key(0, 4)}
    oV, oF, rv = cut(F, ck)
    sigs = {r[0] for r in evaluate(V, F, [0, 4], oV, oF, rv, ck, 1.0) if not r[1]}
    assert sigs == FOURTEEN_B_SIGNATURES, sigs
    assert is_known_single_edge_sphere(F, [0, 4]) and not is_known_single_edge_sphere(F, [4, 5])
    # uncut sphere is right for one singularity, wrong for two distant ones
    oV, oF, rv = cut(F, set())
    assert all(r[1] for r in evaluate(V, F, [3], oV, oF, rv, set(), 1.0))
    assert any(not r[1] for r in evaluate(V, F, [4, 5], oV, oF, rv, set(), 1.0))
    # an unreported opened edge is detected
    ck = {key(0, 4), key(0, 5)}
    oV, oF, rv = cut(F, ck | {key(0, 2)})
    sigs = {r[0] for r in evaluate(V, F, [4, 5], oV, oF, rv, ck, 1.0) if not r[1]}
    assert "glued-iff-not-cut" in sigs, sigs


SUBCHECKS = [
    SubCheck("cut_small", cut_case(big=False), fn, quick=1200, thorough=2500),
    SubCheck("cut_twice", cut_case(big=False, twice=True), fn, quick=800, thorough=1500),
    SubCheck("cut_large", cut_case(big=True), fn, quick=120, thorough=400, watchdog=(60, 240)),
]

MATCHERS = {"kf_sphere_two_adjacent_singularities": kf_sphere_two_adjacent_singularities}
