"""C17 - Tutte's embedding is a fold-free planar embedding of a triangulated disk onto the convex target."""
import math
import numpy as np
from hypothesis import strategies as st
from vlib.runner import SubCheck, innermost_mouette_frame, Violation, Inconclusive, HarnessError
from vlib import gen_surface as G
from vlib.topo import SurfRef, key
from vlib.build import surface_from, ints

PROPERTY = "C17"
RULE = ("Triangulated disks built by the harness: Delaunay triangulations of 4-400 jittered-grid points with 0-3 border-triangle "
        "removals (chords, non-convex borders, any border length, optional height field), well-shaped bordered bases (grids, closed "
        "and open fans, strips, triangulated polygons, single triangles) after 1-3 splits / flips / edge splits / face deletions, "
        "and arbitrary-geometry triangulated planar-base surfaces (uniform weights only); relabelled vertices / permuted and "
        "rotated faces / reversed orientation. x target circle / square / custom strictly convex polygon (points on a rotated, "
        "translated, scaled (1e-3..1e3) ellipse at irregular angles, either direction, any starting vertex; passed in "
        "mesh.boundary_vertices order, with boundary_mode left at 'circle' or set to 'square') x uniform / cotangent weights x "
        "both storages (per-vertex and per-corner are BOTH run on fresh meshes for every case and compared). Oracles use the "
        "border loop, vertex neighbourhoods and cotangent weights recomputed from the raw face list and coordinates. Cases whose "
        "generator output is not a disk are either used for the rejection oracle (chi != 1) or counted as discarded. "
        "Every case also carries a SECOND configuration (target, weights, storage, verbosity drawn independently) that is run on one "
        "of the two mesh objects ALREADY used by the first run, optionally after attributes.cotangent / attributes.corner_angles / "
        "a cotangent laplacian were evaluated on it (persistent 'cotan' / 'angles' corner attributes); all oracles are applied to "
        "the second result as well. Input coordinates are uniformly scaled by 1e-8 / 1e-6 / 1e-4 / 1 / 1e4 / 1e6 (the statement is invariant to the unit of the input); custom polygons may be integer-typed "
        "(numpy int64 array, radius ~1e6); the custom array argument is snapshotted and must be unchanged after run(). "
        "A third stage (1-2 rounds in ~1/3 of the cases) deletes every mesh and worker, collects garbage and embeds a freshly built, "
        "RELABELLED mesh with the same |V|,|E|,|F| (optionally obtained through mesh.copy), refilling the SAME custom_boundary array "
        "object in place; the flat_mesh of the first worker is in part of the cases read only after a second worker ran on the same "
        "mesh (other container); 2.5% of the disks have element counts of exactly 255/256/257 (vertices, faces, interior vertices, "
        "border length); custom polygons include one within 1e-5 of the unit circle. "
        "CALL SPELLING (drawn independently for each configuration, also in non_disk_rejected): the documented signature "
        "TutteEmbedding(mesh, boundary_mode='circle', use_cotan=False, verbose=False, save_on_corners=True, custom_boundary=None) is called with "
        "all options by keyword / boundary_mode positional / boundary_mode and use_cotan positional / boundary_mode, use_cotan and verbose "
        "positional (documented order) / only the non-default options / everything incl. mesh= by keyword; the flags use_cotan, verbose, "
        "save_on_corners are bool, numpy.bool_ or 0/1; for the circle and square targets custom_boundary=None (the documented default) is "
        "passed explicitly in 1/3 of the calls; the worker is run by .run() or by calling it (worker() must return the worker). The "
        "constructor must accept every spelling and all oracles apply to the options as the caller spelled them. "
        "NEEDLE TRIANGLES (src=thin, ~12% of the disks): planar Delaunay triangulations (non-negative cotangent weights) of 8-80 jittered-grid points plus 1-3 points "
        "at distance 3e-4 .. 3e-6 of an existing one (interior or border), hull slivers peeled off, optionally moved by a rigid motion of space: "
        "corner angles down to 1e-6 rad with every corner <= 170 deg; cotangent weights ARE requested on them. "
        "CACHED ATTRIBUTES: before the first run (1/2 of the cases, the same step on both fresh meshes) and before the second run, one of "
        "corner_angles / cotangent / corner_angles then cotangent / face_area / angle_defects / cotan_weights / vertex_normals / "
        "SurfaceConnectionVertices / a vertex frame field (<= 60 faces) / a cotangent laplacian is evaluated on the mesh object, which leaves persistent "
        "attributes ('angles', 'cotan', 'area', 'normals', ...) on it; the geometry is never changed afterwards, so every cached value is "
        "valid and the statement must hold unchanged (labels *:cotan-with-cached:<attributes>:min-corner-angle:<class> count how often cotangent "
        "weights meet which cached corner attribute at which needle sharpness). "
        "Sub-check large_disks: jittered 34..44 x 34..44 grids with random diagonals and Delaunay triangulations of 1200-1900 "
        "jittered-grid points (> 1000 interior vertices, optional height field), same oracles and tolerances. "
        "Sub-check non_disk_rejected: triangulated spheres, tori, annuli, multi-loop and multi-component surfaces, connected sums "
        "(chi != 1) x all targets x both storages, plus (1/4 of the cases) triangulated disks and other surfaces with 1-2 UNREFERENCED "
        "vertices (id 0, a middle id, the last id), where chi is V - E + F over all vertices as documented for euler_characteristic. non-trivial (disk_embedding) = >=1 interior vertex and (an interior edge "
        "joining two border vertices or a border length that is not a multiple of 4); non-trivial (non_disk_rejected) = chi != 1; "
        "non-trivial (large_disks) = > 1000 interior vertices; distinct = distinct realised case.")
ASSUMPTIONS = ["input disks are oriented manifold triangulations (single border loop, one component, chi = 1) without unreferenced vertices "
               "(a disk plus unreferenced vertices has V - E + F != 1 by the library's documented definition and belongs to the rejection gate); "
               "default library configuration (sort_neighborhoods = True)",
               "cotangent weights are only requested on meshes with min angle >= 5 deg and max angle <= 170 deg, or - needle class, close pairs of "
               "points in a planar Delaunay triangulation - min angle >= 1e-6 rad and max angle <= 170 deg (otherwise the case is "
               "run with uniform weights and without any attribute-caching pre-step). The bound on the largest angle keeps every corner cotangent "
               ">= -5.7, so that no edge weight is a difference of two huge numbers; a needle corner of angle a contributes a weight ~1/a whose "
               "relative error (input rounding, the library's angle -> tangent route, the harness's cross product) is <= ~1e-16/a <= 1e-10, and "
               "the interior oracle measures the residual relative to sum|w| x target size, which that weight dominates; the orientation oracle is strict only when every interior-edge weight (cot a + cot b)/2 is "
               ">= 1e-9; when some weight lies in [-1e-9, 1e-9) (e.g. unjittered grid diagonals) only 'no triangle strictly flipped' "
               "is asserted (limit of positive weights); when a weight is < -1e-9 the orientation oracle is skipped and counted",
               "square target: the orientation oracle is applied only when no interior edge joins two border vertices that the code "
               "places on the same closed side of the square (Floater 2003, Thm 4.1: a convex-combination map that sends the border "
               "homeomorphically to the boundary of a convex region is one-to-one iff no dividing edge is mapped into that boundary); "
               "a triangle with all vertices on one side always has such an edge, so every case excluded by the statement is excluded "
               "here too; in the excluded cases only 'no triangle strictly flipped' is asserted (limit of strictly convex targets)",
               "square target, numerics: a triangle whose three computed positions (interior vertices included) lie within 1e-9 of one side "
               "line of the square is treated as 'all its vertices on one side' (excluded by the statement; only 'not flipped' is asserted for "
               "it): on a long strip wrapped around a side the interior vertices approach the side exponentially (1 - y < 1e-16 after ~20 "
               "steps) and are strictly inside only in exact arithmetic",
               "call spellings: positional arguments follow the documented order (mesh, boundary_mode, use_cotan, verbose); save_on_corners and "
               "custom_boundary are keyword-only (kwargs); truthy / falsy flag values of type numpy.bool_ or int (0/1) mean the same as the "
               "bool; custom_boundary=None means 'not provided' (its documented default); Worker.__call__ runs the worker and returns it "
               "(examples/parametrization/cotan_embedding.py relies on it)",
               "attribute-caching pre-steps are run on valid, unchanged geometry; corner_angles, cotangent, face_area, angle_defects, cotan_weights, "
               "vertex_normals and the laplacian must not raise on these non-degenerate triangulated disks (signature pre:<step>:raises), whereas a "
               "failure of SurfaceConnectionVertices / the frame field is not this property's business: the case is discarded and counted",
               "histories on one mesh object are in the domain (the repo tests themselves run per-corner then per-vertex on the same mesh): a "
               "second TutteEmbedding on an already used mesh must satisfy the same statement for ITS options",
               "custom target: the N x 2 array is indexed like mesh.boundary_vertices (as run() pairs them); the harness supplies a "
               "strictly convex polygon in border-loop order",
               "rejection: only chi != 1 must raise (chi = 1 non-disks such as disk + torus are not asserted); the exception must come "
               "from TutteEmbedding.run itself, not from an accidental failure further down"]

TOL = 1e-9
THIN_MIN_ANGLE = 1e-6        # needle triangles: cotangent weights are requested down to this corner angle (radians)
AREA_TOL = 1e-13
_FROZEN = False


# ============================================================================================ generators

def _is_disk(ref):
    loops = ref.border_loops()
    return loops is not None and len(loops) == 1 and ref.n_face_components() == 1 and ref.euler() == 1


def convex_polygon(n, seed, scale, reverse, center, near_unit=False):
    """n points in strictly convex position: irregular angles (gap >= 0.25 x mean gap) on a rotated ellipse."""
    rnd = np.random.RandomState(seed)
    gaps = rnd.uniform(0.25, 1.0, n)
    ang = np.cumsum(gaps) / np.sum(gaps) * 2 * math.pi + rnd.uniform(0, 2 * math.pi)
    a, b = rnd.uniform(0.6, 1.6, 2)
    rot = rnd.uniform(0, 2 * math.pi)
    if near_unit:
        a = b = 1.000008          # within 1e-5 of the built-in circle target, but not it
        rot = 0.0
    x, y = a * np.cos(ang), b * np.sin(ang)
    P = np.stack([math.cos(rot) * x - math.sin(rot) * y, math.sin(rot) * x + math.cos(rot) * y], axis=1)
    P = scale * (P + np.array(center))
    if reverse:
        P = P[::-1]
    return P.tolist()


def strictly_convex(P):
    P = np.asarray(P, dtype=float)
    E = np.roll(P, -1, axis=0) - P
    turn = E[:, 0] * np.roll(E[:, 1], -1) - E[:, 1] * np.roll(E[:, 0], -1)
    L = np.linalg.norm(E, axis=1)
    rel = turn / np.maximum(L * np.roll(L, -1), 1e-300)
    return bool(len(P) >= 3 and (np.all(rel > 1e-7) or np.all(rel < -1e-7)))


def delaunay_n(n, seed):
    """Delaunay triangulation of exactly n jittered-grid points (all of them referenced), or None"""
    from scipy.spatial import Delaunay
    rnd = np.random.RandomState(seed)
    k = int(math.ceil(math.sqrt(n))) + 1
    cells = [(i, j) for i in range(k) for j in range(k)]
    rnd.shuffle(cells)
    P = np.array([[i + 0.5 + rnd.uniform(-0.3, 0.3), j + 0.5 + rnd.uniform(-0.3, 0.3)] for (i, j) in cells[:n]])
    F = []
    for t in Delaunay(P).simplices:
        a, b, c = (P[int(x)] for x in t)
        ar = (b[0] - a[0]) * (c[1] - a[1]) - (b[1] - a[1]) * (c[0] - a[0])
        if abs(ar) > 1e-9:
            F.append([int(t[0]), int(t[1]), int(t[2])] if ar > 0 else [int(t[0]), int(t[2]), int(t[1])])
    r = SurfRef(n, F)
    if len(set(v for f in F for v in f)) != n or r.validate() is not None or not _is_disk(r):
        return None
    return [[float(p[0]), float(p[1]), 0.0] for p in P], F


def pow2_mesh(which, seed):
    """element counts of exactly 255 / 256 / 257: vertices, faces, interior vertices, border length"""
    rnd = np.random.RandomState(seed)
    if which in (0, 1, 2):
        n = 255 + which
        r = delaunay_n(n, seed)
        if r is not None:
            return r[0], r[1], f"vertices={n}"
        which = 3
    if which == 3:
        nu, nv, what = 8, 16, "faces=256"
    elif which == 4:
        nu, nv, what = 17, 17, "interior=256"
    elif which == 5:
        nu, nv, what = 2, 126, "border=256"
    elif which == 6:
        nu, nv, what = 2, 258, "interior=257"
    else:
        nu, nv, what = 15, 15, "vertices=256(grid)"
    V, Q = G.grid(nu, nv)
    F = []
    for q in Q:
        F += [[q[0], q[1], q[2]], [q[0], q[2], q[3]]] if rnd.randint(2) else [[q[0], q[1], q[3]], [q[1], q[2], q[3]]]
    A = np.array(V, dtype=float)
    A[:, :2] += rnd.uniform(-0.15, 0.15, (len(A), 2))
    V, F, _ = G.relabel(A.tolist(), F, seed)
    return V, [list(map(int, f)) for f in F], what


def corner_angle_range(V, F):
    """(smallest, largest) corner angle in radians over all triangles, via atan2 (accurate for angles near 0 and pi)"""
    A = np.asarray(V, dtype=float)
    Fa = np.asarray(F, dtype=int).reshape(-1, 3)
    mn, mx = math.pi, 0.0
    for i in range(3):
        o, p, q = A[Fa[:, i]], A[Fa[:, (i + 1) % 3]], A[Fa[:, (i + 2) % 3]]
        u, w = p - o, q - o
        ang = np.arctan2(np.linalg.norm(np.cross(u, w), axis=1), (u * w).sum(axis=1))
        mn, mx = min(mn, float(ang.min())), max(mx, float(ang.max()))
    return mn, mx


THIN_GAPS = [3e-4, 1e-4, 3e-5, 1e-5, 3e-6]


def thin_delaunay(n, seed, gap, npairs, rotate):
    """planar Delaunay triangulation (=> non-negative cotangent weights on interior edges) of n jittered-grid points (spacing ~1) plus
    npairs extra points, each at distance `gap` (random direction) from one of them: needle triangles with a corner angle of about gap
    radians, far from degenerate in double precision (relative edge length >= 1e-6). Close pairs lie in the interior or on the border.
    rotate: the plane is moved by a rigid motion of space. Returns (V, F) or None."""
    from scipy.spatial import Delaunay
    rnd = np.random.RandomState(seed)
    k = int(math.ceil(math.sqrt(n))) + 1
    cells = [(i, j) for i in range(k) for j in range(k)]
    rnd.shuffle(cells)
    P = [[i + 0.5 + rnd.uniform(-0.3, 0.3), j + 0.5 + rnd.uniform(-0.3, 0.3)] for (i, j) in cells[:n]]
    # prefer points away from the hull of the point grid (interior close pairs), sometimes any point
    inner = [t for t, (i, j) in enumerate(cells[:n]) if 0 < i < k - 1 and 0 < j < k - 1]
    for _ in range(npairs):
        pool = inner if (inner and rnd.randint(4) != 0) else list(range(n))
        t = pool[rnd.randint(len(pool))]
        a = rnd.uniform(0, 2 * math.pi)
        P.append([P[t][0] + gap * math.cos(a), P[t][1] + gap * math.sin(a)])
    P = np.array(P)
    F = []
    for t in Delaunay(P).simplices:
        a, b, c = (P[int(x)] for x in t)
        ar = (b[0] - a[0]) * (c[1] - a[1]) - (b[1] - a[1]) * (c[0] - a[0])
        if abs(ar) > 1e-9:
            F.append([int(t[0]), int(t[1]), int(t[2])] if ar > 0 else [int(t[0]), int(t[2]), int(t[1])])
    # peel flat triangles off the convex hull (corner > 150 deg opposite a border edge): cotangent weights are only requested when no
    # corner exceeds 170 deg, and the hull of a jittered grid is full of such slivers. Interior edges keep both their Delaunay triangles.
    while True:
        cnt = {}
        for f in F:
            for i in range(3):
                cnt[key(f[i], f[(i + 1) % 3])] = cnt.get(key(f[i], f[(i + 1) % 3]), 0) + 1
        bverts = set(v for e, c in cnt.items() if c == 1 for v in e)
        drop = None
        for t, f in enumerate(F):
            for i in range(3):
                c, a, b = f[i], f[(i + 1) % 3], f[(i + 2) % 3]
                if cnt[key(a, b)] == 1 and c not in bverts:
                    u, w = P[a] - P[c], P[b] - P[c]
                    if math.atan2(abs(u[0] * w[1] - u[1] * w[0]), float(np.dot(u, w))) > math.radians(150):
                        drop = t
            if drop is not None:
                break
        if drop is None or len(F) <= 2:
            break
        F = F[:drop] + F[drop + 1:]
    r = SurfRef(len(P), F)
    if len(set(v for f in F for v in f)) != len(P) or r.validate() is not None or not _is_disk(r):
        return None
    V = [[float(p[0]), float(p[1]), 0.0] for p in P]
    if rotate:
        V = G.rigid(V, seed + 1)
    return V, F


@st.composite
def disk_mesh(draw):
    src = draw(st.sampled_from(["delaunay", "wellshaped", "delaunay", "anygeom", "delaunay", "wellshaped", "delaunay"]))
    r = draw(st.integers(0, 2 ** 20))
    if r % 40 == 5:
        V, F, what = pow2_mesh((r // 40) % 8, r // 320)
        return {"V": V, "F": F, "tags": ["src=pow2", "base=pow2:" + what]}
    if r % 8 == 3:
        # needle triangles: close pairs of points in a planar Delaunay triangulation
        q = r // 8
        gap = THIN_GAPS[q % len(THIN_GAPS)]
        n = [8, 14, 25, 40, 25, 14, 80, 40][(q // 5) % 8]
        res = thin_delaunay(n, q // 40, gap, 1 + (q // 40) % 3, (q // 120) % 3 == 0)
        if res is not None:
            V, F = res
            if (q // 360) % 2:
                V, F, _ = G.relabel(V, F, q // 720, reverse=bool((q // 720) % 2))
            return {"V": V, "F": [list(map(int, f)) for f in F], "tags": ["src=thin", "base=thin-delaunay", f"thin-gap={gap:g}"]}
    if src == "delaunay":
        size = draw(st.sampled_from([40, 25, 40, 120, 12, 40, 25, 40, 120, 400]))
        s = draw(G.delaunay_disks(max_pts=size, ear_removals=3))
        if draw(st.booleans()):
            V, F, _ = G.relabel(s["V"], s["F"], draw(st.integers(0, 10000)), reverse=draw(st.booleans()))
            s = {"V": V, "F": F, "tags": s["tags"] + ["relabelled"]}
    elif src == "wellshaped":
        s = draw(G.well_shaped_trisurf(max_faces=120, bordered=True,
                                       open_bases=("grid", "fan_closed", "grid", "fan_open", "grid", "strip", "fan_closed", "polygon")))
    else:
        s = draw(G.surfaces(max_faces=80, triangulated=True, planar_only=draw(st.booleans()),
                            bases=["grid", "fan_closed", "fan_open", "strip", "polygon"], allow_union=False, allow_sum=False))
    return {"V": s["V"], "F": [list(map(int, f)) for f in s["F"]], "tags": ["src=" + src] + list(s["tags"])}


def options(k, prefix=""):
    """one configuration from an integer (sampled_from is strongly biased towards its first element)"""
    return {prefix + "mode": ["square", "custom", "circle"][k % 3], prefix + "cotan": (k // 3) % 2 == 0,
            prefix + "bm_arg": ["circle", "square"][(k // 6) % 2], prefix + "verbose": (k // 12) % 8 == 7}


# how a caller spells the constructor call: the documented signature is
#   TutteEmbedding(mesh, boundary_mode="circle", use_cotan=False, verbose=False, **kwargs)   kwargs: save_on_corners=True, custom_boundary=None
FORMS = ["kw",          # TutteEmbedding(mesh, boundary_mode=.., use_cotan=.., verbose=.., save_on_corners=..)
         "pos-mode",    # TutteEmbedding(mesh, mode, use_cotan=.., verbose=.., ...)           (examples/parametrization/tutte.py)
         "pos-cotan",   # TutteEmbedding(mesh, mode, use_cotan, verbose=.., ...)
         "pos-all",     # TutteEmbedding(mesh, mode, use_cotan, verbose, save_on_corners=..)
         "minimal",     # only the arguments that differ from their documented default, by keyword
         "mesh-kw"]     # everything by keyword, the mesh included
FLAG_KINDS = ["bool", "numpy.bool_", "bool", "int"]


def spelling(k):
    """form of the argument list x type of the flags x optional custom_boundary passed explicitly as None x run() or worker()"""
    return {"form": FORMS[k % 6], "flag": FLAG_KINDS[(k // 6) % 4], "none_cb": (k // 24) % 3 == 0, "invoke": ["run", "call"][(k // 72) % 2]}


# library calls that cache attributes on the mesh object (evaluated on the mesh BEFORE an embedding is computed on it)
PRE_STEPS = ["none", "angles", "cotangent", "angles+cotangent", "face_area", "angle_defects", "cotan_weights", "vertex_normals",
             "connection", "framefield", "cotan_laplacian", "angles"]


def finish_case(draw, s):
    """adds the two configurations, the history step, input scale and the custom polygon to a generated disk"""
    case = {"V": s["V"], "F": s["F"], "tags": list(s["tags"])}
    k1 = draw(st.integers(0, 2 ** 20))
    case.update(options(k1))
    k2 = draw(st.integers(0, 2 ** 20))
    case.update(options(k2, "second_"))
    case["second_corners"] = (k2 // 100) % 2 == 0
    case["second_on"] = ["vertex-mesh", "corner-mesh"][(k2 // 200) % 2]
    k3 = draw(st.integers(0, 2 ** 20))
    case["spell"] = spelling(k3)
    case["second_spell"] = spelling(k3 // 144)
    k4 = draw(st.integers(0, 2 ** 20))
    case["first_pre"] = PRE_STEPS[(k4 // 2) % len(PRE_STEPS)] if k4 % 2 else "none"
    case["second_pre"] = PRE_STEPS[(k4 // 24) % len(PRE_STEPS)]
    # third stage: drop every object, collect garbage, embed a RELABELLED mesh with the same element counts (1 or 2 times)
    case["recycle"] = 0 if len(s["V"]) > 1000 else [0, 1, 2, 1][(k2 // 1600) % 4]
    case["recycle_seed"] = k2 % 9973
    case["recycle_copy"] = (k2 // 12800) % 2 == 1
    case["lazy_flat"] = (k2 // 25600) % 2 == 1
    amin, amax = corner_angle_range(s["V"], s["F"]) if all(len(f) == 3 for f in s["F"]) else (0.0, math.pi)
    thin_ok = "src=thin" in s["tags"] and amin >= THIN_MIN_ANGLE
    if (amin < math.radians(5.0) and not thin_ok) or amax > math.radians(170.0):
        if case["cotan"] or case["second_cotan"]:
            case["tags"].append("forced-uniform")
        case["cotan"] = case["second_cotan"] = False
        case["first_pre"] = case["second_pre"] = "none"          # cotangents / angles are not defined on (near-)degenerate triangles
    if case["first_pre"] == "framefield" and len(s["F"]) > 60:
        case["first_pre"] = "connection"
    if case["second_pre"] == "framefield" and len(s["F"]) > 60:
        case["second_pre"] = "connection"
    sc = [1.0, 1e-4, 1.0, 1e4, 1e-6, 1e6, 1e-8, 1.0][(k1 // 400) % 8]
    if sc != 1.0:
        case["V"] = (np.array(s["V"], dtype=float) * sc).tolist()
    case["in_scale"] = sc
    ref = SurfRef(len(s["V"]), s["F"])
    loops = ref.border_loops() or [[]]
    n = max(len(loops[0]) if len(loops) >= 1 else 0, 3)
    pscale = [1.0, "int", 1e-3, 1.0, 1e3, "near-unit-circle"][(k2 // 6400) % 6]
    if pscale == "near-unit-circle":
        poly = convex_polygon(n, draw(st.integers(0, 10 ** 6)), 1.0, draw(st.booleans()), [0.0, 0.0], near_unit=True)
    else:
        poly = convex_polygon(n, draw(st.integers(0, 10 ** 6)), 1e6 if pscale == "int" else pscale,
                              draw(st.booleans()), [draw(st.sampled_from([0.0, 0.0, 3.0])), draw(st.sampled_from([0.0, -2.0]))])
    case["poly_kind"] = str(pscale)
    if pscale == "int":
        ip = [[int(round(x)), int(round(y))] for x, y in poly]
        if strictly_convex(ip):
            poly = ip
    case["poly"] = poly
    case["shift"] = draw(st.integers(0, 1000))
    return case


@st.composite
def embed_case(draw):
    return finish_case(draw, draw(disk_mesh()))


def large_mesh(kind, k, seed, height):
    """> 1000 interior vertices: jittered k1 x k2 grid with random diagonals / Delaunay of a jittered point grid"""
    rnd = np.random.RandomState(seed)
    k1, k2 = k, k + int(rnd.randint(-3, 4))
    if kind == "grid":
        V, Q = G.grid(k1, k2)
        F = []
        for q in Q:
            if rnd.randint(2):
                F += [[q[0], q[1], q[2]], [q[0], q[2], q[3]]]
            else:
                F += [[q[0], q[1], q[3]], [q[1], q[2], q[3]]]
        A = np.array(V, dtype=float)
        A[:, :2] += rnd.uniform(-0.2, 0.2, (len(A), 2))
    else:
        from scipy.spatial import Delaunay
        P = np.array([[i + rnd.uniform(-0.3, 0.3), j + rnd.uniform(-0.3, 0.3)] for i in range(k1) for j in range(k2)])
        F = []
        for t in Delaunay(P).simplices:
            a, b, c = (P[int(x)] for x in t)
            ar = (b[0] - a[0]) * (c[1] - a[1]) - (b[1] - a[1]) * (c[0] - a[0])
            if abs(ar) > 1e-9:
                F.append([int(t[0]), int(t[1]), int(t[2])] if ar > 0 else [int(t[0]), int(t[2]), int(t[1])])
        A = np.concatenate([P, np.zeros((len(P), 1))], axis=1)
        Vc, Fc = G.compact(A.tolist(), F)
        r = SurfRef(len(Vc), Fc)
        if r.validate() is not None or not _is_disk(r):
            return large_mesh("grid", k, seed, height)
        A, F = np.array(Vc), Fc
    if height:
        A[:, 2] = 0.8 * np.sin(0.4 * A[:, 0]) * np.cos(0.3 * A[:, 1])
    return A.tolist(), [list(map(int, f)) for f in F]


@st.composite
def large_case(draw):
    r = draw(st.integers(0, 2 ** 30))
    kind = ["grid", "delaunay"][r % 2]
    V, F = large_mesh(kind, 36 + (r // 2) % 7, r // 64, (r // 14) % 2 == 1)
    if (r // 28) % 2:
        V, F, _ = G.relabel(V, F, r // 128, reverse=bool((r // 56) % 2))
    return finish_case(draw, {"V": V, "F": F, "tags": ["src=large-" + kind, "base=large-" + kind]})


def insert_isolated(V, F, positions):
    """insert unreferenced vertices so that they get the given ids (ascending); face indices are shifted accordingly"""
    V = [list(v) for v in V]
    F = [list(f) for f in F]
    for p in sorted(set(min(max(int(p), 0), len(V)) for p in positions)):
        V.insert(p, [0.25 + 0.01 * p, -0.5, 0.125])
        F = [[v + 1 if v >= p else v for v in f] for f in F]
    return V, F


@st.composite
def reject_case(draw):
    k = draw(st.integers(0, 2 ** 20))
    if (k // 24) % 4 == 0:
        # a triangulated DISK plus unreferenced vertices (id 0 / a middle id / the last id): V - E + F = 1 + their number
        s = draw(disk_mesh())
        s = {"V": s["V"], "F": s["F"], "tags": list(s["tags"])}
        where = [[0], [len(s["V"])], [len(s["V"]) // 2], [0, len(s["V"])], [len(s["V"]) // 2, len(s["V"])]][(k // 72) % 5]
    else:
        s = draw(G.surfaces(max_faces=60, triangulated=True))
        where = [[], [], [], [len(s["V"])], [0]][(k // 72) % 5]
    if where:
        V, F = insert_isolated(s["V"], s["F"], where)
        s = {"V": V, "F": F, "tags": list(s["tags"]) + ["isolated-vertices=" + str(len(where))]}
    return {"V": s["V"], "F": [list(map(int, f)) for f in s["F"]], "tags": list(s["tags"]), "mode": ["square", "custom", "circle"][k % 3],
            "cotan": (k // 3) % 2 == 0, "corners": (k // 6) % 2 == 0, "bm_arg": ["circle", "square"][(k // 12) % 2],
            "spell": spelling(k // 360)}


# ============================================================================================ helpers

def cot_weights(V, ref):
    """(cot a + cot b)/2 for every interior edge, from the coordinates; {key: w}; also the raw min/max angle is not needed."""
    A = np.asarray(V, dtype=float)
    half = {}
    for f in ref.F:
        for i in range(3):
            o, p, q = f[i], f[(i + 1) % 3], f[(i + 2) % 3]      # corner at o is opposite to edge (p, q)
            u, w = A[p] - A[o], A[q] - A[o]
            cr = np.linalg.norm(np.cross(u, w))
            c = float(np.dot(u, w) / cr) if cr > 0 else float("inf")
            half.setdefault(key(p, q), []).append(c)
    return {e: 0.5 * sum(cs) for e, cs in half.items() if len(cs) == 2}


def tri_areas(P, F):
    P = np.asarray(P, dtype=float)
    Fa = np.asarray(F, dtype=int)
    a, b, c = P[Fa[:, 0]], P[Fa[:, 1]], P[Fa[:, 2]]
    return 0.5 * ((b[:, 0] - a[:, 0]) * (c[:, 1] - a[:, 1]) - (b[:, 1] - a[:, 1]) * (c[:, 0] - a[:, 0]))


def polygon_area(P):
    P = np.asarray(P, dtype=float)
    x, y = P[:, 0], P[:, 1]
    return 0.5 * float(np.sum(x * np.roll(y, -1) - np.roll(x, -1) * y))


def square_param(p, tol):
    """perimeter coordinate in [0,4) of a point on the boundary of [0,1]^2 (None if not on it) and the set of sides it lies on.
    sides: 0: v=0, 1: u=1, 2: v=1, 3: u=0"""
    u, v = float(p[0]), float(p[1])
    if not (-tol <= u <= 1 + tol and -tol <= v <= 1 + tol):
        return None, set()
    sides = set()
    if abs(v) <= tol: sides.add(0)
    if abs(u - 1) <= tol: sides.add(1)
    if abs(v - 1) <= tol: sides.add(2)
    if abs(u) <= tol: sides.add(3)
    if not sides:
        return None, sides
    if 0 in sides and 3 not in sides:
        t = u
    elif 0 in sides:
        t = 0.0
    elif 1 in sides:
        t = 1 + v
    elif 2 in sides:
        t = 2 + (1 - u)
    else:
        t = 3 + (1 - v)
    return min(max(t, 0.0), 4.0) % 4.0, sides


def monotone_once(ts, L, eps):
    """ts: perimeter coordinates (mod L) along the border loop. True iff they advance strictly in one direction and wind once."""
    n = len(ts)
    d = [(ts[(k + 1) % n] - ts[k]) % L for k in range(n)]
    if all(eps < x < L - eps for x in d):
        if abs(sum(d) - L) <= 1e-9 * L:
            return True
        if abs(sum(L - x for x in d) - L) <= 1e-9 * L:
            return True
    return False


def custom_array(case, loop, bnd):
    """N x 2 array in the order of mesh.boundary_vertices: poly[k] is the position of loop[(k + shift) % n]"""
    n = len(loop)
    poly = case["poly"]
    pos = {}
    for k in range(n):
        pos[loop[(k + case.get("shift", 0)) % n]] = poly[k % len(poly)]
    is_int = all(isinstance(x, int) for p in poly for x in p)
    return np.array([pos[v] for v in bnd], dtype=(np.int64 if is_int else float)).reshape(-1, 2), pos


def config(case, prefix=""):
    return {"mode": case[prefix + "mode"], "cotan": bool(case[prefix + "cotan"]), "bm_arg": case.get(prefix + "bm_arg", "circle"),
            "verbose": bool(case.get(prefix + "verbose", False)), "spell": case.get(prefix + "spell")}


def _flag(x, kind):
    return bool(x) if kind == "bool" else np.bool_(bool(x)) if kind == "numpy.bool_" else int(bool(x))


def spelled_call(mesh, bm, cotan, verbose, corners, custom, cb, sp):
    """(args, kwargs) of the constructor call for one spelling (documented order: mesh, boundary_mode, use_cotan, verbose; keyword
    arguments save_on_corners (default True) and custom_boundary (default None))"""
    kind = sp.get("flag", "bool")
    cotan, verbose, corners = _flag(cotan, kind), _flag(verbose, kind), _flag(corners, kind)
    form = sp.get("form", "kw")
    extra = {"save_on_corners": corners}
    if custom:
        extra["custom_boundary"] = cb
    elif sp.get("none_cb") and form != "minimal":
        extra["custom_boundary"] = None           # the documented default, handed over explicitly (pass-through wrappers)
    if form == "pos-mode":
        return (mesh, bm), dict(use_cotan=cotan, verbose=verbose, **extra)
    if form == "pos-cotan":
        return (mesh, bm, cotan), dict(verbose=verbose, **extra)
    if form == "pos-all":
        return (mesh, bm, cotan, verbose), extra
    if form == "mesh-kw":
        return (), dict(save_on_corners=corners, verbose=verbose, use_cotan=cotan, boundary_mode=bm, mesh=mesh,
                        **{k: v for k, v in extra.items() if k != "save_on_corners"})
    if form == "minimal":
        kw = {}
        if bm != "circle": kw["boundary_mode"] = bm
        if cotan: kw["use_cotan"] = cotan
        if verbose: kw["verbose"] = verbose
        if not corners: kw["save_on_corners"] = corners
        if custom: kw["custom_boundary"] = cb
        return (mesh,), kw
    return (mesh,), dict(boundary_mode=bm, use_cotan=cotan, verbose=verbose, **extra)


def make(case, cfg, m, corners, loop, ctx, reuse_cb=None):
    """construct the worker (not run). returns (worker, expected custom positions or None, custom array or None)"""
    from mouette.processing.parametrization import TutteEmbedding
    pos = cb = None
    custom = cfg["mode"] == "custom"
    if custom:
        bnd = ints(m.boundary_vertices)
        if loop is None:
            # rejection cases: any N x 2 array of the right length
            cb = np.array([[math.cos(0.7 * k), math.sin(0.7 * k)] for k in range(len(bnd))], dtype=float).reshape(-1, 2)
        else:
            if not ctx.check(sorted(bnd) == sorted(loop), "boundary_vertices",
                             f"mesh.boundary_vertices = {bnd} is not the set of border vertices {sorted(loop)}"):
                return None, None, None
            cb, pos = custom_array(case, loop, bnd)
            if reuse_cb is not None and reuse_cb.shape == cb.shape and reuse_cb.dtype == cb.dtype:
                reuse_cb[:] = cb                 # the SAME argument object as in an earlier call, new content
                cb = reuse_cb
    bm = cfg.get("bm_arg", "circle") if custom else cfg["mode"]
    sp = cfg.get("spell") or {}
    args, kw = spelled_call(m, bm, cfg["cotan"], cfg.get("verbose", False), corners, custom, cb, sp)
    ctx.label("spell:form=" + sp.get("form", "kw"), "spell:flags=" + sp.get("flag", "bool"), "spell:invoke=" + sp.get("invoke", "run"))
    if "custom_boundary" in kw and kw["custom_boundary"] is None:
        ctx.label("spell:custom_boundary=None")
    if len(args) >= 3:
        ctx.label("spell:positional-use_cotan=" + str(bool(cfg["cotan"])))
    # every spelling is a valid call of the documented signature: the constructor must accept it
    ok, t = ctx.call("construct[" + sp.get("form", "kw") + "]", TutteEmbedding, *args, **kw)
    return (t if ok else None), pos, cb


def run_quiet(ctx, t, verbose, invoke="run"):
    """t.run(), or t() - Worker.__call__ runs the worker and hands it back (examples/parametrization/cotan_embedding.py relies on it)"""
    def go():
        if invoke != "call":
            return t.run()
        r = t()
        ctx.check(r is t, "call:returns-worker", f"TutteEmbedding(...)() returned {type(r).__name__} instead of the worker itself")
        return r
    if not verbose:
        return ctx.call("run", go)
    import io, contextlib
    with contextlib.redirect_stdout(io.StringIO()), contextlib.redirect_stderr(io.StringIO()):
        return ctx.call("run", go)


def apply_pre(pre, m, ctx):
    """evaluates other library functionality on the mesh first; it leaves persistent attributes ('angles', 'cotan', 'area', 'normals',
    'cotan_weight', 'angleDefect' ...) on the mesh object. The geometry is not changed afterwards, so every cached value is up to date.
    True: go on; False: a failure was reported; None: the pre-step itself could not be evaluated on this mesh (case discarded)."""
    import mouette as M
    if pre == "none":
        return True
    simple = {"angles": [M.attributes.corner_angles], "cotangent": [M.attributes.cotangent],
              "angles+cotangent": [M.attributes.corner_angles, M.attributes.cotangent], "face_area": [M.attributes.face_area],
              "angle_defects": [M.attributes.angle_defects], "cotan_weights": [M.attributes.cotan_weights],
              "vertex_normals": [M.attributes.vertex_normals], "cotan_laplacian": [lambda mm: M.operators.laplacian(mm, cotan=True)]}
    if pre in simple:
        for f in simple[pre]:
            ok, _ = ctx.call("pre:" + pre, f, m)
            if not ok:
                return False
        return True
    # a connection / a frame field: their own success on every disk is not part of this property
    import io, contextlib
    try:
        with contextlib.redirect_stdout(io.StringIO()), contextlib.redirect_stderr(io.StringIO()):
            if pre == "connection":
                M.processing.SurfaceConnectionVertices(m)
            elif pre == "framefield":
                M.framefield.SurfaceFrameField(m, "vertices", verbose=False).run()
            else:
                raise AssertionError("unknown pre-step " + pre)
    except (Violation, Inconclusive, HarnessError, AssertionError):
        raise
    except Exception:
        ctx.label("pre-step-raised:" + pre)
        ctx.discard("pre-step-raised:" + pre)
        return None
    return True


def read_uvs(t, m, ref, corners, ctx, tag, other_had=False):
    """per-vertex N x 2 array read from the documented attribute; None after a reported failure"""
    nV = ref.nV
    cont = m.face_corners if corners else m.vertices
    other = m.vertices if corners else m.face_corners
    if not ctx.check(t.uvs is not None and cont.has_attribute("uv_coords"), "attribute",
                     f"{tag}: after run(), uvs is {type(t.uvs).__name__} and has_attribute('uv_coords') on the "
                     f"{'face_corners' if corners else 'vertices'} container = {cont.has_attribute('uv_coords')}"):
        return None
    ctx.check(other_had or not other.has_attribute("uv_coords"), "attribute",
              f"{tag}: an attribute 'uv_coords' was also created on the other container")
    ctx.check(bool(t.save_on_corners) == bool(corners), "attribute", f"{tag}: save_on_corners = {t.save_on_corners!r}")
    n = ref.nC if corners else nV
    rows = []
    for i in range(n):
        x = np.asarray(t.uvs[i], dtype=float)
        if x.shape != (2,) or not np.all(np.isfinite(x)):
            ctx.check(False, "uv:finite", f"{tag}: uv entry {i} = {x!r} is not a finite 2-vector")
            return None
        rows.append(x)
    ctx.check(True, "uv:finite")
    A = np.array(rows).reshape(-1, 2)
    if not corners:
        return A
    UV = np.full((nV, 2), np.nan)
    for c in range(ref.nC):
        v = ref.corner_vertex[c]
        if np.isnan(UV[v, 0]):
            UV[v] = A[c]
        elif not ctx.check(bool(np.all(UV[v] == A[c])), "corner:consistent",
                           f"{tag}: corners of vertex {v} carry different coordinates {UV[v].tolist()} / {A[c].tolist()} (corner {c})"):
            return None
    return UV


def check_flat(t, m, ref, UV, V0, ctx, tag):
    ok, fm = ctx.call("flat_mesh", lambda: t.flat_mesh)
    if not ok:
        return
    if not ctx.check(fm is not None and len(fm.vertices) == ref.nV and len(fm.faces) == len(ref.F), "flat_mesh",
                     f"{tag}: flat_mesh is {type(fm).__name__} with {len(fm.vertices) if fm is not None else '-'} vertices"):
        return
    P = np.array([[float(x) for x in fm.vertices[v]] for v in range(ref.nV)]).reshape(-1, 3)
    exp = np.concatenate([UV, np.zeros((ref.nV, 1))], axis=1)
    bad = np.nonzero(np.any(P != exp, axis=1))[0]
    ctx.check(len(bad) == 0, "flat_mesh",
              f"{tag}: flat_mesh vertex {bad[0] if len(bad) else ''} = {P[bad[0]].tolist() if len(bad) else ''}, uv says "
              f"{exp[bad[0]].tolist() if len(bad) else ''} ({len(bad)} vertices differ)")
    ctx.check([tuple(ints(f)) for f in fm.faces] == [tuple(ints(f)) for f in m.faces], "flat_mesh", f"{tag}: flat_mesh faces differ from the mesh faces")
    ctx.check(t.flat_mesh is fm, "flat_mesh", f"{tag}: a second read of flat_mesh returned another object")
    Vin = np.array([[float(x) for x in m.vertices[v]] for v in range(ref.nV)]).reshape(-1, 3)
    ctx.check(fm is not m and bool(np.all(Vin == np.asarray(V0, dtype=float))), "flat_mesh:input-moved",
              f"{tag}: building flat_mesh changed the coordinates of the input mesh")


# ============================================================================================ rejection oracle

def total_euler(ref):
    """V - E + F over ALL vertices of the mesh (the library's documented definition), unreferenced ones included"""
    used = set(v for f in ref.F for v in f)
    return ref.euler() + (ref.nV - len(used))


def expect_rejected(case, ref, corners, ctx, tag):
    m = surface_from(case["V"], case["F"])
    t, _, _ = make(case, config(case), m, corners, None, ctx)
    if t is None:
        return
    try:
        if (config(case).get("spell") or {}).get("invoke") == "call":
            t()
        else:
            t.run()
    except (Violation, Inconclusive, HarnessError):
        raise
    except Exception as e:
        where = innermost_mouette_frame(e.__traceback__)
        ctx.check(where is not None and where.endswith("tutte.py:run"), "reject:accidental",
                  f"{tag}: chi = {total_euler(ref)} surface was not rejected by the documented test but failed with "
                  f"{type(e).__name__}: {e} at {where}")
        ctx.check(not m.vertices.has_attribute("uv_coords") and not m.face_corners.has_attribute("uv_coords"), "reject:half-written",
                  f"{tag}: rejected run left an attribute 'uv_coords' on the mesh")
        return
    ctx.fail("reject:accepted", f"{tag}: run() returned normally on a surface with Euler characteristic V-E+F = {total_euler(ref)} "
                                f"({len(ref.border_loops() or [])} border loops, {ref.n_face_components()} components, "
                                f"{ref.nV - len(set(v for f in ref.F for v in f))} unreferenced vertices)")


def fn_reject(case, ctx):
    V, F = case["V"], case["F"]
    ref = SurfRef(len(V), F)
    if ref.validate() is not None or any(len(f) != 3 for f in F):
        raise AssertionError("invalid generated case")
    for tg in case["tags"]:
        if not tg.startswith("op="):
            ctx.label(tg)
    ctx.label("mode=" + case["mode"], "corners=" + str(case["corners"]))
    chi = total_euler(ref)
    if chi == 1:
        ctx.discard("reject:chi=1")
        ctx.label("discarded:chi=1")
        return
    ctx.label("chi=" + str(max(min(chi, 3), -3)))
    if chi != ref.euler():
        ctx.label("chi!=1-only-through-unreferenced-vertices" if ref.euler() == 1 else "unreferenced-vertices")
    ctx.nontrivial()
    expect_rejected(case, ref, case["corners"], ctx, "non-disk")


# ============================================================================================ embedding oracle

def fn_embed(case, ctx):
    V, F = case["V"], case["F"]
    nV = len(V)
    ref = SurfRef(nV, F)
    if ref.validate() is not None or any(len(f) != 3 for f in F):
        raise AssertionError("invalid generated case")
    for tg in case["tags"]:
        if tg.startswith(("src=", "base=")) or tg in ("ear-removed", "height", "relabelled", "forced-uniform"):
            ctx.label(tg)
    cfg = config(case)
    ctx.label("mode=" + cfg["mode"], "weights=" + ("cotan" if cfg["cotan"] else "uniform"), "in_scale=" + str(case.get("in_scale", 1.0)))
    if not _is_disk(ref):
        if ref.euler() != 1:
            ctx.label("not-a-disk:rejection-oracle")
            for corners in (False, True):
                expect_rejected(case, ref, corners, ctx, "generated non-disk")
        else:
            ctx.label("discarded:not-a-disk")
            ctx.discard("embed:not-a-disk(chi=1)")
        return
    if "custom" in (case["mode"], case["second_mode"]):
        ctx.label("custom-polygon=" + str(case.get("poly_kind", "?")))
    if not strictly_convex(case["poly"]):
        raise AssertionError("generated custom polygon is not strictly convex")

    loop = ref.border_loops()[0]
    n = len(loop)
    bset = set(loop)
    interior = [v for v in range(nV) if v not in bset]
    chords = [e for e in ref.uedges if e[0] in bset and e[1] in bset and not ref.edge_on_border(*e)]
    ctx.label("interior=" + ("0" if not interior else "1" if len(interior) == 1 else "2-9" if len(interior) < 10 else
                             "10+" if len(interior) <= 1000 else ">1000"),
              "chords=" + ("0" if not chords else "1+"), "n%4=" + str(n % 4),
              "faces=" + ("<=10" if len(F) <= 10 else "<=100" if len(F) <= 100 else ">100"),
              "border=" + ("3" if n == 3 else "4-7" if n < 8 else "8+"))
    if ctx.sub == "large_disks":
        ctx.nontrivial(len(interior) > 1000)
    else:
        ctx.nontrivial(len(interior) >= 1 and (len(chords) > 0 or n % 4 != 0))
    geo = {"V": V, "F": F, "ref": ref, "loop": loop, "interior": interior, "chords": chords,
           "W": cot_weights(V, ref) if (cfg["cotan"] or case["second_cotan"]) else None}

    # ------------------------------------------------------------------ first configuration: both storages on fresh meshes
    res = {}
    meshes = {}
    workers = {}
    lazy_first = False
    first_pre = case.get("first_pre", "none")
    amin, amax = corner_angle_range(V, F)
    thin = ("<=1e-5" if amin <= 1e-5 else "<=1e-4" if amin <= 1e-4 else "<=1e-3" if amin <= 1e-3 else "<5deg" if amin < math.radians(5) else ">=5deg")
    ctx.label("min-corner-angle:" + thin, "first:pre=" + first_pre)
    for tg in case["tags"]:
        if tg.startswith("thin-gap="):
            ctx.label(tg)
    if cfg["cotan"] or case["second_cotan"]:
        ctx.label("cotan-requested:min-corner-angle:" + thin)
    for corners in (False, True):
        tag = "per-corner" if corners else "per-vertex"
        m = surface_from(V, F)
        r = apply_pre(first_pre, m, ctx)
        if not r:
            return
        if cfg["cotan"] and not corners:
            ctx.label("first:cotan-with-cached:" + "+".join([a for a in ("angles", "cotan") if m.face_corners.has_attribute(a)] or ["nothing"])
                      + ":min-corner-angle:" + thin)
        lazy = bool(case.get("lazy_flat")) and corners == (case["second_on"] == "corner-mesh") and bool(case["second_corners"]) != corners
        UV = run_once(case, cfg, m, corners, geo, ctx, tag, other_had=False, flat_now=not lazy)
        if UV is None:
            return
        lazy_first = lazy_first or lazy
        res[corners] = UV
        meshes[corners] = m
        workers[corners] = cfg["_worker"]
    UV = res[False]
    scale = max(1e-300, float(np.max(np.abs(UV[loop]))))
    dmax = float(np.max(np.abs(res[False] - res[True])))
    ctx.check(dmax <= 1e-12 * scale, "storage:agree",
              f"per-vertex and per-corner runs differ by {dmax:.3e} (scale {scale:.3g}) on the same mesh and options")
    if not check_embedding(cfg, UV, geo, ctx, "first run"):
        return

    # ------------------------------------------------------------------ second configuration on an ALREADY USED mesh object
    cfg2 = config(case, "second_")
    on_corner_mesh = case["second_on"] == "corner-mesh"
    m = meshes[on_corner_mesh]
    pre = case["second_pre"]
    c2 = bool(case["second_corners"])
    ctx.label("second:pre=" + pre, f"second:{'cotan' if cfg['cotan'] else 'uniform'}->{'cotan' if cfg2['cotan'] else 'uniform'}",
              f"second:{cfg['mode']}->{cfg2['mode']}", "second:storage=" + ("same" if c2 == on_corner_mesh else "other"))
    r = apply_pre(pre, m, ctx)
    if not r:
        return
    # which cached corner attributes the cotangent weights of this run can come from
    if cfg2["cotan"]:
        ctx.label("second:cotan-with-cached:" + "+".join([a for a in ("angles", "cotan") if m.face_corners.has_attribute(a)] or ["nothing"])
                  + ":min-corner-angle:" + thin)
    other = m.vertices if c2 else m.face_corners
    tag = (f"second run ({cfg2['mode']}/{'cotan' if cfg2['cotan'] else 'uniform'}/{'corners' if c2 else 'vertices'}) on the mesh object "
           f"already embedded with {cfg['mode']}/{'cotan' if cfg['cotan'] else 'uniform'}/{'corners' if on_corner_mesh else 'vertices'}, pre-step {pre}")
    UV2 = run_once(case, cfg2, m, c2, geo, ctx, tag, other_had=other.has_attribute("uv_coords"))
    if UV2 is None:
        return
    if not check_embedding(cfg2, UV2, geo, ctx, tag):
        return
    # results of the earlier, independent workers are not disturbed by the later run (shared buffers / class-level state)
    for corners in (False, True):
        if corners == on_corner_mesh and c2 == corners:
            continue                      # same mesh, same container, same attribute name: legitimately overwritten
        again = read_uvs(workers[corners], meshes[corners], ref, corners, ctx, "re-read of the first result", other_had=True)
        if again is None:
            return
        ctx.check(bool(np.all(again == res[corners])), "history:first-result-changed",
                  f"the {'per-corner' if corners else 'per-vertex'} result of the first run changed after a later, independent run "
                  f"({tag}): max difference {float(np.max(np.abs(again - res[corners]))):.3e}")
    if lazy_first:
        # A.run(); B.run() into the other container; only now A.flat_mesh is read for the first time
        ctx.label("lazy-flat_mesh-after-second-run")
        check_flat(workers[on_corner_mesh], m, ref, res[on_corner_mesh], V, ctx, "flat_mesh of the first worker, first read after the second run")

    # ------------------------------------------------------------------ third stage: recycled addresses / same argument object with new content
    rounds = int(case.get("recycle", 0))
    ctx.label("recycle=" + str(rounds))
    if not rounds:
        return
    import gc
    from mouette.mesh.mesh import copy as mesh_copy
    cb_obj = cfg.get("_cb") if cfg.get("_cb") is not None else cfg2.get("_cb")
    for c in (cfg, cfg2):
        for kk in ("_worker", "_cb"):
            c.pop(kk, None)
    del m, meshes, workers, other
    global _FROZEN
    if not _FROZEN:
        # one-time: park everything allocated so far (Hypothesis, numpy, scipy, ...) in the permanent generation, so that the full
        # collections below only traverse the objects of the cases (90 ms -> ~1 ms each)
        gc.collect()
        gc.freeze()
        _FROZEN = True
    for r in range(rounds):
        gc.collect()
        rnd = np.random.RandomState(int(case.get("recycle_seed", 0)) + 17 * r)
        perm = rnd.permutation(nV)                      # perm[old] = new
        V2 = [None] * nV
        for o in range(nV):
            V2[int(perm[o])] = V[o]
        F2 = [[int(perm[v]) for v in f] for f in F]
        F2 = [f[k:] + f[:k] for f, k in zip(F2, rnd.randint(0, 3, len(F2)))]
        F2 = [F2[i] for i in rnd.permutation(len(F2))]
        ref2 = SurfRef(nV, F2)
        loop2 = ref2.border_loops()[0]
        b2 = set(loop2)
        cfgr = dict(cfg2 if r % 2 == 0 else cfg)
        geo2 = {"V": V2, "F": F2, "ref": ref2, "loop": loop2, "interior": [v for v in range(nV) if v not in b2],
                "chords": [e for e in ref2.uedges if e[0] in b2 and e[1] in b2 and not ref2.edge_on_border(*e)],
                "W": cot_weights(V2, ref2) if cfgr["cotan"] else None}
        mr = surface_from(V2, F2)
        if case.get("recycle_copy"):
            src_mesh = mr
            ok, mr = ctx.call("mesh.copy", mesh_copy, src_mesh)
            if not ok:
                return
            del src_mesh
        cr = bool(case["second_corners"]) if r % 2 == 0 else not bool(case["second_corners"])
        tagr = (f"stage 3 round {r}: fresh relabelled mesh with the same element counts ({'a mesh.copy, ' if case.get('recycle_copy') else ''}"
                f"{cfgr['mode']}/{'cotan' if cfgr['cotan'] else 'uniform'}/{'corners' if cr else 'vertices'}) built after the earlier meshes and "
                f"workers were deleted and garbage collected{', same custom_boundary array object refilled' if cb_obj is not None and cfgr['mode'] == 'custom' else ''}")
        UVr = run_once(case, cfgr, mr, cr, geo2, ctx, tagr, other_had=False, reuse_cb=cb_obj)
        if UVr is None:
            return
        if not check_embedding(cfgr, UVr, geo2, ctx, tagr):
            return
        cfgr.pop("_worker", None)
        del mr, UVr


def run_once(case, cfg, m, corners, geo, ctx, tag, other_had, reuse_cb=None, flat_now=True):
    """build a worker on mesh m, run it, read the coordinates back (per vertex), check flat_mesh and untouched arguments"""
    ref, loop, V = geo["ref"], geo["loop"], geo["V"]
    t, pos, cb = make(case, cfg, m, corners, loop, ctx, reuse_cb=reuse_cb)
    if t is None:
        return None
    snap = None if cb is None else cb.copy()
    ok, _ = run_quiet(ctx, t, cfg.get("verbose"), (cfg.get("spell") or {}).get("invoke", "run"))
    if not ok:
        return None
    if cb is not None:
        ctx.check(cb.dtype == snap.dtype and bool(np.all(cb == snap)), "argument:custom_boundary-mutated",
                  f"{tag}: run() changed the custom_boundary array passed by the caller")
    UV = read_uvs(t, m, ref, corners, ctx, tag, other_had=other_had)
    if UV is None:
        return None
    if flat_now:
        check_flat(t, m, ref, UV, V, ctx, tag)
    cfg["_pos"] = pos
    cfg["_worker"] = t
    cfg["_cb"] = cb
    return UV


def check_embedding(cfg, UV, geo, ctx, tag):
    """all statement oracles on one per-vertex coordinate array; False after a reported failure"""
    V, F, ref, loop, interior, chords = geo["V"], geo["F"], geo["ref"], geo["loop"], geo["interior"], geo["chords"]
    mode, cotan, pos = cfg["mode"], cfg["cotan"], cfg.get("_pos")
    n = len(loop)
    scale = max(1e-300, float(np.max(np.abs(UV[loop]))))
    # ------------------------------------------------------------------ border
    P = UV[loop]
    if mode == "custom":
        exp = np.array([pos[v] for v in loop], dtype=float)
        d = float(np.max(np.abs(P - exp)))
        k = int(np.argmax(np.max(np.abs(P - exp), axis=1)))
        if not ctx.check(d <= 1e-14 * scale, "border:custom",
                         f"{tag}: border vertex {loop[k]} is at {P[k].tolist()}, the custom boundary row for it is {exp[k].tolist()}"):
            return False
    elif mode == "circle":
        r = np.hypot(P[:, 0], P[:, 1])
        k = int(np.argmax(np.abs(r - 1)))
        if not ctx.check(abs(r[k] - 1) <= 1e-12, "border:on-target",
                         f"{tag}: border vertex {loop[k]} is at {P[k].tolist()}, radius {r[k]!r}: not on the unit circle"):
            return False
    else:
        params = [square_param(p, 1e-12) for p in P]
        bad = [k for k in range(n) if params[k][0] is None]
        if not ctx.check(not bad, "border:on-target",
                         f"{tag}: border vertex {loop[bad[0]] if bad else ''} is at {P[bad[0]].tolist() if bad else ''}: not on the boundary of the unit square"):
            return False
    # pairwise distinct positions
    D = np.sqrt(((P[:, None, :] - P[None, :, :]) ** 2).sum(axis=2)) + np.eye(n) * 1e300
    i, j = np.unravel_index(int(np.argmin(D)), D.shape)
    if not ctx.check(D[i, j] > 1e-9 * scale, "border:distinct",
                     f"{tag}: {mode}: border vertices {loop[i]} and {loop[j]} (positions {i} and {j} of the {n}-vertex border loop) are both placed at "
                     f"{P[i].tolist()} / {P[j].tolist()}"):
        return False
    # monotone, winding once
    if mode == "circle":
        ts = [math.atan2(p[1], p[0]) % (2 * math.pi) for p in P]
        mono = monotone_once(ts, 2 * math.pi, 1e-12)
    elif mode == "square":
        ts = [q[0] for q in params]
        mono = monotone_once(ts, 4.0, 1e-12)
    else:
        ts = None
        mono = True
    if not ctx.check(mono, "border:order",
                     f"{tag}: {mode}: positions of the border vertices, taken in border order {loop[:12]}..., are not monotone around the target: "
                     f"perimeter coordinates {[round(x, 4) for x in ts[:16]] if ts else ''}"):
        return False
    # the positions form a convex polygon traversed once (generic form, all targets)
    E = np.roll(P, -1, axis=0) - P
    turn = E[:, 0] * np.roll(E[:, 1], -1) - E[:, 1] * np.roll(E[:, 0], -1)
    parea = polygon_area(P)
    sgn = 1.0 if parea > 0 else -1.0
    strict_target = mode != "square"
    tmin = float(np.min(turn * sgn))
    if not ctx.check(abs(parea) > 1e-9 * scale ** 2 and (tmin > 0 if strict_target else tmin >= -1e-12),
                     "border:convex", f"{tag}: {mode}: border polygon in border order is not convex (area {parea:.3e}, min turn {tmin:.3e})"):
        return False

    # ------------------------------------------------------------------ interior vertices: weighted mean of the neighbours
    W = geo["W"] if cotan else None
    worst = (0.0, None)
    for v in interior:
        nb = sorted(ref.v2v[v])
        w = np.array([W[key(v, x)] if cotan else 1.0 for x in nb])
        r = (w[:, None] * (UV[nb] - UV[v])).sum(axis=0)
        rel = float(np.max(np.abs(r))) / (float(np.sum(np.abs(w))) * scale)
        if rel > worst[0]:
            worst = (rel, v)
    if not ctx.check(worst[0] <= TOL, "interior:mean",
                     f"{tag}: interior vertex {worst[1]} at {UV[worst[1]].tolist() if worst[1] is not None else ''} is not the "
                     f"{'cotangent' if cotan else 'uniform'}-weighted mean of its neighbours (relative residual {worst[0]:.3e})"):
        return False

    # ------------------------------------------------------------------ orientation
    level = "strict"
    if cotan:
        inner_w = [W[e] for e in W]
        wmin = min(inner_w) if inner_w else 1.0
        if wmin < -1e-9:
            ctx.label("orientation:skipped(negative-cotan)")
            ctx.discard("orientation:negative-cotan-weight")
            return True
        if wmin < 1e-9:
            level = "weak"
    if mode == "square":
        sides = [q[1] for q in params]
        at = {v: k for k, v in enumerate(loop)}
        same = [e for e in chords if sides[at[e[0]]] & sides[at[e[1]]]]
        if same:
            # a dividing edge lies in the boundary of the square: only the limit statement (nothing strictly flipped) is guaranteed
            ctx.label("square-dividing-edge")
            ctx.discard("orientation:strict-skipped(square-chord-on-one-side)")
            level = "weak"
    ctx.label("orientation:" + level, f"orientation:{level}:{'cotan' if cotan else 'uniform'}:{mode}")
    A = tri_areas(UV, F) * sgn
    k = int(np.argmin(A))
    if level == "strict" and mode == "square":
        # "whenever no triangle has all its vertices on one side of the square": a triangle whose three computed positions (interior
        # vertices included) lie within 1e-9 of one side line is outside the strict statement. Long strips wrapped around a side do this:
        # the interior vertices approach the side exponentially fast (1 - y < 1e-16 after ~20 steps), strictly inside only in exact arithmetic.
        Fa = np.asarray(F, dtype=int)
        T = UV[Fa]                                                # nF x 3 x 2
        flat = np.zeros(len(Fa), dtype=bool)
        for ax, val in ((1, 0.0), (0, 1.0), (1, 1.0), (0, 0.0)):
            flat |= np.all(np.abs(T[:, :, ax] - val) <= 1e-9, axis=1)
        if np.any(flat):
            ctx.label("square:triangles-numerically-on-one-side")
            Astrict = np.where(flat, np.inf, A)
            k = int(np.argmin(Astrict))
            ctx.check(bool(np.all(A[flat] >= -1e-9 * scale ** 2)), "orientation:weak",
                      f"{tag}: square: a triangle lying (within 1e-9) on one side of the square is flipped: min signed area {float(np.min(A[flat])):.3e}")
            if not np.isfinite(Astrict[k]):
                level = "none"
    if level == "strict":
        ctx.check(A[k] > AREA_TOL * scale ** 2, "orientation",
                  f"{tag}: {mode}/{'cotan' if cotan else 'uniform'}: triangle {k} {F[k]} has signed area {A[k] * sgn:.3e} in the embedding while the "
                  f"border polygon has area {parea:.3e} (flipped or degenerate); uv = {UV[F[k]].tolist()}")
    else:
        ctx.check(A[k] >= -1e-9 * scale ** 2, "orientation:weak",
                  f"{tag}: {mode}/{'cotan' if cotan else 'uniform'} (weak form: zero weights or dividing edge on a side of the square): triangle {k} {F[k]} is flipped: signed area {A[k] * sgn:.3e}, border polygon area {parea:.3e}")
    tot = float(np.sum(A))
    ctx.check(abs(tot - abs(parea)) <= 1e-9 * abs(parea), "orientation:total", f"triangle areas sum to {tot!r}, border polygon area {abs(parea)!r}")
    return True


def self_test():
    # square perimeter coordinate
    assert square_param([0, 0], 1e-12)[0] == 0.0 and square_param([0, 0], 1e-12)[1] == {0, 3}
    assert square_param([1, 0.25], 1e-12) == (1.25, {1}) and square_param([0.25, 1], 1e-12) == (2.75, {2})
    assert square_param([0, 0.25], 1e-12) == (3.75, {3}) and square_param([0.5, 0.5], 1e-12)[0] is None
    assert monotone_once([0, 1, 1.5, 3], 4.0, 1e-12) and monotone_once([3, 1.5, 1, 0], 4.0, 1e-12)
    assert not monotone_once([0, 1, 1, 3], 4.0, 1e-12) and not monotone_once([0, 2, 1, 3], 4.0, 1e-12)
    # cot weights of a unit square split along a diagonal: diagonal weight 0 (two right angles)
    ref = SurfRef(4, [[0, 1, 2], [0, 2, 3]])
    W = cot_weights([[0, 0, 0], [1, 0, 0], [1, 1, 0], [0, 1, 0]], ref)
    assert list(W) == [(0, 2)] and abs(W[(0, 2)]) < 1e-15
    # equilateral pair: weight cot(60) = 1/sqrt(3)
    h = math.sqrt(3) / 2
    W = cot_weights([[0, 0, 0], [1, 0, 0], [0.5, h, 0], [0.5, -h, 0]], SurfRef(4, [[0, 1, 2], [1, 0, 3]]))
    assert abs(W[(0, 1)] - 1 / math.sqrt(3)) < 1e-14
    assert abs(tri_areas([[0, 0], [1, 0], [0, 1]], [[0, 1, 2], [0, 2, 1]]) - np.array([0.5, -0.5])).max() == 0
    assert strictly_convex([[0, 0], [2, 0], [2, 2], [0, 2]]) and strictly_convex([[0, 0], [0, 2], [2, 2], [2, 0]])
    assert not strictly_convex([[0, 0], [1, 0], [2, 0], [2, 2], [0, 2]]) and not strictly_convex([[0, 0], [2, 0], [1, 1], [2, 2], [0, 2]])
    Vl, Fl = large_mesh("delaunay", 36, 5, True)
    rl = SurfRef(len(Vl), Fl)
    assert rl.validate() is None and _is_disk(rl) and len(Vl) - len(rl.border_loops()[0]) > 1000
    # needle generator: disk, thin corner of about the requested gap, no corner above 170 deg in the typical case
    Vt, Ft = thin_delaunay(25, 3, 1e-5, 1, False)
    rt = SurfRef(len(Vt), Ft)
    amin, amax = corner_angle_range(Vt, Ft)
    assert rt.validate() is None and _is_disk(rt) and len(Vt) == 26 and 1e-7 < amin < 1e-4 and amax < math.pi, (amin, amax)
    Wt = cot_weights(Vt, rt)
    assert min(Wt.values()) > -1e-9 and max(Wt.values()) > 1e3
    a0, a1 = corner_angle_range([[0, 0, 0], [1, 0, 0], [0, 1, 0]], [[0, 1, 2]])
    assert abs(a0 - math.pi / 4) < 1e-15 and abs(a1 - math.pi / 2) < 1e-15
    # spellings: every form carries the same options
    class _M: pass
    mm = _M()
    for form in FORMS:
        for kind in ("bool", "numpy.bool_", "int"):
            a, kw = spelled_call(mm, "square", True, False, False, False, None, {"form": form, "flag": kind, "none_cb": True})
            names = ["mesh", "boundary_mode", "use_cotan", "verbose"]
            got = dict(zip(names, a)); got.update(kw)
            assert got["mesh"] is mm and got["boundary_mode"] == "square" and got["use_cotan"] == 1 and not got.get("verbose", False)
            assert not got["save_on_corners"] and got.get("custom_boundary", None) is None
            assert type(got["use_cotan"]) is {"bool": bool, "numpy.bool_": np.bool_, "int": int}[kind]
    a, kw = spelled_call(mm, "circle", False, False, True, False, None, {"form": "minimal"})
    assert a == (mm,) and kw == {}
    P = convex_polygon(9, 3, 1.0, False, [0, 0])
    E = np.roll(np.array(P), -1, axis=0) - np.array(P)
    assert np.all(E[:, 0] * np.roll(E[:, 1], -1) - E[:, 1] * np.roll(E[:, 0], -1) > 0)


SUBCHECKS = [
    SubCheck("disk_embedding", embed_case(), fn_embed, quick=2000, thorough=6000),
    SubCheck("non_disk_rejected", reject_case(), fn_reject, quick=600, thorough=2000),
    SubCheck("large_disks", large_case(), fn_embed, quick=16, thorough=12, watchdog=(180, 600)),
]

MATCHERS = {}
