"""C02 - mesh construction normalises raw data, whatever its form."""
import os, random, tempfile, shutil
import numpy as np
from hypothesis import strategies as st
from vlib.runner import SubCheck
from vlib import gen_surface as G, gen_tets as GT
from vlib.topo import SurfRef, TetRef, key
from vlib.build import ints

PROPERTY = "C02"
RULE = ("Sub-check normalise - generated raw data: vertices (3-D, or 2-D through from_arrays), declared edges in either orientation incl. self-loops, "
        "negative and >=N indices, faces of arity 3-7 (manifold surfaces from the shared generator, arbitrary index tuples, or faces "
        "with a repeated consecutive vertex whose side is a self-loop), cell soups and mixed tet/hex cells, "
        "tetrahedral cells (conforming meshes) or hexahedral grid cells, optionally pre-declared cell faces; edge attributes "
        "(5 types, arity 1-3, sparse or dense) set before construction; index rows as list / tuple / numpy row of int64 .. uint8; "
        "completion switches and the duplicate-attribute switch on/off; corner records of the declared faces and of the cells optionally "
        "filled in by the producer of the raw data (as the importers do); "
        "route = class constructor, _instanciate_raw_mesh_data, from_arrays, or reconstruction from a built mesh "
        "once or twice. Sub-check file - the mesh is built from a FILE written by independent writers (vlib/ref_codecs + two small ones here): "
        "format obj / off / medit .mesh / geogram_ascii / tet / xyz; content = points, polyline, surface (arity 3-7 as far as the format can "
        "express it), arbitrary faces, declared edges next to faces, tetrahedra / hexahedra / both, and cells TOGETHER with declared faces "
        "(all, some, rotated / reversed faces of the cells, or a face of no cell); for .off and .obj the element records in a drawn order "
        "(faces first, cells first, interleaved; l records before / after / between f records); vertex records carrying more than three "
        "numbers where the format allows it (obj: x y z w, x y z r g b, on all or some lines; medit: non-zero reference column; xyz: "
        "normals); layout variations (blank lines, spacing, comments, float notation); completion switches on/off; via = load, "
        "load(raw=True) + class constructor, load + reconstruction from the built mesh. "
        "In both sub-checks the finished object is compared with a normal form computed from the raw data alone (for medit, whose blocks "
        "are unordered, declared faces / cells are compared kind by kind). non-trivial = an "
        "invalid declared edge carrying an attribute value, or cells sharing a face, or numpy rows, or a reconstruction step; for files: "
        "two or more element kinds in one file, extra vertex columns, non-zero medit refs, or a via other than plain load; "
        "distinct = distinct raw inputs x route.")
ASSUMPTIONS = ["faces have in-range vertices, pairwise distinct except in the degenerate-face class; declared edges are pairwise distinct as unordered pairs",
               "faces have at least three vertices (a two-vertex 'face' is no polygon: the OBJ description requires three references in an f record, "
               "the library documents nothing for it and answers face_to_faces = the face itself / raises in face normals)",
               "with complete_faces_from_cells off every face of every cell is declared (cell-face records cannot exist otherwise)",
               "files: indices name existing vertices, declared edges are valid and distinct; an .off file holds no 4-vertex face (the importer's "
               "documented dialect reads a 4-entry line as a tetrahedron, open finding F-C04-1) and plain 'x y z' vertex lines; stl and ply files are "
               "not generated here (C04 covers the codecs); .off files may hold '2 a b' lines (declared edges, the importer has a branch for them; finding F-C02-6, fixed)"]

PYTYPE = {"bool": bool, "int": int, "float": float, "complex": complex, "str": str}
TET_FACES = [(1, 3, 2), (0, 2, 3), (3, 1, 0), (0, 1, 2)]
HEX_FACES = [(0, 1, 2, 3), (4, 5, 6, 7), (0, 3, 7, 4), (0, 1, 5, 4), (1, 2, 6, 5), (2, 3, 7, 6)]


def hex_grid(a, b, c):
    idx = lambda i, j, k: (k * (b + 1) + j) * (a + 1) + i
    V = [[float(i), float(j), float(k)] for k in range(c + 1) for j in range(b + 1) for i in range(a + 1)]
    C = []
    for k in range(c):
        for j in range(b):
            for i in range(a):
                C.append([idx(i, j, k), idx(i + 1, j, k), idx(i + 1, j + 1, k), idx(i, j + 1, k),
                          idx(i, j, k + 1), idx(i + 1, j, k + 1), idx(i + 1, j + 1, k + 1), idx(i, j + 1, k + 1)])
    return V, C


def attr_value(typ):
    return {"bool": st.booleans(), "int": st.integers(-1000, 1000), "float": st.floats(-100, 100, allow_nan=False).map(lambda x: round(x, 3)),
            "complex": st.tuples(st.integers(-5, 5), st.integers(-5, 5)).map(lambda t: {"__complex__": [float(t[0]), float(t[1])]}),
            "str": st.sampled_from(["a", "bc", "", "xyz"])}[typ]


@st.composite
def raw_case(draw):
    kind = draw(st.sampled_from(["points", "polyline", "surface", "surface", "anyfaces", "tets", "tets", "hexes", "mixed_cells", "cell_soup",
                                 "degenerate_faces"]))
    V, F, C = [], [], []
    manifold = False
    if kind == "points":
        V = [[float(i), 0.5 * i, 1.0] for i in range(draw(st.integers(1, 6)))]
    elif kind == "polyline":
        V = [[float(i), float(i % 3), 0.0] for i in range(draw(st.integers(2, 8)))]
    elif kind == "surface":
        s = draw(G.surfaces(max_faces=30, max_ops=4))
        V, F, manifold = s["V"], s["F"], True
    elif kind == "anyfaces":
        n = draw(st.integers(3, 9))
        V = [[float(i), float(i * i % 4), float(i % 2)] for i in range(n)]
        F = draw(st.lists(st.lists(st.integers(0, n - 1), min_size=3, max_size=min(7, n), unique=True), min_size=1, max_size=5))
    elif kind == "degenerate_faces":
        # faces with a repeated consecutive vertex - a triangle stored in a quad row (a,b,c,c), a collapsed triangle (a,a,b) - next
        # to ordinary ones: such a side is a self-loop and is dropped like a declared self-loop
        n = draw(st.integers(3, 8))
        V = [[float(i), float(i * i % 4), float(i % 2)] for i in range(n)]
        F = draw(st.lists(st.lists(st.integers(0, n - 1), min_size=3, max_size=min(5, n), unique=True), min_size=1, max_size=4))
        out = []
        for f in F:
            how = draw(st.sampled_from(["pad-last", "pad-first", "double-inside", "collapse", "keep"]))
            if how == "pad-last": f = f + [f[-1]]
            elif how == "pad-first": f = [f[0]] + f
            elif how == "double-inside": f = f[:1] + [f[1], f[1]] + f[2:]
            elif how == "collapse": f = [f[0], f[0], f[1]]
            out.append(f)
        F = out
    elif kind == "tets":
        t = draw(GT.tets(max_cells=16))
        V, C, manifold = t["V"], t["C"], True
    elif kind == "cell_soup":
        # arbitrary tetrahedra over a few vertices: faces shared by three or more cells, the same cell listed several times
        n = draw(st.integers(4, 7))
        V = [[float(i), float(i * i % 3), float(i % 2) + 0.5 * i] for i in range(n)]
        C = draw(st.lists(st.lists(st.integers(0, n - 1), min_size=4, max_size=4, unique=True), min_size=1, max_size=6))
        if draw(st.booleans()):
            C = C + [list(C[0])] + [C[0][1:] + C[0][:1]]        # the same cell again, and once more with rotated vertices
    elif kind == "mixed_cells":
        # tetrahedra and hexahedra in one cell list (disjoint union, cells interleaved in a drawn order)
        Vh, Ch = hex_grid(draw(st.integers(1, 2)), 1, 1)
        t = draw(GT.tets(max_cells=5))
        off = len(Vh)
        V = Vh + [[x + 10.0 for x in v] for v in t["V"]]
        C = Ch + [[v + off for v in c] for c in t["C"]]
        random.Random(draw(st.integers(0, 999))).shuffle(C)
    else:
        V, C = hex_grid(draw(st.integers(1, 2)), draw(st.integers(1, 2)), draw(st.integers(1, 2)))
        if draw(st.booleans()):
            perm = list(range(len(V))); random.Random(draw(st.integers(0, 999))).shuffle(perm)
            V2 = [None] * len(V)
            for o, nw in enumerate(perm): V2[nw] = V[o]
            V, C = V2, [[perm[v] for v in c] for c in C]
    N = len(V)
    complete_edges = draw(st.sampled_from([True, True, True, False]))
    complete_faces = draw(st.sampled_from([True, True, True, False])) if C else True
    # pre-declared faces for volumes
    if C:
        allf = []
        seen = set()
        for c in C:
            tbl = TET_FACES if len(c) == 4 else HEX_FACES
            for t in tbl:
                f = [c[i] for i in t]
                if key(f) not in seen:
                    seen.add(key(f)); allf.append(f)
        if not complete_faces:
            F = allf
            if draw(st.booleans()):
                F = [f[1:] + f[:1] for f in F]
        elif draw(st.integers(0, 2)) == 0:
            sub = draw(st.lists(st.integers(0, len(allf) - 1), unique=True, max_size=4))
            F = [allf[i][::-1] if draw(st.booleans()) else allf[i] for i in sub]
    # declared edges
    sides = set()
    for f in F:
        for i in range(len(f)):
            sides.add(key(f[i], f[(i + 1) % len(f)]))
    cand = sorted(sides)
    E = []
    used = set()
    ne = draw(st.integers(0, 6)) if kind != "polyline" else draw(st.integers(1, 8))
    for _ in range(ne):
        m = draw(st.sampled_from(["side", "any", "any", "loop", "neg", "big"]))
        if m == "side" and cand:
            e = list(cand[draw(st.integers(0, len(cand) - 1))])
        elif m == "loop":
            v = draw(st.integers(0, N - 1)); e = [v, v]
        elif m == "neg":
            e = [draw(st.integers(0, N - 1)), -1 - draw(st.integers(0, 2))]
        elif m == "big":
            e = [draw(st.integers(0, N - 1)), N + draw(st.integers(0, 2))]
        else:
            e = [draw(st.integers(0, N - 1)), draw(st.integers(0, N - 1))]
        if draw(st.booleans()):
            e = e[::-1]
        if key(e) in used:
            continue
        used.add(key(e))
        E.append(e)
    attrs = []
    if E:
        for k in range(draw(st.integers(0, 2))):
            typ = draw(st.sampled_from(["bool", "int", "float", "complex", "str"]))
            ar = draw(st.integers(1, 3))
            vals = {}
            for i in draw(st.lists(st.integers(0, len(E) - 1), unique=True, max_size=len(E))):
                vals[str(i)] = draw(attr_value(typ)) if ar == 1 else [draw(attr_value(typ)) for _ in range(ar)]
            attrs.append({"name": f"at{k}", "type": typ, "arity": ar, "dense": draw(st.booleans()), "values": vals})
    form = draw(st.sampled_from(["list", "tuple", "numpy"]))
    routes = ["ctor", "instanciate", "rebuild1", "rebuild2"]
    regular = (not F or len(set(len(f) for f in F)) == 1) and (not C or len(set(len(c) for c in C)) == 1)
    if regular and not attrs and all(max(e) < N for e in E):   # (from_arrays takes no corner records; prefill is ignored there)
        routes += ["from_arrays", "from_arrays2d"]
    route = draw(st.sampled_from(routes))
    if route == "from_arrays2d":
        V = [[v[0], v[1], 0.0] for v in V]
    prefill = bool(F or C) and draw(st.integers(0, 3)) == 0   # (corner records of declared faces AND of the cells, as the importers fill them)
    int_vertices = draw(st.integers(0, 3)) == 0     # integral coordinates handed over as python ints / int64 rows
    dup_warn = draw(st.integers(0, 3)) == 0         # config.display_duplicate_attribute_warning (create_attribute then returns an existing attribute)
    row_dtype = draw(st.sampled_from(["int64", "int32", "int16", "uint16", "uint8", "uint8", "uint8"]))   # dtype of numpy index rows
    return {"kind": kind, "V": V, "E": E, "F": F, "C": C, "attrs": attrs, "form": form, "route": route, "prefill_corners": prefill, "int_vertices": int_vertices, "dup_warn": dup_warn, "row_dtype": row_dtype,
            "complete_edges": complete_edges, "complete_faces": complete_faces, "manifold": manifold}


# ------------------------------------------------------------------ normal form from raw data

def normal_form(case):
    V, E, F, C = case["V"], case["E"], [list(f) for f in case["F"]], case["C"]
    N = len(V)
    faces = [list(f) for f in F]
    if case["complete_faces"]:
        seen = set(key(f) for f in faces)
        for c in C:
            tbl = TET_FACES if len(c) == 4 else HEX_FACES
            for t in tbl:
                f = [c[i] for i in t]
                if key(f) not in seen:
                    seen.add(key(f)); faces.append(f)
    valid = [i for i, (a, b) in enumerate(E) if a != b and 0 <= a < N and 0 <= b < N]
    declared = [key(E[i]) for i in valid]
    extra = []
    if case["complete_edges"]:
        seen = set(declared)
        for f in faces:
            for i in range(len(f)):
                e = key(f[i], f[(i + 1) % len(f)])
                if e[0] == e[1]:
                    continue        # a repeated consecutive vertex: that side is a self-loop, dropped
                if e not in seen:
                    seen.add(e); extra.append(e)
    dim = 3 if C else 2 if faces else 1 if declared else 0   # class = highest-dimensional element present after normalisation
    return {"faces": faces, "declared": declared, "declared_src": valid, "extra": extra, "dim": dim}


def build_raw(case, form=None):
    import mouette as M
    from mouette.mesh.mesh_data import RawMeshData
    form = form or case["form"]
    dt = case.get("row_dtype", "int64")
    if form == "numpy":
        # a narrow dtype is only used when every index (invalid declared edges included) fits into it
        allidx = [x for rows in (case["E"], case["F"], case["C"]) for r in rows for x in r] + [len(case["V"])]
        info = np.iinfo(dt)
        if not all(info.min <= x <= info.max for x in allidx):
            dt = "int64"
    conv = {"list": list, "tuple": tuple, "numpy": lambda r: np.array(r, dtype=dt)}[form]
    raw = RawMeshData()
    integral = case.get("int_vertices") and all(float(x).is_integer() and abs(x) < 2 ** 31 for v in case["V"] for x in v)
    Vsrc = [[int(x) for x in v] for v in case["V"]] if integral else case["V"]
    if form == "numpy":
        raw.vertices += [np.array(v, dtype=(np.int64 if integral else float)) for v in Vsrc]
    elif form == "tuple":
        raw.vertices += [tuple(v) for v in Vsrc]
    else:
        raw.vertices += [list(v) for v in Vsrc]
    raw.edges += [conv(e) for e in case["E"]]
    raw.faces += [conv(f) for f in case["F"]]
    raw.cells += [conv(c) for c in case["C"]]
    if case.get("prefill_corners"):
        # what the file importers do: corner records for the declared faces are filled in by the producer of the raw data
        for iF, f in enumerate(case["F"]):
            raw.face_corners += [(int(v), iF) for v in f]
        for iC, c in enumerate(case["C"]):
            raw.cell_corners += [(int(v), iC) for v in c]
    for a in case["attrs"]:
        at = raw.edges.create_attribute(a["name"], PYTYPE[a["type"]], a["arity"], dense=a["dense"])
        for i, v in a["values"].items():
            at[int(i)] = v
    return raw


CLASSES = ["PointCloud", "PolyLine", "SurfaceMesh", "VolumeMesh"]


def construct(case, ctx, form=None):
    import mouette as M
    from mouette.mesh.mesh import _instanciate_raw_mesh_data, from_arrays
    from mouette.mesh.mesh_data import RawMeshData
    M.config.complete_edges_from_faces = bool(case["complete_edges"])
    M.config.complete_faces_from_cells = bool(case["complete_faces"])
    M.config.display_duplicate_attribute_warning = bool(case.get("dup_warn"))
    nf = normal_form(case)
    route = case["route"]
    if route in ("from_arrays", "from_arrays2d"):
        Va = np.array(case["V"], dtype=float)
        if route == "from_arrays2d":
            Va = Va[:, :2].copy()
        kw = {}
        if case["E"]: kw["E"] = np.array(case["E"])
        if case["F"]: kw["F"] = np.array(case["F"])
        if case["C"]: kw["C"] = np.array(case["C"])
        snap = {k: v.copy() for k, v in dict(kw, V=Va).items()}
        ok, m = ctx.call("construct:from_arrays", from_arrays, Va, **kw)
        for k, v in dict(kw, V=Va).items():
            ctx.check(v.shape == snap[k].shape and v.dtype == snap[k].dtype and np.array_equal(v, snap[k]), "construct:argument-changed",
                      f"from_arrays changed the array passed as {k}")
        return ok, m
    raw = build_raw(case, form)
    if route == "instanciate":
        return ctx.call("construct:instanciate", _instanciate_raw_mesh_data, raw)
    cls = getattr(M.mesh, CLASSES[nf["dim"]])
    ok, m = ctx.call("construct:ctor", cls, raw)
    if not ok:
        return ok, m
    if route in ("rebuild1", "rebuild2"):
        for _ in range(1 if route == "rebuild1" else 2):
            ok, m = ctx.call("construct:rebuild", lambda mm: cls(RawMeshData(mm)), m)
            if not ok:
                return ok, m
    return True, m


def attr_read(at, i):
    v = at[i]
    if isinstance(v, np.ndarray):
        return [x.item() if hasattr(x, "item") else x for x in v]
    return v.item() if hasattr(v, "item") else v


def _by_arity(rows):
    out = {}
    for r in rows:
        out.setdefault(len(r), []).append(list(r))
    return out


def check_normal_form(case, m, ctx, tag="", per_kind=False):
    """per_kind: the declared faces (cells) are compared kind by kind (triangles in their order, quads in their order, ...) instead
    of as one sequence - for a file format that stores each kind in a block of its own and fixes no order between the blocks"""
    nf = normal_form(case)
    V = case["V"]
    N = len(V)
    dim = nf["dim"]
    # class
    if case["route"] in ("instanciate", "from_arrays", "from_arrays2d", "file"):
        ctx.check(type(m).__name__ == CLASSES[dim], "class", f"{tag}built object is a {type(m).__name__}, content implies {CLASSES[dim]}")
    # vertices
    good = ctx.check(len(m.vertices) == N, "vertices", f"{tag}{len(m.vertices)} vertices, expected {N}")
    if good:
        for i in range(N):
            v = m.vertices[i]
            arr = np.asarray(v)
            if not ctx.check(arr.shape == (3,) and arr.dtype.kind in "fiu" and [float(x) for x in arr] == [float(x) for x in V[i]], "vertices",
                             f"{tag}vertex {i} = {v!r} (type {type(v).__name__}, dtype {arr.dtype}), expected 3-D float {V[i]}"):
                break
    if dim == 0:
        return
    # edges
    medges = [tuple(ints(e)) for e in m.edges]
    nd = len(nf["declared"])
    good = ctx.check(medges[:nd] == nf["declared"], "edges:declared",
                     f"{tag}first {nd} edges {medges[:nd]} are not the surviving declared edges in declared order, low index first {nf['declared']} (declared raw: {case['E']})")
    good = ctx.check(sorted(medges[nd:]) == sorted(nf["extra"]) and len(set(medges)) == len(medges), "edges:completed",
                     f"{tag}edges after the declared ones {sorted(medges[nd:])[:12]} are not every other face side exactly once {sorted(nf['extra'])[:12]}") and good
    # every stored edge is a (hashable) tuple, whatever the form of the declared rows: in-repo code uses them as dict / set keys
    bad = [repr(e) for e in m.edges if not isinstance(e, tuple)]
    ctx.check(not bad, "edges:type", f"{tag}edges are not all stored as tuples (low index first): {bad[:4]} (declared rows given as {case['form']})")
    if good:
        # attributes: total maps over the new index range
        for a in case["attrs"]:
            if not ctx.check(m.edges.has_attribute(a["name"]), "edges:attr-missing", f"{tag}edge attribute {a['name']} disappeared"):
                continue
            at = m.edges.get_attribute(a["name"])
            ctx.check(at.type.name.lower() == {"str": "string"}.get(a["type"], a["type"]) and at.elemsize == a["arity"], "edges:attr-type",
                      f"{tag}attribute {a['name']} came back as {at.type} x{at.elemsize}, was {a['type']} x{a['arity']}")
            dflt = PYTYPE[a["type"]]() if a["arity"] == 1 else [PYTYPE[a["type"]]()] * a["arity"]
            for new_i in range(len(medges)):
                if new_i < nd:
                    src = nf["declared_src"][new_i]
                    exp = a["values"].get(str(src), dflt)
                else:
                    exp = dflt
                ok, got = ctx.call("edges:attr-read", attr_read, at, new_i)
                if ok:
                    if not ctx.check(got == exp or (a["arity"] > 1 and list(got) == list(exp)), "edges:attr-value",
                                     f"{tag}attribute {a['name']} at new edge {new_i} {medges[new_i]} reads {got!r}, expected {exp!r} (declared edges {case['E']}, values {a['values']})"):
                        break
        # hard edges
        if m.edges.has_attribute("hard_edges"):
            he = m.edges.get_attribute("hard_edges")
            flags = [bool(he[i]) for i in range(len(medges))]
            exp = [i < nd for i in range(len(medges))]
            ctx.check(flags == exp, "edges:hard", f"{tag}hard_edges flags {flags} but only the first {nd} (declared) edges may be hard")
        elif dim >= 2 and case["complete_edges"] and nd > 0:
            ctx.check(False, "edges:hard", f"{tag}no hard_edges attribute although {nd} edges were declared")
    if dim == 1:
        return
    # faces
    mfaces = [list(ints(f)) for f in m.faces]
    nF0 = len(case["F"])
    same = (_by_arity(mfaces[:nF0]) == _by_arity(case["F"])) if per_kind else (mfaces[:nF0] == [list(f) for f in case["F"]])
    good = ctx.check(same, "faces:declared", f"{tag}declared faces changed: {mfaces[:nF0][:5]} vs {case['F'][:5]}")
    exp_faces = nf["faces"]
    good = ctx.check(len(mfaces) == len(exp_faces), "faces:completed", f"{tag}{len(mfaces)} faces, expected {len(exp_faces)} (declared {nF0} + completed from cells, shared faces once)") and good
    if good:
        # the statement fixes WHICH faces exist (every face of every cell, a shared face once, after the declared ones), not the order
        # in which the completed ones are numbered nor which of their rotations / orientations is stored
        got_keys = sorted(key(f) for f in mfaces[nF0:])
        exp_keys = sorted(key(g) for g in exp_faces[nF0:])
        if not ctx.check(got_keys == exp_keys and all(len(set(f)) == len(f) for f in mfaces[nF0:]), "faces:completed",
                         f"{tag}faces completed from the cells {mfaces[nF0:][:8]}.. are not every face of every cell exactly once "
                         f"(first differences: {sorted(set(got_keys) ^ set(exp_keys))[:4]}, {len(got_keys)} vs {len(exp_keys)})"):
            good = False
    # face corners
    if good:
        fc = m.face_corners
        exp_el = [v for f in mfaces for v in f]
        exp_adj = [i for i, f in enumerate(mfaces) for _ in f]
        ok = ctx.check(len(fc) == len(exp_el), "face_corners", f"{tag}{len(fc)} face corners, expected {len(exp_el)}")
        if ok:
            got_el = [int(fc.element(c)) for c in range(len(fc))]
            ok2, got_adj = ctx.call("face_corners:adj", lambda: [int(fc.adj(c)) for c in range(len(fc))])
            ctx.check(got_el == exp_el, "face_corners", f"{tag}face corner elements {got_el[:12]} expected {exp_el[:12]}")
            if ok2:
                ctx.check(got_adj == exp_adj, "face_corners", f"{tag}face corner owners {got_adj[:12]} expected {exp_adj[:12]}")
    if dim == 2:
        return
    # cells
    mcells = [list(ints(c)) for c in m.cells]
    same = (_by_arity(mcells) == _by_arity(case["C"])) if per_kind else (mcells == [list(c) for c in case["C"]])
    if not ctx.check(same, "cells", f"{tag}cells changed: {mcells[:4]} vs {case['C'][:4]}"):
        return
    cc = m.cell_corners
    exp_el = [v for c in mcells for v in c]
    exp_adj = [i for i, c in enumerate(mcells) for _ in c]
    if ctx.check(len(cc) == len(exp_el), "cell_corners", f"{tag}{len(cc)} cell corners, expected {len(exp_el)}"):
        ctx.check([int(cc.element(k)) for k in range(len(cc))] == exp_el, "cell_corners", f"{tag}cell corner elements wrong")
        ok2, got_adj = ctx.call("cell_corners:adj", lambda: [int(cc.adj(k)) for k in range(len(cc))])
        if ok2:
            ctx.check(got_adj == exp_adj, "cell_corners", f"{tag}cell corner owners {got_adj[:12]} expected {exp_adj[:12]}")
    if good:
        fid = {key(f): i for i, f in enumerate(mfaces)}
        cf = m.cell_faces
        exp_el, exp_adj = [], []
        for ic, c in enumerate(mcells):
            tbl = TET_FACES if len(c) == 4 else HEX_FACES
            for t in tbl:
                exp_el.append(fid.get(key(c[i] for i in t)))
                exp_adj.append(ic)
        if ctx.check(len(cf) == len(exp_el), "cell_faces", f"{tag}{len(cf)} cell-face records, expected {len(exp_el)}"):
            ctx.check([int(cf.element(k)) for k in range(len(cf))] == exp_el, "cell_faces",
                      f"{tag}cell-face elements {[int(cf.element(k)) for k in range(len(cf))][:8]} expected {exp_el[:8]} (i-th = face opposite i-th vertex)")
            ok2, got_adj = ctx.call("cell_faces:owner", lambda: [int(cf.adj(k)) for k in range(len(cf))])
            if ok2:
                ctx.check(got_adj == exp_adj, "cell_faces:owner", f"{tag}cell-face owners {got_adj[:8]} expected {exp_adj[:8]}")


class _Soft:
    """ctx stand-in for the battery: an exception is an answer like any other (it is compared between the two
    container forms), not a violation by itself - e.g. a declared edge that is a side of no cell makes edge queries of a
    volume mesh raise for every container form alike, which no statement forbids."""
    @staticmethod
    def call(sig, f, *a, **kw):
        try:
            return True, f(*a, **kw)
        except Exception as e:
            if type(e).__name__ in ("Violation", "HarnessError"):
                raise
            return False, None


def battery(case, m, ctx):
    """answers to later calls, as plain python values (compared between container forms)"""
    import mouette as M
    ctx = _Soft
    out = {}
    nf = normal_form(case)
    d = tempfile.mkdtemp(prefix="c02_")
    try:
        for ext in (["obj", "mesh"] if nf["dim"] >= 1 else ["xyz"]):
            p = os.path.join(d, "m." + ext)
            ok, _ = ctx.call("later:save-" + ext, M.mesh.save, m, p)
            if ok:
                out["file." + ext] = open(p).read()
    finally:
        shutil.rmtree(d, ignore_errors=True)
    if nf["dim"] >= 1:
        ok, r = ctx.call("later:edges-as-keys", lambda: sorted(set(m.edges)))
        out["edges.set"] = [tuple(ints(e)) for e in r] if ok else "raised"
        ok, r = ctx.call("later:edge-equality", lambda: [bool(m.edges[i] == tuple(ints(m.edges[i]))) for i in range(len(m.edges))])
        out["edges.eq"] = r if ok else "raised"
    if case["manifold"] and nf["dim"] == 2:
        C = m.connectivity
        for v in range(len(case["V"])):
            ok, r = ctx.call("later:v2f", C.vertex_to_faces, v); out[f"v2f{v}"] = ints(r) if ok and r is not None else None
        for f in range(len(m.faces)):
            ok, r = ctx.call("later:f2f", C.face_to_faces, f); out[f"f2f{f}"] = sorted(ints(r)) if ok else None
            ok, r = ctx.call("later:face_id", C.face_id, *m.faces[f]); out[f"fid{f}"] = r if ok else "raised"
        ok, r = ctx.call("later:boundary_edges", lambda: sorted(ints(m.boundary_edges))); out["be"] = r if ok else "raised"
    if case["manifold"] and nf["dim"] == 3 and all(len(c) == 4 for c in case["C"]) and case["complete_faces"] and case["complete_edges"]:
        C = m.connectivity
        for f in range(len(m.faces)):
            ok, r = ctx.call("later:face_to_cells", C.face_to_cells, f); out[f"f2c{f}"] = sorted(ints(r)) if ok else "raised"
        for c in range(len(m.cells)):
            ok, r = ctx.call("later:cell_to_face", C.cell_to_face, c); out[f"c2f{c}"] = list(r) if ok else "raised"
            ok, r = ctx.call("later:cell_to_cell", C.cell_to_cell, c); out[f"c2c{c}"] = sorted(ints(r)) if ok else "raised"
            for i in range(4):
                f = out.get(f"c2f{c}")
                if isinstance(f, list) and f[i] is not None:
                    ok, r = ctx.call("later:in_cell_face_index", C.in_cell_face_index, c, f[i]); out[f"icfi{c},{i}"] = r if ok else "raised"
        for e in range(len(m.edges)):
            ok, r = ctx.call("later:edge_to_cell", C.edge_to_cell, e); out[f"e2c{e}"] = sorted(ints(r)) if ok else "raised"
        ok, r = ctx.call("later:boundary_faces", lambda: sorted(ints(m.boundary_faces))); out["bf"] = r if ok else "raised"
    return out


def fn(case, ctx):
    nf = normal_form(case)
    ctx.label("kind=" + case["kind"], "form=" + case["form"], "route=" + case["route"],
              f"complete_edges={case['complete_edges']}", f"complete_faces={case['complete_faces']}")
    N = len(case["V"])
    invalid = [i for i, (a, b) in enumerate(case["E"]) if not (a != b and 0 <= a < N and 0 <= b < N)]
    inv_attr = any(str(i) in a["values"] for a in case["attrs"] for i in invalid)
    if invalid: ctx.label("invalid-edges")
    if case.get("prefill_corners"): ctx.label("prefilled-face-corners" + ("+cell-corners" if case["C"] else ""))
    if case.get("dup_warn"): ctx.label("config:duplicate-attribute-warning=on")
    if case["form"] == "numpy": ctx.label("row-dtype=" + case.get("row_dtype", "int64"))
    if case.get("int_vertices") and all(float(x).is_integer() for v in case["V"] for x in v): ctx.label("int-typed-vertices")
    if inv_attr: ctx.label("invalid-edge-with-attribute")
    shared = False
    if case["C"]:
        cnt = {}
        for c in case["C"]:
            for t in (TET_FACES if len(c) == 4 else HEX_FACES):
                k = key(c[i] for i in t); cnt[k] = cnt.get(k, 0) + 1
        shared = any(v > 1 for v in cnt.values())
        if shared: ctx.label("cells-share-face")
    ctx.nontrivial(inv_attr or shared or case["form"] == "numpy" or case["route"].startswith("rebuild"))

    ok, m = construct(case, ctx)
    if not ok or m is None:
        return
    check_normal_form(case, m, ctx)

    # the same caller-owned Python lists handed to two constructions (raw-container route): the caller's lists must not change,
    # and the second object must be normalised like the first
    if case["route"] in ("ctor", "instanciate") and case["form"] == "list" and not case["attrs"] and nf["dim"] >= 1:
        import mouette as M
        from mouette.mesh.mesh_data import RawMeshData
        from mouette.mesh.mesh import _instanciate_raw_mesh_data
        Vl = [list(v) for v in case["V"]]; El = [list(e) for e in case["E"]]; Fl = [list(f) for f in case["F"]]; Cl = [list(c) for c in case["C"]]
        snap = json_copy = lambda x: [list(r) for r in x]
        s0 = (snap(Vl), snap(El), snap(Fl), snap(Cl))
        for attempt in (1, 2):
            raw = RawMeshData()
            raw.vertices += Vl; raw.edges += El; raw.faces += Fl; raw.cells += Cl
            ok2, mm = ctx.call("construct:shared-lists", _instanciate_raw_mesh_data, raw)
            if not ok2:
                break
            ctx.check(len(Vl) == len(s0[0]) and El == s0[1] and Fl == s0[2] and Cl == s0[3], "construct:argument-changed",
                      f"construction #{attempt} changed the caller's lists: edges {len(El)} (was {len(s0[1])}), faces {len(Fl)} (was {len(s0[2])})")
            if attempt == 2:
                check_normal_form(case, mm, ctx, tag="[second construction from the same list objects] ")
        ctx.label("shared-lists-twice")

    # container forms: equal containers and equal later answers
    if case["route"] in ("ctor", "instanciate") and case["form"] != "list":
        ok2, m2 = construct(case, ctx, form="list")
        if ok2:
            b1 = battery(case, m, ctx)
            b2 = battery(case, m2, ctx)
            for k in b2:
                if not ctx.check(b1.get(k) == b2[k], "forms:later-behaviour",
                                 f"answer '{k}' differs between index rows given as {case['form']} ({str(b1.get(k))[:200]!r}) and as list ({str(b2[k])[:200]!r})"):
                    break


# ------------------------------------------------------------------ construction from a file

# An .off line "2 a b" (a two-vertex element = a declared edge, for which parse_off_data has a branch of its own) made load() raise
# on the pinned library (the two indices stayed strings: TypeError in RawMeshData._prepare_edges): finding F-C02-6, repaired in /repo.
# The class is generated when this is True.
OFF_EDGE_LINES = True     # finding F-C02-6, fixed in /repo (ab907f0)

FILE_KINDS = {
    "obj": ["surface", "anyfaces", "anyfaces", "edges+faces", "edges+faces", "polyline", "points"],
    "off": ["surface", "anyfaces", "tets", "tets+faces", "tets+faces", "tets+faces", "tets+faces", "points"],
    "mesh": ["surface", "anyfaces", "edges+faces", "polyline", "tets", "tets+faces", "tets+faces", "hexes", "hexes+faces", "mixed_cells", "points"],
    "geogram_ascii": ["surface", "anyfaces", "edges+faces", "polyline", "tets", "tets+faces", "tets+faces", "hexes", "hexes+faces", "mixed_cells", "points"],
    "tet": ["tets", "tets", "cell_soup"],
    "xyz": ["points"],
}
# face arities a format can express (.off: a 4-entry line is a tetrahedron in the importer's documented dialect; medit: triangles and quads)
FILE_ARITIES = {"obj": [3, 4, 5, 6, 7], "geogram_ascii": [3, 4, 5, 6, 7], "off": [3, 5, 6, 7], "mesh": [3, 4]}


def _fan(F, allowed):
    """faces whose arity the format cannot express are split into a fan of triangles"""
    out = []
    for f in F:
        if len(f) in allowed:
            out.append(list(f))
        else:
            out += [[f[0], f[k], f[k + 1]] for k in range(1, len(f) - 1)]
    return out


def _interleave(draw, counts):
    """a sequence of element records [kind, index] holding counts[kind] records of each kind: kind after kind (in a drawn order of
    the kinds) or shuffled; the records of one kind keep their relative order"""
    kinds = [k for k in counts if counts[k]]
    mode = draw(st.sampled_from(["blocks", "blocks", "shuffled"]))
    kinds = draw(st.permutations(kinds)) if kinds else []
    labels = [k for k in kinds for _ in range(counts[k])]
    if mode == "shuffled":
        random.Random(draw(st.integers(0, 999))).shuffle(labels)
    nxt = {k: 0 for k in counts}
    out = []
    for k in labels:
        out.append([k, nxt[k]]); nxt[k] += 1
    return out


@st.composite
def file_case(draw):
    fmt = draw(st.sampled_from(["obj", "obj", "off", "off", "mesh", "mesh", "geogram_ascii", "geogram_ascii", "tet", "xyz"]))
    kind = draw(st.sampled_from(FILE_KINDS[fmt]))
    ar = FILE_ARITIES.get(fmt, [])
    V, F, C = [], [], []
    if kind == "points":
        V = [[float(i), 0.5 * i, 1.0 - 0.25 * i] for i in range(draw(st.integers(1, 6)))]
    elif kind == "polyline":
        V = [[float(i), float(i % 3), 0.5 * (i % 2)] for i in range(draw(st.integers(2, 8)))]
    elif kind == "surface":
        s = draw(G.surfaces(max_faces=20, max_ops=3))
        V, F = s["V"], _fan(s["F"], ar)
    elif kind in ("anyfaces", "edges+faces"):
        n = draw(st.integers(3, 9))
        V = [[float(i), float(i * i % 4), float(i % 2)] for i in range(n)]
        sizes = [a for a in ar if a <= n]
        F = draw(st.lists(st.sampled_from(sizes).flatmap(lambda a: st.lists(st.integers(0, n - 1), min_size=a, max_size=a, unique=True)),
                          min_size=1, max_size=5))
    elif kind in ("tets", "tets+faces"):
        t = draw(GT.tets(max_cells=8))
        V, C = t["V"], t["C"]
    elif kind == "cell_soup":
        n = draw(st.integers(4, 7))
        V = [[float(i), float(i * i % 3), float(i % 2) + 0.5 * i] for i in range(n)]
        C = draw(st.lists(st.lists(st.integers(0, n - 1), min_size=4, max_size=4, unique=True), min_size=1, max_size=5))
    elif kind in ("hexes", "hexes+faces"):
        V, C = hex_grid(draw(st.integers(1, 2)), draw(st.integers(1, 2)), 1)
    else:   # mixed_cells
        Vh, Ch = hex_grid(draw(st.integers(1, 2)), 1, 1)
        t = draw(GT.tets(max_cells=4))
        V = Vh + [[x + 10.0 for x in v] for v in t["V"]]
        C = Ch + [[v + len(Vh) for v in c] for c in t["C"]]
        random.Random(draw(st.integers(0, 999))).shuffle(C)
    N = len(V)
    complete_edges = draw(st.sampled_from([True, True, True, False]))
    complete_faces = True
    if C and fmt != "tet":
        allf, seen = [], set()
        for c in C:
            for t in (TET_FACES if len(c) == 4 else HEX_FACES):
                f = [c[i] for i in t]
                if key(f) not in seen:
                    seen.add(key(f)); allf.append(f)
        declare = "none"
        if kind.endswith("+faces") or kind == "mixed_cells":
            declare = draw(st.sampled_from(["all", "all-off", "some", "some", "some+other"])) if kind.endswith("+faces") else draw(st.sampled_from(["none", "some", "all"]))
        if declare in ("all", "all-off"):
            F = [list(f) for f in allf]
            random.Random(draw(st.integers(0, 999))).shuffle(F)
            complete_faces = declare == "all"          # every face of every cell is declared: the completion may be switched off
        elif declare.startswith("some"):
            sub = draw(st.lists(st.integers(0, len(allf) - 1), unique=True, min_size=1, max_size=6))
            F = [list(allf[i]) for i in sub]
        F = [f[::-1] if draw(st.booleans()) else f[k:] + f[:k] for f in F for k in [draw(st.integers(0, 2))]]
        if declare == "some+other":
            # a face that belongs to no cell (a polygon the format can express) among the declared ones
            a = draw(st.sampled_from([x for x in ar if x <= N]))
            g = draw(st.lists(st.integers(0, N - 1), min_size=a, max_size=a, unique=True))
            if key(g) not in seen:
                F.insert(draw(st.integers(0, len(F))), g)
    # declared edges: valid and pairwise distinct (a file names existing vertices), either orientation
    E = []
    if fmt in ("obj", "mesh", "geogram_ascii") or (fmt == "off" and OFF_EDGE_LINES):
        sides = sorted(set(key(f[i], f[(i + 1) % len(f)]) for f in F for i in range(len(f))))
        ne = draw(st.integers(1, 8)) if kind in ("polyline", "edges+faces") else draw(st.integers(0, 3)) if kind != "points" else 0
        used = set()
        for _ in range(ne):
            if sides and draw(st.booleans()):
                e = list(sides[draw(st.integers(0, len(sides) - 1))])
            else:
                e = [draw(st.integers(0, N - 1)), draw(st.integers(0, N - 1))]
            if e[0] == e[1] or key(e) in used:
                continue
            used.add(key(e))
            E.append(e[::-1] if draw(st.booleans()) else e)
    # order of the element records in the file
    order = []
    if fmt == "off":
        order = _interleave(draw, {"f": len(F), "c": len(C), "e": len(E)})
    elif fmt == "obj":
        order = _interleave(draw, {"l": len(E), "f": len(F)})
    # what a vertex record carries after its three coordinates
    vextra, var = [], {"floats": draw(st.sampled_from(["repr", "repr", "17g", "17e"])), "seed": draw(st.integers(0, 11))}
    if fmt == "obj":
        how = draw(st.sampled_from(["none", "w", "rgb", "w-some", "rgb-some"]))
        for i in range(N):
            if how == "none" or (how.endswith("some") and (i + var["seed"]) % 3 == 0):
                vextra.append([])
            elif how.startswith("w"):
                vextra.append([1.0])
            else:
                vextra.append([((i * 37) % 11) / 10.0, ((i * 53 + 7) % 13) / 13.0, 1.0])
        var["comments"] = draw(st.booleans())
    elif fmt == "mesh":
        var.update(refs=draw(st.booleans()), blank=draw(st.booleans()), dim_two_lines=draw(st.booleans()), extra_blocks=draw(st.booleans()))
    elif fmt == "xyz":
        if draw(st.booleans()):
            vextra = [[float((i * 3) % 7 - 3), float((i * 5) % 11 - 5) / 4.0, 1.0 + i] for i in range(N)]
        var["blank"] = draw(st.booleans())
    elif fmt in ("off", "tet"):
        var.update(blank=draw(st.booleans()), spaces=draw(st.booleans()))
    elif fmt == "geogram_ascii":
        var["comments"] = draw(st.booleans())
    via = draw(st.sampled_from(["load", "load", "load_raw+ctor", "load+rebuild"]))
    return {"kind": kind, "fmt": fmt, "V": V, "E": E, "F": F, "C": C, "order": order, "vextra": vextra, "var": var, "route": "file", "via": via,
            "form": "file", "attrs": [], "complete_edges": complete_edges, "complete_faces": complete_faces, "manifold": False}


def file_text(case):
    """content of the file (written from the descriptions of the formats, by code that shares nothing with mouette/mesh/io)"""
    from vlib import ref_codecs as R
    fmt, V, E, F, C, var = case["fmt"], case["V"], case["E"], case["F"], case["C"], case["var"]
    num = lambda x: R.fmt_float(x, var.get("floats", "repr"))
    if fmt == "obj":
        out = ["# written by the reference writer\n"] if var.get("comments") else []
        for i, v in enumerate(V):
            out.append("v " + " ".join(num(c) for c in list(v) + list(case["vextra"][i])) + "\n")
        if var.get("comments"):
            out.append("# elements\no part\n")
        for k, i in case["order"]:
            if k == "l":
                out.append(f"l {E[i][0] + 1} {E[i][1] + 1}\n")
            else:
                out.append("f " + " ".join(str(v + 1) for v in F[i]) + "\n")
        return "".join(out)
    if fmt == "off":
        out = ["OFF\n", f"{len(V)} {len(case['order'])} 0\n"]
        k = 2
        for v in V:
            out.append(R._join([num(c) for c in v], var, k) + "\n" + R._blank(var, k)); k += 1
        for kd, i in case["order"]:
            row = {"f": F, "c": C, "e": E}[kd][i]
            out.append(R._join([str(len(row))] + [str(x) for x in row], var, k) + "\n" + R._blank(var, k)); k += 1
        return "".join(out)
    if fmt == "mesh":
        return R.write_medit(V, E, [f for f in F if len(f) == 3], [f for f in F if len(f) == 4],
                             [c for c in C if len(c) == 4], [c for c in C if len(c) == 8], var)
    if fmt == "geogram_ascii":
        return R.write_geogram(V, E, F, C, None, var)
    if fmt == "tet":
        return R.write_tet(V, C, var)
    if fmt == "xyz":
        return R.write_xyz(V, case["vextra"] or None, var)
    raise ValueError(fmt)


def fn_file(case, ctx):
    import mouette as M
    from mouette.mesh.mesh_data import RawMeshData
    fmt = case["fmt"]
    nf = normal_form(case)
    nk = sum(1 for k in ("E", "F", "C") if case[k])
    ctx.label("fmt=" + fmt, "kind=" + case["kind"], "via=" + case["via"],
              f"complete_edges={case['complete_edges']}", f"complete_faces={case['complete_faces']}")
    if case["F"] and case["C"]:
        ctx.label("faces-and-cells")
        if fmt == "off":
            kinds = [k for k, _ in case["order"] if k in "fc"]
            blocks = sum(1 for a, b in zip(kinds, kinds[1:]) if a != b)
            ctx.label("off-records=" + ("interleaved" if blocks > 1 else "faces-first" if kinds[0] == "f" else "cells-first"))
    if case["E"] and case["F"]:
        ctx.label("declared-edges-and-faces")
    extra = sorted(set(len(x) for x in case["vextra"]))
    if fmt in ("obj", "xyz") and extra != [] and extra != [0]:
        ctx.label(f"{fmt}-vertex-record-extra-columns={'/'.join(map(str, extra))}")
    if fmt == "mesh" and case["var"].get("refs"):
        ctx.label("medit-nonzero-refs")
    if fmt == "off" and any(k == "e" for k, _ in case["order"]):
        ctx.label("off-edge-lines")
    ctx.nontrivial(nk >= 2 or bool(extra and extra != [0]) or case["via"] != "load" or bool(case["var"].get("refs")))

    M.config.complete_edges_from_faces = bool(case["complete_edges"])
    M.config.complete_faces_from_cells = bool(case["complete_faces"])
    M.config.display_duplicate_attribute_warning = False
    cls = getattr(M.mesh, CLASSES[nf["dim"]])
    per_kind = fmt == "mesh"
    d = tempfile.mkdtemp(prefix="c02f_")
    try:
        path = os.path.join(d, "m." + fmt)
        with open(path, "w") as f:
            f.write(file_text(case))
        if case["via"] == "load_raw+ctor":
            ok, raw = ctx.call("file:load", M.mesh.load, path, raw=True)
            if not ok:
                return
            ok, m = ctx.call("file:ctor", cls, raw)
        else:
            ok, m = ctx.call("file:load", M.mesh.load, path)
        if not ok or m is None:
            return
        tag = f"[loaded from a .{fmt} file] "
        check_normal_form(case, m, ctx, tag=tag, per_kind=per_kind)
        if case["via"] == "load+rebuild":
            ok, m2 = ctx.call("construct:rebuild", lambda mm: cls(RawMeshData(mm)), m)
            if ok:
                check_normal_form(case, m2, ctx, tag=f"[loaded from a .{fmt} file, then built again from the built mesh] ", per_kind=per_kind)
    finally:
        shutil.rmtree(d, ignore_errors=True)


SUBCHECKS = [SubCheck("normalise", raw_case(), fn, quick=3600, thorough=5000),
             SubCheck("file", file_case(), fn_file, quick=700, thorough=1500)]
MATCHERS = {}
