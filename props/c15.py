"""C15 - border and feature extraction are exact."""
import math, random
import numpy as np
from hypothesis import strategies as st
from vlib.runner import SubCheck
from vlib import gen_surface as G
from vlib.topo import SurfRef, key
from vlib.build import surface_from, ints

PROPERTY = "C15"
RULE = ("(border) oriented manifold polygon surfaces: quad/tri/mixed grids and cylinders with up to 8 deleted faces (1-4+ border "
        "loops, several components, chords), gen_surface `surfaces` (all bases incl. closed ones, unions, sums) and Delaunay disks "
        "with removed ears (chords), relabelled / re-oriented; every border vertex is used as starting point, plus the default start, "
        "non-border starts, extract_border_cycle_all and extract_boundary_of_surface each on a fresh mesh; all answers compared with "
        "border loops derived from the face list alone; finally a generated sequence of 3-10 calls (extract_border_cycle with / "
        "without / with an invalid start, extract_border_cycle_all, extract_boundary_of_surface, is_vertex_on_border, an only_border "
        "feature detector) on ONE mesh object, every answer validated and mesh.boundary_vertices / boundary_edges / the containers "
        "compared with the face list after every call (returned lists / dicts are overwritten by the harness after validation, starts are "
        "also given as numpy ints, an unrelated second mesh is processed in between). Size regime (border_huge): strips, ladders with "
        "/ without chords, open fans, one polygon, thin annuli with border loops of 1e3 .. 6.6e4 vertices (most between 10050 and "
        "20500), three drawn starts + the same fresh-mesh calls + a short sequence; features_huge: roofs of 600-2000 cells. "
        "Every case also draws the library-wide switches display_duplicate_attribute_warning / export_edges_in_obj / "
        "complete_faces_from_cells / sort_neighborhoods (border walks are asserted with unsorted neighbourhoods too, see "
        "ASSUMPTIONS), the form of the faces (lists, tuples, numpy rows of int64 / int32 / int16 / uint8) and checks that no call "
        "changes a switch. Argument spelling (drawn per case, varied per call): extract_border_cycle(mesh, starting_point) with both "
        "arguments by position / starting_point by keyword / both by keyword, the start as int or numpy int64 / int32 / intp / uint32 / "
        "int16 / uint8 (narrow types when the id fits), the default start left out or given as None (by position / keyword), also for the "
        "start that must raise; extract_border_cycle_all / extract_boundary_of_surface with the mesh by position or as mesh=...; the "
        "only_border detector of the sequences built by keyword / with all five options by position / two by position / numpy scalars "
        "with corner_order by position, run(mesh=...) . non-trivial = >= 2 border loops (huge: a loop of > 1000 vertices). "
        "(features) meshes built so that the angle between adjacent face normals is prescribed: a seed (single triangle / regular "
        "n-gon pyramid with one prescribed angle on all its interior edges / 'roof' = extruded profile polyline of planar trapezoid "
        "panels, kept as quads or split, with prescribed ridge angles and deleted cells) + up to 20 triangles folded onto free border "
        "edges by a prescribed signed angle; angles drawn from bands at 1e-4..1e-1 degrees on either side of 36.87 (acos 0.8) and 60 "
        "degrees, just above 0, exactly 0, and uniformly from [0,175]; plus well-shaped generic triangulated surfaces (closed ones "
        "too) and surfaces of random polycubes (angles 0/90 degrees, angle sums up to 540 degrees, coordinates handed over as python "
        "ints, numpy int64 rows, floats or numpy float rows); random rigid motion / uniform scale 1e-6..1e6 / relabelling / orientation reversal; random subset of edges declared in the raw data "
        "(hard edges); detector options only_border x flag_corners x corner_order 1..8 x feature graph on/off, optional pre-computed "
        "'normals' attribute, verbose on/off, optional second run with other options on the same mesh, optional re-run of the SAME detector object, optional "
        "in-place move of the mesh vertices (anisotropic stretch) followed by a run of the same / a new detector, optional border "
        "extraction calls before and after the detector on the same mesh; sort_neighborhoods on/off and duplicate-attribute switch on/off; "
        "data 1e3 / 1e6 element sizes away from the origin (dot tolerance 1e-9 + 2e-15 x distance/edge length); option values as "
        "numpy scalars; corner_order also 7, 12, 16, 24, 61, 100; a detector call that raises (PolyLine) before the real run. "
        "Spelling of the detector's options (every detector of a case): the first 0..5 of the documented parameters (only_border, "
        "flag_corners, corner_order, compute_feature_graph, verbose) by position in the documented order (corner_order by position in "
        "about half of the cases), the others by keyword; flags as bool / numpy.bool_ / 0-1, corner_order as int / numpy int64 / int32 "
        "/ int16 / uint8; options equal to their documented default left out or not (down to FeatureEdgeDetector()); run / detect / "
        "__call__ with the mesh by position or as mesh=... . Besides the behaviour, the public option attributes of the new detector "
        "must equal what was handed over (ctor:options), and a detector built with flag_corners=False / compute_feature_graph=False "
        "reports corners None / feature_graph None / corner_point_cloud None. Expected edge set from own Newell normals. "
        "non-trivial = some interior edge has an angle within 1e-2 degree of 36.87 or 60 degrees. distinct = distinct realised cases.")
ASSUMPTIONS = [
    "input surfaces are oriented manifolds with a simple 1-skeleton (no bow-tie vertices), faces planar and non-degenerate "
    "(min angle >= 8 degrees in generated feature meshes)",
    "border oracles are asserted with config.sort_neighborhoods on AND off (with it off the pinned library's walk was wrong on about a "
    "quarter of the meshes: finding F-C15-3, fixed in /repo by 4276f12; C15_ASSERT_UNSORTED_BORDER=0 switches the off-case back to "
    "not-applied for bisecting). The feature detector is asserted with the switch off as well",
    "config.complete_edges_from_faces stays True (without it a surface built from faces has no edge set and no hard_edges flags)",
    "the library flags an interior edge iff dot(n1,n2) < 0.5 (strict, i.e. angle > 60 degrees; exactly 60 is NOT a feature) and a "
    "declared hard interior edge iff dot(n1,n2) < 0.8 (strict, angle > acos 0.8); edges whose own dot product lies within 1e-9 "
    "of 0.5 (resp. 0.8 when declared hard) are exempt on BOTH sides (either answer accepted)",
    "declared edges are pairwise distinct sides of faces; they occupy the first edge ids and carry hard_edges=True",
    "corner order = max(1, round(angle_sum * corner_order / 2pi)); vertices whose scaled angle sum is within 1e-6 of a half-integer "
    "are exempt; corners are only asserted at feature vertices (and default 0 elsewhere on a fresh mesh)",
    "the map returned by extract_boundary_of_surface is expected in the documented direction (polyline id -> surface id); the "
    "other oracles are evaluated through whichever direction is consistent so that the direction verdict is a separate signature",
    "no library call of this property may alter the mesh: vertices / faces / edges and mesh.boundary_vertices / boundary_edges are "
    "compared with the face list after the calls (attributes the detector documents - 'feature', 'corners', 'border' - are allowed)",
    "after vertices are moved in place a new run must reflect the new geometry, unless the caller himself stored a 'normals' "
    "attribute beforehand (pre_normals cases are not moved)",
    "vertex coordinates are copied unchanged into the boundary polyline / feature graph (tolerance 0: they are copies)",
    "documented parameters may be passed by position in the documented order or by their documented names (mesh, starting_point; "
    "only_border, flag_corners, corner_order, compute_feature_graph, verbose with defaults False, True, 4, True, True as the docstring "
    "of FeatureEdgeDetector.__init__ states); a flag may be any of bool / numpy.bool_ / 0-1 and an integer any of int / numpy "
    "integer - the answers must not depend on the spelling",
    "the options of a detector are readable as detector.only_border / flag_corners / corner_order / compute_feature_graph (in-repo "
    "callers convert corner orders to angles with feat.corner_order); with flag_corners=False detector.corners stays None, with "
    "compute_feature_graph=False detector.feature_graph is None (the property's own warning says so) and corner_point_cloud is None "
    "unless both options are on",
]

ACOS08 = math.degrees(math.acos(0.8))     # 36.8698976...
TOL_DOT = 1e-9

# The border walk of the pinned library was only right with config.sort_neighborhoods = True (finding F-C15-3, fixed in /repo by
# 4276f12). Border cases draw the switch and assert the same oracles with unsorted neighbourhoods.
UNSORTED_BORDER_ASSERTED = __import__("os").environ.get("C15_ASSERT_UNSORTED_BORDER", "1") == "1"     # default: asserted

# The unchanged detector treats every edge that has an ENTRY in the sparse 'hard_edges' attribute as hard, also when the value
# written there is False (finding reported with scratch/fixes/C15-4-hard-edge-flag-value.diff). Cases that write False flags are
# generated always; the flags are only written (and the oracle only told about them) when this is on, i.e. once the fix is in /repo.
HARD_FLAG_VALUES_ASSERTED = __import__("os").environ.get("C15_ASSERT_HARD_FLAG_VALUES", "0") == "1"

CFG_KEYS = ("sort_neighborhoods", "display_duplicate_attribute_warning", "export_edges_in_obj", "complete_faces_from_cells",
            "complete_edges_from_faces")


@st.composite
def config_draw(draw):
    """library-wide switches of mouette/config.py. complete_edges_from_faces stays on (without it a surface has no edge set at all)"""
    return {"sort_neighborhoods": draw(st.sampled_from([True, True, True, False])),
            "display_duplicate_attribute_warning": draw(st.booleans()),
            "export_edges_in_obj": draw(st.booleans()), "complete_faces_from_cells": draw(st.booleans())}


def apply_config(M, cfg, ctx, allow_unsorted):
    want = {"sort_neighborhoods": True, "display_duplicate_attribute_warning": False, "export_edges_in_obj": True,
            "complete_faces_from_cells": True, "complete_edges_from_faces": True}
    for k, v in (cfg or {}).items():
        want[k] = bool(v)
    if not allow_unsorted:
        want["sort_neighborhoods"] = True
    for k, v in want.items():
        setattr(M.config, k, v)
    ctx.label("cfg:sort=" + str(want["sort_neighborhoods"]), "cfg:dupwarn=" + str(want["display_duplicate_attribute_warning"]))
    return want


def check_config(M, want, ctx, when):
    got = {k: getattr(M.config, k) for k in want}
    ctx.check(got == want, "state:config", f"{when}: library-wide switches changed from {want} to {got}")


FFORMS = ["list", "list", "tuple", "np_int64", "np_int32", "np_int16", "np_uint8"]


def build_mesh(M, V, F, E=None, vform="float", fform="list"):
    """vertices as python floats / python ints / numpy int64, float64, float32 rows; faces and declared edges as lists, tuples or
    numpy rows of a (possibly narrow) integer dtype"""
    from mouette.mesh.mesh_data import RawMeshData
    raw = RawMeshData()
    if vform == "int":
        raw.vertices += [[int(x) for x in v] for v in V]
    elif vform == "npint":
        raw.vertices += [np.array(v, dtype=np.int64) for v in V]
    elif vform == "npfloat":
        raw.vertices += [np.array(v, dtype=float) for v in V]
    elif vform == "npfloat32":
        raw.vertices += [np.array(v, dtype=np.float32) for v in V]
    else:
        raw.vertices += [[float(x) for x in v] for v in V]
    if fform.startswith("np_"):
        dt = {"np_int64": np.int64, "np_int32": np.int32, "np_int16": np.int16, "np_uint8": np.uint8}[fform]
        if len(V) - 1 > np.iinfo(dt).max:     # the largest id must fit (256 vertices still fit uint8)
            dt = np.int32
        conv = lambda r: np.array(r, dtype=dt)
    elif fform == "tuple":
        conv = lambda r: tuple(int(x) for x in r)
    else:
        conv = lambda r: [int(x) for x in r]
    if E:
        raw.edges += [conv(e) if fform.startswith("np_") else tuple(int(x) for x in e) for e in E]
    raw.faces += [conv(f) for f in F]
    return M.mesh.SurfaceMesh(raw)


# ============================================================================================ how the caller spells the arguments

# FeatureEdgeDetector(only_border=False, flag_corners=True, corner_order=4, compute_feature_graph=True, verbose=True): the documented
# parameters in the documented order with the documented defaults (docstring of __init__)
OPT_NAMES = ("only_border", "flag_corners", "corner_order", "compute_feature_graph", "verbose")
OPT_DEFAULTS = (False, True, 4, True, True)
FLAG_SPELL = {"py": bool, "np": np.bool_, "int": int}
INT_SPELL = {"py": int, "np64": np.int64, "np32": np.int32, "np16": np.int16, "npu8": np.uint8, "npintp": np.intp, "npu32": np.uint32}
START_SPELL = ["py", "py", "np64", "np32", "npintp", "npu32", "np16", "npu8"]


def spell_int(form, x):
    """the integer x as a python int or a numpy integer of the named type (a narrow type only when x fits)"""
    t = INT_SPELL[form]
    if t is not int and not (np.iinfo(t).min <= x <= np.iinfo(t).max):
        t = np.int64
    return t(x)


@st.composite
def spell_draw(draw):
    """how the options of the detector are handed over: the first `npos` documented parameters by position (in the documented order), the
    others by keyword; flags as bool / numpy.bool_ / 0-1; corner_order as int / numpy integer; options equal to the documented
    default left out or not; the mesh of run / detect / __call__ by position or by keyword"""
    return {"npos": draw(st.sampled_from([0, 0, 1, 2, 3, 3, 3, 4, 5])), "flags": draw(st.sampled_from(["py", "py", "np", "int"])),
            "order": draw(st.sampled_from(["py", "py", "np64", "np32", "np16", "npu8"])), "omit": draw(st.sampled_from([False, False, True])),
            "meshkw": draw(st.sampled_from([False, False, True]))}


def detector_arguments(o):
    """(args, kwargs, labels) of the constructor call for the option dict o of a case"""
    sp = o.get("spell")
    if not sp:      # cases stored before the spelling dimension existed: everything by keyword
        sp = {"npos": 0, "flags": "np" if o.get("optform") == "np" else "py", "order": "np64" if o.get("optform") == "np" else "py", "omit": False}
    plain = [bool(o["only_border"]), bool(o["flag_corners"]), int(o["corner_order"]), bool(o["graph"]), bool(o.get("verbose", False))]
    fl = FLAG_SPELL[sp["flags"]]
    spelled = [fl(plain[0]), fl(plain[1]), spell_int(sp["order"], plain[2]), fl(plain[3]), fl(plain[4])]
    npos = max(0, min(5, int(sp["npos"])))
    args = spelled[:npos]
    kwargs = {OPT_NAMES[i]: spelled[i] for i in range(npos, 5)}
    omitted = 0
    if sp.get("omit"):
        for i in range(npos, 5):
            if plain[i] == OPT_DEFAULTS[i]:
                del kwargs[OPT_NAMES[i]]
                omitted += 1
        # trailing positional options that equal their default can be left out as well
        while args and plain[len(args) - 1] == OPT_DEFAULTS[len(args) - 1]:
            args.pop()
            omitted += 1
    labels = [f"spell:ctor:positional={len(args)}", "spell:ctor:flags=" + sp["flags"], "spell:ctor:order=" + sp["order"]]
    if len(args) >= 3:
        labels.append("spell:ctor:corner_order-by-position")
    if omitted:
        labels.append("spell:ctor:defaults-left-out" + (":all" if not args and not kwargs else ""))
    return args, kwargs, labels


def call_spelled(ctx, sig, f, names, values, nkw):
    """f(*values) with the last nkw arguments given by keyword (names = the documented parameter names)"""
    k = len(values) - max(0, min(nkw, len(values)))
    return ctx.call(sig, f, *values[:k], **{names[i]: values[i] for i in range(k, len(values))})


def cycle_spelled(ctx, P, m, s, form):
    """extract_border_cycle(mesh, starting_point) in one of the ways a caller may write it. form: integer drawn by the case; s None = the
    default start (left out, or None given explicitly as the documented default)"""
    nkw = form % 3                                     # 0: all by position, 1: starting_point by keyword, 2: both by keyword
    if s is None:
        if (form // 3) % 3 == 0:                       # left out
            ctx.label("spell:cycle:default-start-left-out" + (":mesh-by-keyword" if nkw == 2 else ""))
            return call_spelled(ctx, "cycle", P.extract_border_cycle, ("mesh",), [m], 1 if nkw == 2 else 0)
        ctx.label("spell:cycle:default-start-None" + ("" if nkw == 0 else ":by-keyword"))
        return call_spelled(ctx, "cycle", P.extract_border_cycle, ("mesh", "starting_point"), [m, None], nkw)
    sv = spell_int(START_SPELL[(form // 3) % len(START_SPELL)], int(s))
    ctx.label("spell:cycle:" + ("positional", "start-by-keyword", "mesh+start-by-keyword")[nkw], "spell:cycle:start=" + type(sv).__name__)
    return call_spelled(ctx, "cycle", P.extract_border_cycle, ("mesh", "starting_point"), [m, sv], nkw)


def mesh_spelled(ctx, sig, f, m, form, name):
    """f(mesh) by position or by keyword"""
    if form % 3 == 2:
        ctx.label(f"spell:{name}:mesh-by-keyword")
        return ctx.call(sig, f, mesh=m)
    return ctx.call(sig, f, m)


# ============================================================================================ border: generators

def _valid_bordered(V, F):
    r = SurfRef(len(V), F)
    return r.validate() is None and r.border_loops() is not None


@st.composite
def holey_grid(draw, big=False):
    wrap = draw(st.sampled_from([False, False, False, True]))
    hi = 12 if big else 6
    nu = draw(st.integers(3 if wrap else 2, hi)); nv = draw(st.integers(1 if wrap else 2, hi))
    V, F = G.grid(nu, nv, wrap_u=wrap)
    mode = draw(st.sampled_from(["quad", "tri", "tri", "mixed"]))
    rnd = random.Random(draw(st.integers(0, 10 ** 6)))
    if mode != "quad":
        F2 = []
        for f in F:
            if mode == "tri" or rnd.random() < 0.5:
                d = rnd.randrange(2)
                g = f[d:] + f[:d]
                F2 += [[g[0], g[1], g[2]], [g[0], g[2], g[3]]]
            else:
                F2.append(f)
        F = F2
    tags = ["base=holey_" + ("cyl" if wrap else "grid"), "cells=" + mode]
    for i in draw(st.lists(st.integers(0, 10 ** 4), max_size=20 if big else 8)):
        if len(F) <= 1:
            break
        k = i % len(F)
        F3 = F[:k] + F[k + 1:]
        if _valid_bordered(V, F3):
            F = F3
    return V, F, tags


SEQ_OPS = ["all", "all", "all", "boundary", "boundary", "cycle", "cycle", "cycle_default", "cycle_bad", "is_border", "detector", "other_mesh", "clone"]


@st.composite
def border_case(draw, big=False):
    max_faces = 200 if big else 60
    fam = draw(st.sampled_from(["holey", "holey", "holey", "surfaces", "surfaces", "delaunay"]))
    if fam == "holey":
        V, F, tags = draw(holey_grid(big))
        if draw(st.sampled_from([False, False, False, True])):
            V2, F2, t2 = draw(holey_grid(big))
            V, F = G.disjoint_union(V, F, V2, F2)
            tags.append("union")
        V, F = G.compact(V, F)
        V = G.jitter(V, draw(st.integers(0, 1000)), draw(st.sampled_from([0.0, 0.05])))
        if draw(st.booleans()):
            V, F, _ = G.relabel(V, F, draw(st.integers(0, 10000)), reverse=draw(st.booleans()))
            tags.append("relabelled")
        V = [[float(x) for x in v] for v in V]
        F = [list(map(int, f)) for f in F]
    elif fam == "surfaces":
        s = draw(G.surfaces(max_faces=max_faces, keep_isolated=draw(st.sampled_from([False] * 5 + [True]))))
        V, F, tags = s["V"], s["F"], [t for t in s["tags"] if t.startswith(("base=", "union", "sum"))]
    else:
        s = draw(G.delaunay_disks(max_pts=80 if big else 25, ear_removals=10 if big else 4))
        V, F, tags = s["V"], s["F"], ["base=delaunay"]
        if draw(st.booleans()):
            V, F, _ = G.relabel(V, F, draw(st.integers(0, 10000)), reverse=draw(st.booleans()))
            tags.append("relabelled")
    if not _valid_bordered(V, F):
        raise AssertionError("generator produced an invalid surface")
    ops = draw(st.lists(st.tuples(st.sampled_from(SEQ_OPS), st.integers(0, 10 ** 4)).map(list), min_size=3, max_size=10))
    return {"V": V, "F": F, "tags": tags, "s0": draw(st.integers(0, 10 ** 4)), "probe": draw(st.integers(0, 10 ** 4)), "ops": ops,
            "cfg": draw(config_draw()), "fform": draw(st.sampled_from(FFORMS)), "recycle": draw(st.sampled_from([0, 0, 0, 2, 3])),
            "spell": draw(st.integers(0, 10 ** 4))}


# around / above 2^10..2^16 and 10^3, 10^4; the two largest are rare (10-14 s per case)
HUGE_SIZES = [1030, 2100, 4200, 8300] + [10050, 10500, 12000, 16500] * 3 + [20500, 33000, 20500, 66000]


@st.composite
def border_huge_case(draw):
    """size regime: border loops with 10^3 .. 6.6*10^4 vertices (long strips, ladders with and without chords, an open fan around one
    vertex of huge degree, one big polygon, a thin annulus with two long loops)"""
    fam = draw(st.sampled_from(["strip", "ladder", "ladder_tri", "ladder2", "fan_open", "polygon", "annulus"]))
    n = draw(st.sampled_from(HUGE_SIZES))
    exact = draw(st.sampled_from(["no"] * 16 + ["p8"] * 5 + ["p16"]))
    if exact != "no":       # vertex / loop counts of exactly 2^8 - 1, 2^8, 2^8 + 1 (2^16 ...): a strip of n triangles has n + 2 vertices
        fam = "strip"
        n = (256 if exact == "p8" else 65536) - 2 + draw(st.sampled_from([-1, 0, 1]))
    if fam == "polygon":
        n = min(n, 12000)          # the reference ring computation is quadratic in the face size
    if fam == "strip":
        V, F = G.strip(n)
    elif fam in ("ladder", "ladder_tri"):
        V, F = G.grid(n // 2, 1)
        if fam == "ladder_tri":
            F = [t for k, f in enumerate(F) for t in (([f[0], f[1], f[2]], [f[0], f[2], f[3]]) if k % 3 else ([f[1], f[2], f[3]], [f[1], f[3], f[0]]))]
    elif fam == "ladder2":
        V, F = G.grid(n // 2, 2)
    elif fam == "fan_open":
        V, F = G.fan(n, False)
    elif fam == "polygon":
        V, F = G.single_polygon(n)
    else:
        V, F = G.grid(n, 1, wrap_u=True)
    tags = ["huge=" + fam] + (["exact-power-of-two:" + exact] if exact != "no" else [])
    if draw(st.booleans()):
        V, F, _ = G.relabel(V, F, draw(st.integers(0, 10000)), reverse=draw(st.booleans()))
        tags.append("relabelled")
    V = [[round(float(x), 6) for x in v] for v in V]
    F = [list(map(int, f)) for f in F]
    ops = draw(st.lists(st.tuples(st.sampled_from(["all", "boundary", "cycle", "cycle_default", "detector"]), st.integers(0, 10 ** 6)).map(list),
                        min_size=2, max_size=4))
    return {"V": V, "F": F, "tags": tags, "starts": [draw(st.integers(0, 10 ** 6)) for _ in range(3)], "ops": ops,
            "cfg": draw(config_draw()), "fform": draw(st.sampled_from(FFORMS)), "recycle": draw(st.sampled_from([0, 0, 0, 2, 3])),
            "spell": draw(st.integers(0, 10 ** 4))}


# ============================================================================================ border: oracle

class S:
    """lazy, abbreviated repr for messages (border loops may have tens of thousands of vertices)"""

    def __init__(self, x, n=40):
        self.x, self.n = x, n

    def __format__(self, spec):
        x = self.x
        try:
            if isinstance(x, (set, frozenset)):
                x = sorted(x)
            if isinstance(x, dict):
                if len(x) > self.n:
                    return repr(dict(list(x.items())[:self.n]))[:-1] + f", ... {len(x)} entries}}"
                return repr(x)
            if isinstance(x, (list, tuple)) and len(x) > self.n:
                return repr(list(x[:self.n]))[:-1] + f", ... {len(x)} items]"
        except Exception:
            pass
        r = repr(x)
        return r if len(r) < 4000 else r[:4000] + "..."


def _as_int_list(x):
    try:
        return [int(v) for v in x]
    except Exception:
        return None


def check_cycle(ctx, r, s, loops, loop_of, bedges, eid, what):
    """r = value returned by extract_border_cycle for start s (s None: default start)"""
    if not ctx.check(isinstance(r, (tuple, list)) and len(r) == 2, "cycle:shape", f"{what}: returned {S(r)}, expected (vertices, edges)"):
        return False
    vb, eb = _as_int_list(r[0]), _as_int_list(r[1])
    if not ctx.check(vb is not None and eb is not None and len(vb) > 0, "cycle:shape", f"{what}: returned {S(r)}"):
        return False
    if s is None:
        s = vb[0]
        if not ctx.check(s in loop_of, "cycle:start", f"{what}: default start {s} is not a border vertex"):
            return False
    if not ctx.check(vb[0] == s, "cycle:start", f"{what}: walk starts at {vb[0]}, asked for {s}"):
        return False
    loop = loops[loop_of[s]]
    if not ctx.check(len(vb) == len(set(vb)), "cycle:vertices", f"{what}: a vertex is visited twice: {S(vb)} (loop of {s}: {S(loop)})"):
        return False
    if not ctx.check(set(vb) == set(loop), "cycle:vertices",
                     f"{what}: visited {S(vb)}, the border loop through {s} is {S(loop)} (missing {S(set(loop) - set(vb))}, "
                     f"foreign {S(set(vb) - set(loop))})"):
        return False
    n = len(vb)
    pairs = [key(vb[i], vb[(i + 1) % n]) for i in range(n)]
    bad = [p for p in pairs if p not in bedges]
    if not ctx.check(not bad, "cycle:walk", f"{what}: consecutive vertices {S(bad)} of {S(vb)} are not joined by a border edge"):
        return False
    exp = [eid[p] for p in pairs]
    return ctx.check(eb == exp, "cycle:edges", f"{what}: edge list {S(eb)}, ids of consecutive pairs (incl. closing edge) {S(exp)}; vertices {S(vb)}")


class BorderRef:
    """everything the border oracles need, derived from the face list alone"""

    def __init__(self, V, F):
        self.V, self.F = V, F
        self.ref = SurfRef(len(V), F)
        if self.ref.validate() is not None:
            raise AssertionError("invalid generated case")
        self.loops = self.ref.border_loops()
        if self.loops is None:
            raise AssertionError("invalid generated case (bow-tie on border)")
        self.bedges = self.ref.border_edges()
        self.loop_of = {v: i for i, l in enumerate(self.loops) for v in l}
        self.bverts = sorted(self.loop_of)
        self.eid = None

    def normals_ok(self):
        """the library's face normal (first three vertices) is defined: needed before a detector may be run on the mesh"""
        A = np.array(self.V, dtype=float)
        for f in self.F:
            a, b, c = A[f[0]], A[f[1]], A[f[2]]
            if np.linalg.norm(np.cross(b - a, c - a)) < 1e-6 * np.linalg.norm(b - a) * np.linalg.norm(c - a) + 1e-300:
                return False
        return True


def check_all(ctx, r, B, what):
    loops, loop_of, bedges = B.loops, B.loop_of, B.bedges
    if not ctx.check(isinstance(r, list) and all(_as_int_list(c) is not None for c in r), "all:shape", f"{what}: returned {S(r)}"):
        return
    cyc = [_as_int_list(c) for c in r]
    good = True
    for c in cyc:
        if not ctx.check(len(c) > 0 and c[0] in loop_of, "all:cycle", f"{what}: cycle {S(c)} does not start on the border"):
            good = False
            continue
        n = len(c)
        loop = loops[loop_of[c[0]]]
        good &= bool(ctx.check(len(set(c)) == n and set(c) == set(loop), "all:cycle", f"{what}: cycle {S(c)} vs border loop {S(loop)}"))
        good &= bool(ctx.check(all(key(c[i], c[(i + 1) % n]) in bedges for i in range(n)) if n > 1 else False, "all:cycle",
                               f"{what}: cycle {S(c)} is not a closed walk along border edges"))
    if good:
        got = sorted(loop_of[c[0]] for c in cyc)
        ctx.check(len(cyc) == len(loops), "all:count", f"{what}: {len(cyc)} cycles returned, the surface has {len(loops)} border loops")
        ctx.check(got == list(range(len(loops))), "all:once", f"{what}: loops returned (by index, sorted): {S(got)}; expected each of {len(loops)} once")


def check_boundary(ctx, M, r, B, what):
    V, loop_of, bverts, bedges = B.V, B.loop_of, B.bverts, B.bedges
    if not ctx.check(isinstance(r, tuple) and len(r) == 2 and isinstance(r[0], M.mesh.PolyLine) and isinstance(r[1], dict), "boundary:shape",
                     f"{what}: returned {type(r).__name__} {S(r)}"[:300]):
        return
    bound, mp = r
    nb = len(bound.vertices)
    BV = [[float(x) for x in bound.vertices[i]] for i in range(nb)]
    bE = [tuple(ints(e)) for e in bound.edges]
    if not ctx.check(nb == len(bverts), "boundary:vertices", f"{what}: polyline has {nb} vertices, the surface {len(bverts)} border vertices"):
        return
    try:
        mp = {int(a): int(b) for a, b in mp.items()}
    except Exception:
        ctx.check(False, "boundary:map", f"{what}: map is not int->int: {S(mp)}"[:300])
        return
    if not ctx.check(len(mp) == nb, "boundary:map", f"{what}: map has {len(mp)} entries for {nb} polyline vertices"):
        return
    same = lambda p, q: all(float(a) == float(b) for a, b in zip(p, q))
    doc_dir = set(mp.keys()) == set(range(nb)) and set(mp.values()) <= set(bverts) and all(same(BV[k], V[v]) for k, v in mp.items())
    inv_dir = set(mp.values()) == set(range(nb)) and set(mp.keys()) <= set(bverts) and all(same(BV[k], V[v]) for v, k in mp.items())
    if not ctx.check(doc_dir or inv_dir, "boundary:map",
                     f"{what}: map {S(mp)} is in neither direction an index correspondence polyline vertex <-> surface border vertex with equal coordinates"):
        return
    b2m = dict(mp) if doc_dir else {k: v for v, k in mp.items()}
    ctx.check(len(set(b2m.values())) == nb and set(b2m.values()) == set(bverts), "boundary:map-injective",
              f"{what}: map is not a bijection onto the border vertices: {S(b2m)}")
    if ctx.check(all(len(e) == 2 and 0 <= e[0] < nb and 0 <= e[1] < nb for e in bE), "boundary:edges", f"{what}: polyline edges out of range: {S(bE)}"):
        mapped = [key(b2m[a], b2m[b]) for a, b in bE]
        ctx.check(len(mapped) == len(set(mapped)) and set(mapped) == bedges, "boundary:edges",
                  f"{what}: polyline edges mapped to the surface {S(sorted(mapped))} != border edges {S(bedges)} "
                  f"(missing {S(bedges - set(mapped))}, extra {S(set(mapped) - bedges)})")
    if bound.vertices.has_attribute("component") and bverts:
        comp = bound.vertices.get_attribute("component")
        try:
            keys = sorted(int(k) for k in comp) if hasattr(comp, "_data") and isinstance(comp._data, dict) else list(range(nb))
        except Exception:
            keys = None
        if ctx.check(keys is not None and all(0 <= k < nb for k in keys), "boundary:component-attr",
                     f"{what}: 'component' attribute of the polyline is written at indices {S(keys)} but the polyline has {nb} vertices"):
            vals = {k: int(comp[k]) for k in range(nb)}
            byloop = {}
            for k in range(nb):
                byloop.setdefault(loop_of[b2m[k]], set()).add(vals[k])
            ctx.check(all(len(s) == 1 for s in byloop.values()) and len(set(next(iter(s)) for s in byloop.values())) == len(byloop),
                      "boundary:component-attr", f"{what}: 'component' attribute is not constant per border loop / distinct across loops: {S(byloop)}")
    ctx.check(doc_dir, "boundary:map-direction",
              f"{what}: returned map {dict(list(mp.items())[:8])}... maps surface vertex ids to polyline ids; documented (and stated) is the map "
              f"from polyline vertex ids back to the surface")


def check_non_border_start(ctx, P, m, s, what, kw=False):
    try:
        r = P.extract_border_cycle(m, starting_point=s) if kw else P.extract_border_cycle(m, s)
        ctx.check(False, "cycle:non-border-start", f"{what}: extract_border_cycle(m,{s}) with {s} not on the border returned {S(r)} instead of raising")
    except Exception as e:
        if type(e).__name__ in ("Violation", "Inconclusive", "HarnessError"):
            raise
        # documented: "Raises: Exception: Fails if 'starting_point' not on the border" - any deliberate rejection qualifies (the bare
        # Exception of the pinned library, a ValueError, or any exception that names the border); an accidental StopIteration /
        # KeyError / IndexError out of the walk itself does not
        ctx.check(type(e) in (Exception, ValueError) or "border" in str(e).lower(), "cycle:non-border-start",
                  f"{what}: extract_border_cycle(m,{s}) raised {type(e).__name__}: {e}")


def scribble(r):
    """the caller owns what the functions return: overwrite the returned lists / dict in place (after they were validated); if one
    of them were the mesh's own cache, the state comparison after the call and the next calls would show it"""
    try:
        if isinstance(r, dict):
            r.clear()
        elif isinstance(r, list):
            for x in r:
                if isinstance(x, list):
                    x.clear()
            r.clear()
        elif isinstance(r, tuple):
            for x in r:
                if isinstance(x, list):
                    x.clear()
    except Exception:
        pass


def mesh_snapshot(m):
    return ([tuple(float(x) for x in p) for p in m.vertices], [tuple(ints(f)) for f in m.faces], [tuple(ints(e)) for e in m.edges])


def check_border_state(ctx, m, B, what):
    """the mesh's own border containers are what the face list says (no call may consume / alter them)"""
    bv, be = ints(m.boundary_vertices), ints(m.boundary_edges)
    expe = sorted(B.eid[e] for e in B.bedges)
    ok = ctx.check(sorted(bv) == B.bverts and len(set(bv)) == len(bv), "state:boundary_vertices",
                   f"{what}: mesh.boundary_vertices = {bv[:20]}, the face list gives {B.bverts[:20]}")
    ok &= bool(ctx.check(sorted(be) == expe and len(set(be)) == len(be), "state:boundary_edges",
                         f"{what}: mesh.boundary_edges = {be[:20]}, the face list gives {expe[:20]}"))
    return ok


def border_sequence(ctx, M, m, B, ops, label):
    """a generated order of border queries on ONE mesh object; every answer validated, mesh state compared after every call"""
    P = M.processing
    V = B.V
    snap = mesh_snapshot(m)
    others = [v for v in range(len(V)) if v not in B.loop_of]
    hist = []
    for (op, a) in ops:
        what = f"{label} call #{len(hist)} {op} (after {hist[-4:]})"
        if op == "cycle":
            if B.bverts:
                s = B.bverts[a % len(B.bverts)]
                ok, r = cycle_spelled(ctx, P, m, s, a)
                if ok:
                    check_cycle(ctx, r, s, B.loops, B.loop_of, B.bedges, B.eid, what + f" extract_border_cycle(m,{s})")
                    scribble(r)
        elif op == "cycle_default":
            ok, r = cycle_spelled(ctx, P, m, None, a)
            if ok:
                if B.bverts:
                    check_cycle(ctx, r, None, B.loops, B.loop_of, B.bedges, B.eid, what + " extract_border_cycle(m)")
                    scribble(r)
                else:
                    ctx.check(isinstance(r, (list, tuple)) and all(len(x) == 0 for x in r), "cycle:closed", f"{what}: closed surface: returned {r!r}")
        elif op == "cycle_bad":
            if others and B.bverts:
                check_non_border_start(ctx, P, m, others[a % len(others)], what, kw=bool((a // 5) % 2))
        elif op == "all":
            ok, r = mesh_spelled(ctx, "all", P.extract_border_cycle_all, m, a, "all")
            if ok:
                check_all(ctx, r, B, what)
                scribble(r)
        elif op == "boundary":
            ok, r = mesh_spelled(ctx, "boundary", P.extract_boundary_of_surface, m, a, "boundary")
            if ok:
                check_boundary(ctx, M, r, B, what)
                if isinstance(r, tuple) and len(r) == 2:
                    scribble(r[1])
        elif op == "other_mesh":
            # an unrelated second mesh goes through the same functions; the first one must not notice (no module-level state)
            V2 = [[0.0, 0.0, 7.0], [1.0, 0.0, 7.0], [0.0, 1.0, 7.0], [1.0, 1.0, 7.0], [2.0, 0.5, 7.0]]
            F2 = [[0, 1, 2], [1, 3, 2], [1, 4, 3]][:1 + a % 3]
            B2 = BorderRef(V2, F2)
            m2 = surface_from(V2, F2)
            B2.eid = {e: i for i, e in enumerate(tuple(ints(e)) for e in m2.edges)}
            for f2, chk in ((P.extract_border_cycle_all, lambda r2: check_all(ctx, r2, B2, what + " (second mesh)")),
                            (P.extract_boundary_of_surface, lambda r2: check_boundary(ctx, M, r2, B2, what + " (second mesh)"))):
                ok, r2 = ctx.call("other-mesh", f2, m2)
                if ok:
                    chk(r2)
        elif op == "is_border":
            v = a % len(V)
            ok, r = ctx.call("state", m.is_vertex_on_border, v)
            if ok:
                ctx.check(bool(r) == (v in B.loop_of), "state:is_vertex_on_border", f"{what}: is_vertex_on_border({v}) = {r!r}")
        elif op == "detector":
            if not B.normals_ok():
                ctx.label("seq:detector-skipped-degenerate-face")
                hist.append("detector-skipped")
                continue
            # the options in the documented order (only_border, flag_corners, corner_order, compute_feature_graph, verbose), spelled
            # by keyword / all by position / the first two by position / numpy scalars with corner_order by position
            fc, fg, how = bool(a % 2), bool(a % 3 == 0), (a // 6) % 4
            ctx.label("seq:detector:" + ("keywords", "five-positional", "two-positional", "three-positional-numpy")[how])
            if how == 0:
                ok, det = ctx.call("detector", P.FeatureEdgeDetector, only_border=True, flag_corners=fc, compute_feature_graph=fg, verbose=False)
            elif how == 1:
                ok, det = ctx.call("detector", P.FeatureEdgeDetector, True, fc, 4, fg, False)
            elif how == 2:
                ok, det = ctx.call("detector", P.FeatureEdgeDetector, True, fc, compute_feature_graph=fg, verbose=False)
            else:
                ok, det = ctx.call("detector", P.FeatureEdgeDetector, np.bool_(True), np.bool_(fc), np.int64(4), compute_feature_graph=np.bool_(fg), verbose=0)
            if not ok:
                return
            ok, _ = ctx.call("detector", det.run, mesh=m) if (a // 24) % 2 else ctx.call("detector", det.run, m)
            if ok:
                fe = set(ints(det.feature_edges))
                ctx.check(fe == set(B.eid[e] for e in B.bedges), "detector:only_border",
                          f"{what}: only_border detector flags edges {sorted(fe)[:20]}, border edges are {sorted(B.eid[e] for e in B.bedges)[:20]}")
        elif op == "clone":
            import copy, pickle
            try:
                m = copy.deepcopy(m) if a % 2 else pickle.loads(pickle.dumps(m))
                ctx.label("seq:clone")
            except Exception:
                ctx.label("copy-failed")
        elif op == "containers":
            pass
        else:
            raise AssertionError(op)
        hist.append(op)
        if not check_border_state(ctx, m, B, what + " -> afterwards"):
            return
    ctx.check(mesh_snapshot(m) == snap, "state:containers", f"{label}: vertices / faces / edges of the mesh changed during {hist}")


def fn_border(case, ctx):
    import mouette as M
    V, F = case["V"], case["F"]
    B = BorderRef(V, F)
    ref, loops, loop_of, bedges, bverts = B.ref, B.loops, B.loop_of, B.bedges, B.bverts
    chord = any(a in loop_of and b in loop_of and (a, b) not in bedges for (a, b) in ref.uedges)
    cross = any(a in loop_of and b in loop_of and (a, b) not in bedges and loop_of[a] != loop_of[b] for (a, b) in ref.uedges)
    for t in case.get("tags", []):
        ctx.label(t)
    ctx.label(f"loops={min(len(loops), 5)}", f"comps={min(ref.n_face_components(), 3)}", f"chord={chord}",
              f"chord-between-loops={cross}", "arity=" + ("tri" if all(len(f) == 3 for f in F) else "other"))
    ops = [tuple(o) for o in case.get("ops", [])]
    names = [o[0] for o in ops]
    ctx.label("seq:first=" + (names[0] if names else "none"))
    for first in ("all", "boundary", "detector"):
        later = [n for i, n in enumerate(names) if first in names[:i] and n in ("cycle", "cycle_default", "all", "boundary")]
        if later and bverts:
            ctx.label(f"seq:{first}-then-extraction")
    ctx.nontrivial(len(loops) >= 2)
    want = apply_config(M, case.get("cfg"), ctx, UNSORTED_BORDER_ASSERTED)
    fform = case.get("fform", "list")
    ctx.label("fform=" + fform)
    surface_from = lambda V, F: build_mesh(M, V, F, None, "float", fform)
    P = M.processing
    # how the calls on the fresh meshes are written (cases stored before this dimension existed: all by position)
    sp = case.get("spell")

    # --- A. every border vertex as starting point (drawn one first, on a fresh mesh)
    m = surface_from(V, F)
    medges = [tuple(ints(e)) for e in m.edges]
    if not ctx.check(set(medges) == ref.uedges and len(set(medges)) == len(medges), "edges", "edge container differs from the sides of the faces"):
        return
    eid = B.eid = {e: i for i, e in enumerate(medges)}
    if bverts:
        k = case["s0"] % len(bverts)
        for i, s in enumerate(bverts[k:] + bverts[:k]):
            ok, r = ctx.call("cycle", P.extract_border_cycle, m, s) if sp is None else cycle_spelled(ctx, P, m, s, sp + 5 * i)
            if ok:
                check_cycle(ctx, r, s, loops, loop_of, bedges, eid, f"extract_border_cycle(m,{s})")
    # non-border starting points are documented to raise
    others = [v for v in range(len(V)) if v not in loop_of]
    rnd = random.Random(case["probe"])
    for s in rnd.sample(others, min(3, len(others))) if bverts else []:
        check_non_border_start(ctx, P, m, s, "after all starts")
    check_border_state(ctx, m, B, "after extract_border_cycle from every border vertex")

    # --- default start on a fresh mesh
    m = surface_from(V, F)
    ok, r = ctx.call("cycle", P.extract_border_cycle, m) if sp is None else cycle_spelled(ctx, P, m, None, sp // 2)
    if ok:
        if bverts:
            check_cycle(ctx, r, None, loops, loop_of, bedges, eid, "extract_border_cycle(m)")
        else:
            ctx.check(isinstance(r, (list, tuple)) and all(len(x) == 0 for x in r), "cycle:closed", f"closed surface: returned {r!r}")

    # --- B. all cycles, as first call on a fresh mesh
    m = surface_from(V, F)
    ok, r = mesh_spelled(ctx, "all", P.extract_border_cycle_all, m, sp or 0, "all")
    if ok:
        check_all(ctx, r, B, "extract_border_cycle_all(fresh mesh)")

    # --- C. boundary polyline, as first call on a fresh mesh
    m = surface_from(V, F)
    ok, r = mesh_spelled(ctx, "boundary", P.extract_boundary_of_surface, m, (sp or 0) // 3, "boundary")
    if ok:
        check_boundary(ctx, M, r, B, "extract_boundary_of_surface(fresh mesh)")

    # --- D. generated order of calls on one mesh object
    if ops:
        border_sequence(ctx, M, surface_from(V, F), B, ops, "sequence on one mesh:")
    # objects dropped and rebuilt: relabelled variants (same element counts, other border) one after the other, each garbage collected
    nrec = int(case.get("recycle", 0))
    if nrec:
        import gc
        ctx.label("recycle")
        del m
        for k in range(nrec):
            gc.collect()
            Vk, Fk, _ = G.relabel(V, F, case["probe"] + k, reverse=bool(k % 2))
            Bk = BorderRef(Vk, Fk)
            mk = surface_from(Vk, Fk)
            Bk.eid = {e: i for i, e in enumerate(tuple(ints(e)) for e in mk.edges)}
            border_sequence(ctx, M, mk, Bk, [("all", k), ("boundary", k), ("cycle", case["s0"] + k)], f"rebuilt relabelled mesh #{k}:")
            del mk
    check_config(M, want, ctx, "after the border calls")


def fn_border_huge(case, ctx):
    import mouette as M
    V, F = case["V"], case["F"]
    B = BorderRef(V, F)
    for t in case.get("tags", []):
        ctx.label(t)
    longest = max(len(l) for l in B.loops)
    ctx.label("longest-loop" + (">65536" if longest > 65536 else ">32768" if longest > 32768 else ">16384" if longest > 16384 else
                                ">10001" if longest > 10001 else ">8192" if longest > 8192 else ">4096" if longest > 4096 else
                                ">2048" if longest > 2048 else ">1024"), f"loops={len(B.loops)}")
    ctx.nontrivial(longest > 1000)
    want = apply_config(M, case.get("cfg"), ctx, UNSORTED_BORDER_ASSERTED)
    fform = case.get("fform", "list")
    ctx.label("fform=" + fform)
    surface_from = lambda V, F: build_mesh(M, V, F, None, "float", fform)
    P = M.processing
    m = surface_from(V, F)
    medges = [tuple(ints(e)) for e in m.edges]
    if not ctx.check(set(medges) == B.ref.uedges and len(set(medges)) == len(medges), "edges", "edge container differs from the sides of the faces"):
        return
    B.eid = {e: i for i, e in enumerate(medges)}
    sp = case.get("spell")
    for i, a in enumerate(case["starts"]):
        s = B.bverts[a % len(B.bverts)]
        ok, r = ctx.call("cycle", P.extract_border_cycle, m, s) if sp is None else cycle_spelled(ctx, P, m, s, sp + 5 * i)
        if ok:
            check_cycle(ctx, r, s, B.loops, B.loop_of, B.bedges, B.eid, f"extract_border_cycle(m,{s}) [longest loop {longest}]")
    m = surface_from(V, F)
    ok, r = mesh_spelled(ctx, "all", P.extract_border_cycle_all, m, sp or 0, "all")
    if ok:
        check_all(ctx, r, B, f"extract_border_cycle_all(fresh mesh) [longest loop {longest}]")
    m = surface_from(V, F)
    ok, r = mesh_spelled(ctx, "boundary", P.extract_boundary_of_surface, m, (sp or 0) // 3, "boundary")
    if ok:
        check_boundary(ctx, M, r, B, f"extract_boundary_of_surface(fresh mesh) [longest loop {longest}]")
    border_sequence(ctx, M, surface_from(V, F), B, [tuple(o) for o in case["ops"]], "sequence on one mesh:")
    check_config(M, want, ctx, "after the border calls")


# ============================================================================================ features: generators

def _unit(x):
    return x / np.linalg.norm(x)


def attach(V, F, a, b, f, theta_deg, s, h):
    """glue a new triangle [b, a, w] onto the free half-edge a->b of face f, folded by theta (signed) about the edge"""
    pu, pv = np.array(V[a]), np.array(V[b])
    e = pv - pu
    eh = _unit(e)
    c = np.mean([V[v] for v in F[f]], axis=0)
    r = c - pu
    perp = r - np.dot(r, eh) * eh
    d = -_unit(perp)
    x = s * e + h * d
    th = math.radians(theta_deg)
    xr = x * math.cos(th) + np.cross(eh, x) * math.sin(th) + eh * np.dot(eh, x) * (1 - math.cos(th))
    w = pu + xr
    V.append([float(t) for t in w])
    F.append([b, a, len(V) - 1])


@st.composite
def fold_angle(draw):
    k = draw(st.sampled_from(["b0", "b37", "b37", "b37", "b60", "b60", "b60", "bulk", "bulk", "bulk", "flat", "right"]))
    if k == "flat":
        return 0.0
    if k == "right":
        return 90.0
    if k == "bulk":
        return draw(st.floats(0.25, 175.0))
    d = 10 ** draw(st.floats(-4.0, -1.0))
    if k == "b0":
        return d
    T = ACOS08 if k == "b37" else 60.0
    return T + d if draw(st.booleans()) else T - d


def pyramid(n, gamma_deg):
    """regular n-gon pyramid whose adjacent faces have normals gamma apart (gamma < 2pi/n)"""
    g = math.radians(gamma_deg)
    s2 = (1 - math.cos(g)) / (1 - math.cos(2 * math.pi / n))
    s2 = min(max(s2, 1e-12), 0.97)
    alpha = math.asin(math.sqrt(s2))
    hgt = math.cos(math.pi / n) * math.tan(alpha)
    V = [[math.cos(2 * math.pi * i / n), math.sin(2 * math.pi * i / n), 0.0] for i in range(n)] + [[0.0, 0.0, hgt]]
    F = [[i, (i + 1) % n, n] for i in range(n)]
    return V, F


@st.composite
def roof(draw, big=False, kl=None):
    K = draw(st.integers(1, 8 if big else 4)); L = draw(st.integers(1, 8 if big else 4))
    if kl:
        K = draw(st.integers(*kl)); L = draw(st.integers(*kl))
    rnd = random.Random(draw(st.integers(0, 10 ** 6)))
    phi = 0.0
    P = [(0.0, 0.0)]
    for j in range(K):
        if j > 0:
            th = draw(fold_angle())
            phi += math.radians(th) * (1 if rnd.random() < 0.5 else -1)
        w = rnd.uniform(0.7, 1.3)
        P.append((P[-1][0] + w * math.cos(phi), P[-1][1] + w * math.sin(phi)))
    V = []
    for i in range(L + 1):
        for j in range(K + 1):
            V.append([P[j][0], i + rnd.uniform(-0.25, 0.25), P[j][1]])
    idx = lambda j, i: i * (K + 1) + j
    mode = draw(st.sampled_from(["quad", "tri", "mixed"]))
    F = []
    for i in range(L):
        for j in range(K):
            q = [idx(j, i), idx(j + 1, i), idx(j + 1, i + 1), idx(j, i + 1)]
            if mode == "tri" or (mode == "mixed" and rnd.random() < 0.5):
                d = rnd.randrange(2)
                g = q[d:] + q[:d]
                F += [[g[0], g[1], g[2]], [g[0], g[2], g[3]]]
            else:
                F.append(q)
    for i in draw(st.lists(st.integers(0, 1000), max_size=8 if big else 3)):
        if len(F) <= 1:
            break
        k = i % len(F)
        F3 = F[:k] + F[k + 1:]
        if _valid_bordered(V, F3):
            F = F3
    V, F = G.compact(V, F)
    return V, F, ["seed=roof", "roofcells=" + mode]


CUBE_FACES = {  # direction -> quad (offsets), outward orientation checked by the builder
    (-1, 0, 0): [(0, 0, 0), (0, 0, 1), (0, 1, 1), (0, 1, 0)], (1, 0, 0): [(1, 0, 0), (1, 1, 0), (1, 1, 1), (1, 0, 1)],
    (0, -1, 0): [(0, 0, 0), (1, 0, 0), (1, 0, 1), (0, 0, 1)], (0, 1, 0): [(0, 1, 0), (0, 1, 1), (1, 1, 1), (1, 1, 0)],
    (0, 0, -1): [(0, 0, 0), (0, 1, 0), (1, 1, 0), (1, 0, 0)], (0, 0, 1): [(0, 0, 1), (1, 0, 1), (1, 1, 1), (0, 1, 1)]}


def polycube_surface(cells):
    """outward oriented boundary quads of a set of unit cubes; integer coordinates"""
    cells = set(cells)
    vid, V, F = {}, [], []
    for c in sorted(cells):
        for d, quad in sorted(CUBE_FACES.items()):
            if (c[0] + d[0], c[1] + d[1], c[2] + d[2]) in cells:
                continue
            pts = [(c[0] + o[0], c[1] + o[1], c[2] + o[2]) for o in quad]
            n = np.cross(np.subtract(pts[1], pts[0]), np.subtract(pts[2], pts[0]))
            if np.dot(n, d) < 0:
                pts = pts[::-1]
            f = []
            for q in pts:
                if q not in vid:
                    vid[q] = len(V); V.append([int(x) for x in q])
                f.append(vid[q])
            F.append(f)
    return V, F


@st.composite
def polycube(draw, big=False):
    """random face-connected polycube whose surface is a manifold (cells that would pinch it are not added): all normal angles
    are 0 or 90 degrees, vertex angle sums 270 (convex corner), 360, 450 (re-entrant corner), 540 ... degrees"""
    rnd = random.Random(draw(st.integers(0, 10 ** 6)))
    n = draw(st.integers(1, 10 if big else 6))
    cells = [(0, 0, 0)]
    for _ in range(4 * n):
        if len(cells) >= n:
            break
        c = cells[rnd.randrange(len(cells))]
        d = list(CUBE_FACES)[rnd.randrange(6)]
        c2 = (c[0] + d[0], c[1] + d[1], c[2] + d[2])
        if c2 in cells or max(abs(x) for x in c2) > 2:
            continue
        V, F = polycube_surface(cells + [c2])
        if SurfRef(len(V), F).validate() is None:
            cells.append(c2)
    V, F = polycube_surface(cells)
    mode = draw(st.sampled_from(["quad", "tri", "mixed"]))
    if mode != "quad":
        F2 = []
        for f in F:
            if mode == "tri" or rnd.random() < 0.5:
                k = rnd.randrange(2)
                g = f[k:] + f[:k]
                F2 += [[g[0], g[1], g[2]], [g[0], g[2], g[3]]]
            else:
                F2.append(f)
        F = F2
    for i in draw(st.lists(st.integers(0, 1000), max_size=3)):
        k = i % len(F)
        F3 = F[:k] + F[k + 1:]
        if len(F3) >= 2 and _valid_bordered(V, F3) and len(set(v for f in F3 for v in f)) == len(V):
            F = F3
    return V, F, ["seed=polycube", f"cubes={len(cells)}", "cubecells=" + mode]


def split_edges(V, F, picks, integer=False):
    """insert the midpoint of an edge into the (one or two) faces along it: the two faces then share TWO edges around a vertex of
    valence 2 (straight corner of 180 degrees in both faces); picks prefer interior edges"""
    V = [list(v) for v in V]; F = [list(f) for f in F]
    for i in picks:
        ref = SurfRef(len(V), F)
        es = sorted(ref.uedges)
        inner = [e for e in es if (e[0], e[1]) in ref.he and (e[1], e[0]) in ref.he]
        e = inner[(i // 4) % len(inner)] if (inner and i % 4) else es[(i // 4) % len(es)]
        V, F = G.op_edge_split(V, F, es.index(e))
        V = [list(v) for v in V]
        if integer:
            V[-1] = [int(round(x)) for x in V[-1]]
    return V, F


def fix_rotations(V, F):
    """the library's face normal uses the first three vertices of a face: start every face at a corner that is not straight"""
    A = np.array(V, dtype=float)
    out = []
    for f in F:
        n = len(f)

        def sin_at(k):
            u = A[f[(k + 1) % n]] - A[f[k]]; w = A[f[(k + 2) % n]] - A[f[k]]
            return np.linalg.norm(np.cross(u, w)) / (np.linalg.norm(u) * np.linalg.norm(w))
        if n > 3 and sin_at(0) < 1e-3:
            k = max(range(n), key=sin_at)
            f = f[k:] + f[:k]
        out.append(list(f))
    return out


def add_isolated(V, F, where):
    """unused vertices (in no face) at id 0 / a middle id / the last id"""
    V = [list(v) for v in V]; F = [list(f) for f in F]
    ints_only = all(isinstance(x, int) for v in V for x in v)
    xmax = max(v[0] for v in V); span = max(max(v[0] for v in V) - min(v[0] for v in V), 1e-300)
    for k, w in enumerate(where):
        pos = {"first": 0, "middle": len(V) // 2, "last": len(V)}[w]
        p = [xmax + 3 + k, 0, 0] if ints_only else [xmax + (0.37 + 0.21 * k) * span, V[0][1], V[0][2]]
        V.insert(pos, p)
        F = [[v + 1 if v >= pos else v for v in f] for f in F]
    return V, F


def dihedron(kind, n):
    """two faces glued along several edges, folded flat onto each other (normals 180 degrees apart)"""
    if kind == "quads180":      # two quads around an interior vertex (3) of valence 2
        return [[0.0, 0.0, 0.0], [1.0, 0.0, 0.0], [1.0, 1.0, 0.0], [0.0, 1.0, 0.0], [0.9, -0.2, 0.0]], [[0, 1, 2, 3], [0, 3, 2, 4]]
    V = [[math.cos(2 * math.pi * i / n) * (1 + 0.1 * (i % 2)), math.sin(2 * math.pi * i / n), 0.0] for i in range(n)]
    return V, [list(range(n)), list(range(n))[::-1]]       # 'pillow': the same vertex cycle in both orientations (closed)


@st.composite
def feature_case(draw, big=False, huge=False):
    max_att = 60 if big else 20
    fam = draw(st.sampled_from(["tri", "tri", "tri", "pyr", "pyr", "roof", "roof", "roof", "roof", "generic", "polycube", "polycube",
                                "polycube", "dihedron"]))
    if huge:
        fam = "roof"            # size regime: 600 .. 2000 cells, more than 1000 interior vertices
    tags = []
    vform = "float"
    pillow = False
    nsplit = draw(st.sampled_from([0, 0, 0, 1, 2, 3])) if fam not in ("generic", "dihedron") and not huge else 0
    picks = [draw(st.integers(0, 1000)) for _ in range(nsplit)]
    if fam == "dihedron":
        kind = draw(st.sampled_from(["quads180", "pillow"]))
        V, F = dihedron(kind, draw(st.integers(3, 6)))
        pillow = kind == "pillow"
        sc = draw(st.sampled_from([1.0, 1e-3, 1e3]))
        V = [[0.0 if abs(x) < 1e-12 * sc else float(x) for x in v] for v in G.rigid((np.array(V) * sc).tolist(), draw(st.integers(0, 10 ** 6)))]
        if draw(st.booleans()):
            V, F, _ = G.relabel(V, F, draw(st.integers(0, 10000)), reverse=draw(st.booleans()))
        tags = ["seed=dihedron:" + kind, f"scale={sc:g}"]
    elif fam == "polycube":
        V, F, tags = draw(polycube(big))
        if nsplit:
            V, F = split_edges([[(2 ** nsplit) * x for x in v] for v in V], F, picks, integer=True)      # midpoints stay integer
            tags.append(f"split-edges={nsplit}")
        vform = draw(st.sampled_from(["int", "npint", "float", "npfloat", "npfloat32", "moved", "moved"]))
        if vform == "moved":
            vform = "float"
            sc = draw(st.sampled_from([1e-6, 1e-3, 1.0, 1e3, 1e6]))
            V = [[0.0 if abs(x) < 1e-12 * sc else float(x) for x in v] for v in G.rigid((np.array(V) * sc).tolist(), draw(st.integers(0, 10 ** 6)))]
            off = draw(st.sampled_from([0.0, 0.0, 1e3, 1e6]))
            if off:
                V = (np.array(V) + off * sc * np.array([0.6, -0.48, 0.64])).tolist()
            tags += [f"scale={sc:g}", "rigid=True", f"offset={off:g}"]
        if draw(st.booleans()):
            V, F, _ = G.relabel(V, F, draw(st.integers(0, 10000)), reverse=False)
            tags.append("relabelled")
        F = [list(map(int, f)) for f in F]
    elif fam == "generic":
        s = draw(G.well_shaped_trisurf(max_faces=150 if big else 40))
        V, F = s["V"], s["F"]
        tags = ["seed=generic"] + [t for t in s["tags"] if t.startswith(("base=", "closed", "bordered"))]
    else:
        if fam == "tri":
            V = [[0.0, 0.0, 0.0], [1.0, 0.0, 0.0], [draw(st.floats(0.2, 0.8)), draw(st.floats(0.6, 1.2)), 0.0]]
            F = [[0, 1, 2]]
            tags = ["seed=tri"]
        elif fam == "pyr":
            n = draw(st.integers(3, 6))
            gam = draw(fold_angle())
            lim = math.degrees(2 * math.pi / n) * 0.93
            if gam > lim:
                gam = draw(st.floats(1.0, lim))
            V, F = pyramid(n, gam)
            tags = ["seed=pyr", f"pyr_n={n}"]
        else:
            V, F, tags = draw(roof(big, kl=(25, 45) if huge else None))
            if huge:
                tags.append("huge-roof")
        V = [list(v) for v in V]; F = [list(f) for f in F]
        natt = draw(st.integers(0, max_att if fam == "tri" else max_att // 2))
        if fam == "tri" and big and draw(st.sampled_from([False, False, False, True])):
            natt = draw(st.sampled_from([252, 253, 254, 255, 256]))        # vertex / face counts of exactly 255, 256, 257 ...
            tags.append("counts-around-256")
        ref = SurfRef(len(V), F)
        free = [(a, b, fi) for (a, b), (fi, _) in sorted(ref.he.items()) if (b, a) not in ref.he]
        stripmode = draw(st.booleans())
        for _ in range(natt):
            th = draw(fold_angle()) * (1 if draw(st.booleans()) else -1)
            i = draw(st.integers(0, 1000))
            k = len(free) - 1 - (i % 2) if stripmode else i % len(free)
            a, b, fi = free.pop(k)
            attach(V, F, a, b, fi, th, draw(st.floats(0.2, 0.8)), draw(st.floats(0.6, 1.2)))
            w = len(V) - 1
            free += [(a, w, len(F) - 1), (w, b, len(F) - 1)]
        tags.append("attached=" + ("0" if natt == 0 else "1-5" if natt <= 5 else "6+"))
        if nsplit:
            V, F = split_edges(V, F, picks)
            tags.append(f"split-edges={nsplit}")
        sc = draw(st.sampled_from([1.0, 1.0, 1.0, 1e-3, 1e3, 7.3, 1e-6, 1e6]))
        mot = draw(st.booleans())
        A = np.array(V) * sc
        V = G.rigid(A.tolist(), draw(st.integers(0, 10 ** 6))) if mot else A.tolist()
        # far from the origin compared with the element size (edge lengths are 0.6..2 x sc)
        off = draw(st.sampled_from([0.0, 0.0, 0.0, 1e3, 1e6]))
        if off:
            V = (np.array(V) + off * sc * np.array([0.6, -0.48, 0.64])).tolist()
        tags += [f"scale={sc:g}", f"rigid={mot}", f"offset={off:g}"]
        if draw(st.booleans()):
            V, F, _ = G.relabel(V, F, draw(st.integers(0, 10000)), reverse=draw(st.booleans()))
            tags.append("relabelled")
        # no subnormal / cancellation-noise coordinates (Vec.normalized rejects underflow; not this property's concern)
        V = [[0.0 if abs(x) < 1e-12 * sc else float(x) for x in v] for v in V]
        F = [list(map(int, f)) for f in F]
    iso = draw(st.sampled_from([[], [], [], ["first"], ["last"], ["middle"], ["first", "middle", "last"]]))
    if iso and not huge:
        V, F = add_isolated(V, F, iso)
        tags.append("isolated-vertices")
    F = fix_rotations(V, F)
    ref = SurfRef(len(V), F)
    err = ref.validate()
    if (err is not None and not (pillow and err.startswith("two faces with vertex set"))) or ref.border_loops() is None:
        raise AssertionError("generator produced an invalid surface")
    # declared (hard) edges
    p = draw(st.sampled_from([0.0, 0.3, 0.6, 1.0]))
    rnd = random.Random(draw(st.integers(0, 10 ** 6)))
    E = [list(e) if rnd.random() < 0.5 else [e[1], e[0]] for e in sorted(ref.uedges) if rnd.random() < p]
    rnd.shuffle(E)

    def opts():
        return {"only_border": draw(st.sampled_from([False] * 5 + [True])), "flag_corners": draw(st.sampled_from([True, True, True, False])),
                "corner_order": draw(st.sampled_from([1, 2, 3, 4, 4, 4, 5, 6, 7, 8, 8, 12, 16, 24, 61, 100])), "graph": draw(st.booleans()),
                "spell": draw(spell_draw()),
                "via": draw(st.sampled_from(["run", "run", "detect", "call"])), "verbose": draw(st.sampled_from([False] * 4 + [True]))}
    second = draw(st.sampled_from([None, None, None, "same-detector", "moved-same-detector", "moved-new-detector", "other-mesh",
                                   "deepcopy-mesh", "pickle-mesh", "copy-detector"]))
    # flags written as False into the sparse 'hard_edges' attribute: on declared edges (un-marking them) and on undeclared ones
    unmark = [rnd.randrange(10 ** 6) for _ in range(draw(st.sampled_from([0, 0, 1, 3])))]
    return {"V": V, "F": F, "E": E, "tags": tags, "opts": opts(), "pre_normals": draw(st.sampled_from([False] * 5 + [True])),
            "rerun": opts() if draw(st.sampled_from([False] * 4 + [True])) else None, "vform": vform, "second": second,
            "stretch": [draw(st.sampled_from([0.5, 0.8, 1.0, 1.25, 2.0])) for _ in range(3)],
            "mix_border": draw(st.sampled_from([False, False, True])) and not pillow, "cfg": draw(config_draw()), "fform": draw(st.sampled_from(FFORMS)),
            "after_raise": draw(st.sampled_from([False, False, False, True])), "pillow": pillow, "unmark": unmark,
            "recycle": draw(st.sampled_from([0, 0, 0, 2, 3]))}


# ============================================================================================ features: oracle

def newell_normal(P):
    n = np.zeros(3)
    k = len(P)
    for i in range(k):
        p, q = P[i], P[(i + 1) % k]
        n += np.array([(p[1] - q[1]) * (p[2] + q[2]), (p[2] - q[2]) * (p[0] + q[0]), (p[0] - q[0]) * (p[1] + q[1])])
    return n / np.linalg.norm(n)


def own_geometry(V, F, ref):
    A = np.array(V, dtype=float)
    # normals about the face centroid (translation invariance of Newell's formula in floating point)
    N = [newell_normal(A[list(f)] - A[list(f)].mean(axis=0)) for f in F]
    dots = {}
    for (a, b) in ref.uedges:
        if (a, b) in ref.he and (b, a) in ref.he:
            dots[(a, b)] = float(np.dot(N[ref.he[(a, b)][0]], N[ref.he[(b, a)][0]]))
    asum = np.zeros(len(V))
    for f in F:
        k = len(f)
        for i in range(k):
            u = A[f[i - 1]] - A[f[i]]; w = A[f[(i + 1) % k]] - A[f[i]]
            asum[f[i]] += math.atan2(np.linalg.norm(np.cross(u, w)), float(np.dot(u, w)))
    return A, N, dots, asum


def angle_of(dot):
    return math.degrees(math.acos(max(-1.0, min(1.0, dot))))


def check_detector(ctx, M, m, det, o, ref, medges, dots, hard, asum, V, fresh, tag, tol=TOL_DOT):
    eid = {e: i for i, e in enumerate(medges)}
    border = ref.border_edges()
    must, may = set(border), set(border)
    if not o["only_border"]:
        for e, d in dots.items():
            if d < 0.5 - tol or (e in hard and d < 0.8 - tol):
                must.add(e)
            if d < 0.5 + tol or (e in hard and d < 0.8 + tol):
                may.add(e)
    fe = det.feature_edges
    if not ctx.check(isinstance(fe, set) and all(isinstance(e, (int, np.integer)) and 0 <= e < len(medges) for e in fe), "feat:edges-type",
                     f"{tag}: feature_edges = {fe!r}"[:300]):
        return
    got = set(medges[int(e)] for e in fe)

    def describe(es):
        return [(e, "border" if e in border else f"angle={angle_of(dots[e]):.9f} dot={dots[e]:.12f} hard={e in hard}") for e in sorted(es)[:6]]
    mb = border - got
    ctx.check(not mb, "feat:border-missing", f"{tag}: border edges not flagged: {sorted(mb)[:8]} (opts {o})")
    miss = must - got - border
    ctx.check(not miss, "feat:missing", f"{tag}: expected feature edges not flagged: {describe(miss)} (opts {o})")
    extra = got - may
    ctx.check(not extra, "feat:extra" + (":only_border" if o["only_border"] else ""),
              f"{tag}: flagged but neither border, nor angle > 60, nor declared with angle > {ACOS08:.4f}: {describe(extra)} (opts {o})")

    # ---- derived data, consistent with the edge set the detector reports
    nV = len(V)
    deg = [0] * nV
    for a, b in got:
        deg[a] += 1; deg[b] += 1
    fv_exp = set(v for v in range(nV) if deg[v] > 0)
    fv = det.feature_vertices
    if ctx.check(isinstance(fv, set), "feat:vertices", f"{tag}: feature_vertices is {type(fv).__name__}"):
        fvi = set(int(v) for v in fv)
        ctx.check(fvi == fv_exp, "feat:vertices", f"{tag}: feature_vertices {sorted(fvi)} != end points of the feature edges {sorted(fv_exp)}")
    fd = det.feature_degrees
    bad = [(v, int(fd[v]), deg[v]) for v in range(nV) if int(fd[v]) != deg[v]]
    ctx.check(not bad, "feat:degrees", f"{tag}: (vertex, feature_degrees, incident feature edges): {bad[:8]}")
    lfe = det.local_feat_edges
    if ctx.check(isinstance(lfe, dict) and set(int(k) for k in lfe) == fv_exp, "feat:local-keys",
                 f"{tag}: local_feat_edges keys {sorted(lfe) if isinstance(lfe, dict) else lfe!r} != feature vertices {sorted(fv_exp)}"[:400]):
        for v in sorted(fv_exp):
            v2e = ints(m.connectivity.vertex_to_edges(v))
            exp = [i for i, e in enumerate(v2e) if medges[e] in got]
            if not ctx.check(ints(lfe[v]) == exp, "feat:local", f"{tag}: local_feat_edges[{v}] = {lfe[v]}, positions of feature edges in vertex_to_edges({v})={v2e}: {exp}"):
                break
    # attributes written on the mesh
    if m.edges.has_attribute("feature") and m.vertices.has_attribute("feature"):
        fa, va = m.edges.get_attribute("feature"), m.vertices.get_attribute("feature")
        bad = [e for e in range(len(medges)) if bool(fa[e]) != (medges[e] in got)]
        ctx.check(not bad, "feat:edge-attr", f"{tag}: edge attribute 'feature' disagrees with feature_edges at edges {bad[:8]}")
        bad = [v for v in range(nV) if bool(va[v]) != (v in fv_exp)]
        ctx.check(not bad, "feat:vertex-attr", f"{tag}: vertex attribute 'feature' disagrees with feature_vertices at {bad[:8]}")
    else:
        ctx.check(False, "feat:edge-attr", f"{tag}: the 'feature' attributes were not created on the mesh")

    # ---- corners
    order = o["corner_order"]
    cexp = {}
    if o["flag_corners"]:
        cr = det.corners
        if ctx.check(cr is not None, "feat:corners", f"{tag}: corners is None although flag_corners=True"):
            bad = []
            nex = 0
            for v in sorted(fv_exp):
                x = asum[v] * order / (2 * math.pi)
                if x >= 1.4 and abs((x - math.floor(x)) - 0.5) < 1e-6:
                    nex += 1
                    continue
                e = max(1, int(math.floor(x + 0.5)))
                cexp[v] = e
                if e > order:
                    ctx.label("corner:more-than-a-full-turn")
                if int(cr[v]) != e:
                    bad.append((v, int(cr[v]), e, float(asum[v])))
            if nex:
                ctx.label("corner-rounding-exempt")
            ctx.check(not bad, "feat:corners", f"{tag}: (vertex, corners, expected round(angle_sum*{order}/2pi) min 1, angle_sum): {bad[:6]}")
            if fresh:
                bad = [(v, int(cr[v])) for v in range(nV) if v not in fv_exp and int(cr[v]) != 0]
                ctx.check(not bad, "feat:corners-nonfeature", f"{tag}: corners set at non-feature vertices: {bad[:6]}")
    else:
        # flag_corners=False: no corner orders are computed (every detector of a case keeps its options for its whole life)
        ctx.check(det.corners is None, "feat:corners-off", f"{tag}: flag_corners=False but detector.corners is {type(det.corners).__name__} (opts {o})")
    # ---- feature graph (documented as the feature edges as a polyline)
    import io, contextlib
    with contextlib.redirect_stdout(io.StringIO()):        # the properties print a warning when they return None
        fg_pub, pc_pub = det.feature_graph, det.corner_point_cloud
    if not o["graph"]:
        # documented by the warning of the property: None when compute_feature_graph was set to False
        ctx.check(fg_pub is None, "graph:off", f"{tag}: compute_feature_graph=False but detector.feature_graph is a {type(fg_pub).__name__} (opts {o})")
    if not (o["graph"] and o["flag_corners"]):
        ctx.check(pc_pub is None, "graph:off", f"{tag}: compute_feature_graph={o['graph']}, flag_corners={o['flag_corners']} but "
                                              f"detector.corner_point_cloud is a {type(pc_pub).__name__} (opts {o})")
    if o["graph"]:
        fg = det._feature_graph
        if ctx.check(isinstance(fg, M.mesh.PolyLine), "graph:type", f"{tag}: feature graph is {type(fg).__name__}"):
            GV = [tuple(float(x) for x in p) for p in fg.vertices]
            SV = [tuple(float(x) for x in p) for p in V]
            if len(set(SV)) == len(SV):
                ctx.check(sorted(GV) == sorted(SV[v] for v in fv_exp), "graph:vertices", f"{tag}: feature graph vertices are not the feature vertices")
                if all(0 <= a < len(GV) and 0 <= b < len(GV) for a, b in (ints(e) for e in fg.edges)):
                    ge = sorted(tuple(sorted((GV[a], GV[b]))) for a, b in (ints(e) for e in fg.edges))
                    ex = sorted(tuple(sorted((SV[a], SV[b]))) for a, b in got)
                    ctx.check(ge == ex, "graph:edges", f"{tag}: feature graph has {len(ge)} edges, detector {len(ex)}; as coordinate pairs they differ")
                else:
                    ctx.check(False, "graph:edges", f"{tag}: feature graph edge out of range")
                if fg.vertices.has_attribute("degree"):
                    da = fg.vertices.get_attribute("degree")
                    pos = {p: v for v, p in enumerate(SV)}
                    bad = [(k, int(da[k]), deg[pos[GV[k]]]) for k in range(len(GV)) if GV[k] in pos and int(da[k]) != deg[pos[GV[k]]]]
                    ctx.check(not bad, "graph:degree", f"{tag}: (graph vertex, degree attribute, feature degree): {bad[:6]}")
        if o["flag_corners"] and det.corners is not None:
            pc = det._corner_pc
            if ctx.check(isinstance(pc, M.mesh.PointCloud), "graph:corner-cloud", f"{tag}: corner point cloud is {type(pc).__name__}"):
                n_exp = sum(1 for v in fv_exp if int(det.corners[v]) not in (order, order / 2))
                ctx.check(len(pc.vertices) == n_exp, "graph:corner-cloud",
                          f"{tag}: corner point cloud has {len(pc.vertices)} points, {n_exp} feature vertices have an order other than {order}, {order / 2}")


def make_detector(M, o, ctx):
    """the detector for the option dict o, its options spelled as the case says (see spell_draw); None if the constructor failed"""
    args, kwargs, labels = detector_arguments(o)
    ctx.label(*labels)
    ok, det = ctx.call("ctor", M.processing.FeatureEdgeDetector, *args, **kwargs)
    if not ok:
        return None
    # the options are public attributes of the detector (in-repo callers read feat.corner_order to turn corner orders into angles)
    got = (det.only_border, det.flag_corners, det.corner_order, det.compute_feature_graph)
    want = (o["only_border"], o["flag_corners"], o["corner_order"], o["graph"])
    ok = False
    try:
        ok = all(bool(g) == bool(w) for g, w in zip(got[:2] + got[3:], want[:2] + want[3:])) and int(got[2]) == int(want[2]) and not isinstance(got[2], (bool, np.bool_))
    except Exception:
        pass
    if not ctx.check(ok, "ctor:options", f"FeatureEdgeDetector(*{args!r}, **{kwargs!r}) has (only_border, flag_corners, corner_order, compute_feature_graph) = {got!r}, "
                                        f"the documented parameters / defaults give {want!r}"):
        return None
    return det


def run_quiet(ctx, sig, det, o, m):
    """run the detector (log lines of verbose mode go to a buffer); the option container given to it must not change"""
    import io, contextlib
    before = (det.only_border, det.flag_corners, det.corner_order, det.compute_feature_graph)
    meshkw = bool((o.get("spell") or {}).get("meshkw"))
    if meshkw:
        ctx.label("spell:run:mesh-by-keyword")
    with contextlib.redirect_stdout(io.StringIO()):
        ok, ret = ctx.call(sig, run_via(det, o), mesh=m) if meshkw else ctx.call(sig, run_via(det, o), m)
    if ok:
        if o.get("via") == "call":       # in-repo callers write feat = FeatureEdgeDetector(...)(mesh)
            ctx.check(ret is det, "feat:call-returns-detector", f"detector(mesh) returned {type(ret).__name__}, in-repo callers use the returned detector")
        after = (det.only_border, det.flag_corners, det.corner_order, det.compute_feature_graph)
        ctx.check(before == after, "feat:options-changed", f"detector options changed during the run: {before} -> {after}")
    return ok


def run_via(det, o):
    return {"run": det.run, "detect": det.detect, "call": det}[o.get("via", "run")]


def fn_features(case, ctx):
    import mouette as M
    V, F, E = case["V"], case["F"], [tuple(e) for e in case["E"]]
    ref = SurfRef(len(V), F)
    err = ref.validate()
    if (err is not None and not (case.get("pillow") and err.startswith("two faces with vertex set"))) or ref.border_loops() is None:
        raise AssertionError("invalid generated case")
    hard = set(key(e) for e in E)
    if len(hard) != len(E) or not hard <= ref.uedges:
        raise AssertionError("invalid declared edges")
    A, N, dots, asum = own_geometry(V, F, ref)
    # distance from the origin relative to the element size: coordinates carry eps * ratio relative noise (non-planarity of quads)
    emin = min(float(np.linalg.norm(A[a] - A[b])) for a, b in ref.uedges)
    ratio = float(np.max(np.abs(A))) / emin
    tol = TOL_DOT + 2e-15 * ratio
    ctx.label("far-from-origin:" + (">=1e5" if ratio >= 1e5 else ">=1e2" if ratio >= 1e2 else "no"))
    o = case["opts"]
    # ---- labels
    for t in case.get("tags", []):
        ctx.label(t)
    ctx.label(f"only_border={o['only_border']}", f"flag_corners={o['flag_corners']}", f"order={o['corner_order']}", f"graph={o['graph']}",
              "arity=" + ("tri" if all(len(f) == 3 for f in F) else "quad/mixed"), "declared=" + ("none" if not E else "all" if len(hard) == len(ref.uedges) else "some"))
    if o.get("verbose"):
        ctx.label("verbose")
    if case["pre_normals"]:
        ctx.label("pre_normals")
    if case["rerun"]:
        ctx.label("rerun")
    near = False
    for e, d in dots.items():
        a = angle_of(d)
        h = e in hard
        cls = "flat" if a < 1e-6 else "(0,37)" if a < ACOS08 else "(37,60)" if a < 60 else ">60"
        ctx.label(f"edge:{'hard' if h else 'soft'}:{cls}")
        for T, nm in ((ACOS08, "37"), (60.0, "60")):
            dist = abs(a - T)
            if dist < 1e-2:
                near = True
            if dist < 0.15 and (nm == "60" or h):
                dec = "<1e-3" if dist < 1e-3 else "<1e-2" if dist < 1e-2 else "<0.15"
                ctx.label(f"near{nm}{'hard' if nm == '37' else ''}:{'above' if a > T else 'below'}:{dec}")
        if abs(d - 0.5) <= tol or (h and abs(d - 0.8) <= tol):
            ctx.label("threshold-exempt-edge")
    bv = ref.border_vertices()
    pairs = {}
    for (a, b) in dots:
        k2 = tuple(sorted((ref.he[(a, b)][0], ref.he[(b, a)][0])))
        pairs[k2] = pairs.get(k2, 0) + 1
    if any(c >= 2 for c in pairs.values()):
        ctx.label("two-faces-share-several-edges")
        if any(c >= 2 and min(dots[e] for e in dots if tuple(sorted((ref.he[e][0], ref.he[(e[1], e[0])][0]))) == k2) < 0.5 for k2, c in pairs.items()):
            ctx.label("two-faces-share-several-CREASE-edges")
    if len(set(v for f in F for v in f)) < len(V):
        ctx.label("isolated-vertices")
    if any(v not in bv for f in F for v in f):
        ctx.label("has-interior-vertex")
    ctx.label("closed" if not bv else "bordered")
    ctx.nontrivial(near)

    want = apply_config(M, case.get("cfg"), ctx, True)
    vform, fform = case.get("vform", "float"), case.get("fform", "list")
    ctx.label("vform=" + vform, "fform=" + fform)
    feature_mesh = lambda M, V, F, E, vform: build_mesh(M, V, F, E, vform, fform)
    m = feature_mesh(M, V, F, E, vform)
    medges = [tuple(ints(e)) for e in m.edges]
    if not ctx.check(set(medges) == ref.uedges and len(set(medges)) == len(medges), "edges", "edge container differs from the sides of the faces"):
        return
    snap = mesh_snapshot(m)
    B = None
    if case.get("mix_border"):
        # border extraction and feature detection share the mesh's border caches: interleave them on the one mesh object
        ctx.label("mix_border")
        B = BorderRef([[float(x) for x in v] for v in V], F)
        B.eid = {e: i for i, e in enumerate(medges)}
        if want["sort_neighborhoods"] or UNSORTED_BORDER_ASSERTED:
            border_sequence(ctx, M, m, B, [("all", 0), ("boundary", 0)], "before the detector:")
    if m.edges.has_attribute("hard_edges"):
        ha = m.edges.get_attribute("hard_edges")
        hs = set(medges[i] for i in range(len(medges)) if bool(ha[i]))
        if not ctx.check(hs == hard, "hard-edges-flag", f"hard_edges flags {sorted(hs)[:10]} != declared edges {sorted(hard)[:10]}"):
            return
    else:
        ctx.check(not hard, "hard-edges-flag", "declared edges but no hard_edges attribute")
    if case.get("unmark") and HARD_FLAG_VALUES_ASSERTED and m.edges.has_attribute("hard_edges"):
        # a flag written as False is not a declaration: un-mark some declared edges, write False on some undeclared ones
        ctx.label("hard-flag-written-False")
        ha = m.edges.get_attribute("hard_edges")
        hard = set(hard)
        for u in case["unmark"]:
            ie = u % len(medges)
            ha[ie] = False
            hard.discard(medges[ie])
    if case["pre_normals"]:
        ok, _ = ctx.call("face_normals", M.attributes.face_normals, m)
        if not ok:
            return
    det = make_detector(M, o, ctx)
    if det is None:
        return
    if case.get("after_raise"):
        # a call that raises (a polyline is not an allowed mesh type) must leave the detector and the switches usable
        ctx.label("after_raise")
        import io, contextlib
        try:
            from mouette.mesh.mesh_data import RawMeshData
            rp = RawMeshData(); rp.vertices += [[0., 0., 0.], [1., 0., 0.]]; rp.edges += [(0, 1)]
            with contextlib.redirect_stdout(io.StringIO()):
                det.run(M.mesh.PolyLine(rp))
            ctx.check(False, "feat:bad-mesh-type-accepted", "FeatureEdgeDetector.run accepted a PolyLine")
        except Exception as e:
            if type(e).__name__ in ("Violation", "Inconclusive", "HarnessError"):
                raise
        check_config(M, want, ctx, "after a detector call that raised")
    if not run_quiet(ctx, "run", det, o, m):
        return
    check_detector(ctx, M, m, det, o, ref, medges, dots, hard, asum, V, True, "run", tol=tol)
    last = (det, o)

    def det_snapshot(d):
        return (set(ints(d.feature_edges)), set(ints(d.feature_vertices)), {int(k): ints(v) for k, v in d.local_feat_edges.items()},
                [int(d.feature_degrees[v]) for v in range(len(V))])
    if case["rerun"]:
        o2 = case["rerun"]
        det2 = make_detector(M, o2, ctx)
        snap1 = det_snapshot(det)
        if det2 is not None and run_quiet(ctx, "rerun", det2, o2, m):
            check_detector(ctx, M, m, det2, o2, ref, medges, dots, hard, asum, V, False, f"second run (after a run with {o})", tol=tol)
            last = (det2, o2)
            ctx.check(det_snapshot(det) == snap1, "feat:first-detector-changed",
                      f"the containers of the first detector (opts {o}) changed when a second detector (opts {o2}) ran")
    ctx.check(mesh_snapshot(m) == snap, "state:containers", "vertices / faces / edges of the mesh changed during the detection")
    second = case.get("second")
    if second == "same-detector":
        # the SAME detector object run again on the same mesh: everything is rebuilt, nothing accumulates
        ctx.label("second=same-detector")
        if run_quiet(ctx, "rerun", det, o, m):
            check_detector(ctx, M, m, det, o, ref, medges, dots, hard, asum, V, False, "same detector object run a second time", tol=tol)
    elif second == "other-mesh":
        # a second, independent mesh (stretched copy) and detector: right on its own, and the first detector / mesh do not notice
        ctx.label("second=other-mesh")
        st3 = np.array(case.get("stretch", [1.0, 1.0, 1.0]), dtype=float)
        V2 = (np.array(V, dtype=float) * st3).tolist()
        m2 = feature_mesh(M, V2, F, E, "float")
        _, _, dots2, asum2 = own_geometry(V2, F, ref)
        snap1 = det_snapshot(last[0])
        d3 = make_detector(M, o, ctx)
        if d3 is not None and run_quiet(ctx, "run-other-mesh", d3, o, m2):
            check_detector(ctx, M, m2, d3, o, ref, [tuple(ints(e)) for e in m2.edges], dots2, set(key(e) for e in E), asum2, V2, True, "run on a second, independent mesh", tol=tol)
            ctx.check(det_snapshot(last[0]) == snap1, "feat:first-detector-changed", "the containers of the first detector changed when another detector ran on another mesh")
            fa = m.edges.get_attribute("feature")
            bad = [e for e in range(len(medges)) if bool(fa[e]) != (e in snap1[0])]
            ctx.check(not bad, "feat:edge-attr", f"'feature' attribute of the first mesh changed when another mesh was processed: edges {bad[:8]}")
            ctx.check(mesh_snapshot(m) == snap, "state:containers", "the first mesh changed when another mesh was processed")
    elif second in ("moved-same-detector", "moved-new-detector") and not case["pre_normals"]:
        # the vertices of the same mesh object are moved (anisotropic stretch: faces stay planar, angles change); a new run must see
        # the new geometry (nothing geometric may be remembered on the mesh or in the detector)
        ctx.label("second=" + second)
        st3 = np.array(case.get("stretch", [1.0, 1.0, 1.0]), dtype=float)
        V2 = (np.array(V, dtype=float) * st3).tolist()
        for i, p in enumerate(V2):
            m.vertices[i] = M.Vec(p)
        _, _, dots2, asum2 = own_geometry(V2, F, ref)
        d3, o3 = last if second == "moved-same-detector" else (make_detector(M, o, ctx), o)
        if d3 is not None and run_quiet(ctx, "rerun-moved", d3, o3, m):
            check_detector(ctx, M, m, d3, o3, ref, medges, dots2, hard, asum2, V2, False, f"run after moving the vertices of the mesh (stretch {st3.tolist()})", tol=tol)
        if B is not None:
            B = BorderRef(V2, F)
            B.eid = {e: i for i, e in enumerate(medges)}
    elif second in ("deepcopy-mesh", "pickle-mesh"):
        # a copy of the mesh (with everything the first run left on it) is a mesh like any other
        import copy, pickle
        try:
            m2 = copy.deepcopy(m) if second == "deepcopy-mesh" else pickle.loads(pickle.dumps(m))
        except Exception:
            m2 = None
            ctx.label("copy-failed")
        if m2 is not None:
            ctx.label("second=" + second)
            snap1 = det_snapshot(last[0])
            d3 = make_detector(M, o, ctx)
            if d3 is not None and run_quiet(ctx, "run-copy", d3, o, m2):
                check_detector(ctx, M, m2, d3, o, ref, medges, dots, hard, asum, V, False, f"run on a {second} of the mesh", tol=tol)
                ctx.check(det_snapshot(last[0]) == snap1 and mesh_snapshot(m) == snap, "feat:first-detector-changed",
                          "the first detector / mesh changed when a copy of the mesh was processed")
    elif second == "copy-detector":
        import copy, pickle
        try:
            d3 = copy.deepcopy(last[0]) if case["stretch"][0] < 1 else pickle.loads(pickle.dumps(last[0]))
        except Exception:
            d3 = None
            ctx.label("copy-failed")
        if d3 is not None:
            ctx.label("second=copy-detector")
            ctx.check(det_snapshot(d3) == det_snapshot(last[0]), "feat:copy", "a copy of the detector reports other containers than the original")
            if run_quiet(ctx, "rerun", d3, last[1], m):
                check_detector(ctx, M, m, d3, last[1], ref, medges, dots, hard, asum, V, False, "copy of the detector run again on the mesh", tol=tol)
    if B is not None and (want["sort_neighborhoods"] or UNSORTED_BORDER_ASSERTED):
        border_sequence(ctx, M, m, B, [("boundary", 0), ("all", 0), ("cycle_default", 0)], "after the detector:")
    # objects dropped and rebuilt: the SAME detector processes new mesh objects of identical element counts but other geometry (an
    # id()-keyed or per-detector cache would hand back the answers of a dead mesh whose address was recycled)
    nrec = int(case.get("recycle", 0))
    if nrec:
        import gc
        ctx.label("recycle")
        del m
        for k in range(nrec):
            gc.collect()
            st3 = np.array([[0.5, 1.0, 2.0], [2.0, 0.8, 0.5], [1.0, 1.0, 1.0]][k % 3], dtype=float)
            Vk = (np.array(V, dtype=float) * st3).tolist()
            mk = feature_mesh(M, Vk, F, E, "float")
            _, _, dk, ak = own_geometry(Vk, F, ref)
            hk = set(key(e) for e in E)
            if run_quiet(ctx, "run-recycled", det, o, mk):
                check_detector(ctx, M, mk, det, o, ref, [tuple(ints(e)) for e in mk.edges], dk, hk, ak, Vk, True,
                               f"same detector on rebuilt mesh #{k} (stretch {st3.tolist()}) after the previous mesh was dropped", tol=tol)
            del mk
    check_config(M, want, ctx, "after the detector runs")


# ============================================================================================ self test

def self_test():
    # reference loops of a 3x3 grid without its centre cell: two loops of 12 and 4 vertices
    V, F = G.grid(3, 3)
    F = [f for i, f in enumerate(F) if i != 4]
    r = SurfRef(len(V), F)
    L = r.border_loops()
    assert sorted(len(l) for l in L) == [4, 12] and len(r.border_edges()) == 16
    # own fold construction: prescribed angle is the angle between own normals
    for th in (0.0, 36.0, 60.0001, -90.0, 170.0):
        V = [[0.0, 0.0, 0.0], [1.0, 0.0, 0.0], [0.3, 0.9, 0.0]]; F = [[0, 1, 2]]
        attach(V, F, 1, 2, 0, th, 0.4, 0.8)
        rr = SurfRef(4, F)
        assert rr.validate() is None
        _, _, dots, asum = own_geometry(V, F, rr)
        assert len(dots) == 1 and abs(angle_of(list(dots.values())[0]) - abs(th)) < 1e-6, (th, dots)
        assert abs(sum(asum) - 2 * math.pi) < 1e-9
    for n, g in ((3, 60.0), (4, 36.87), (5, 60.0), (6, 20.0)):
        V, F = pyramid(n, g)
        rr = SurfRef(n + 1, F)
        _, _, dots, _ = own_geometry(V, F, rr)
        assert len(dots) == n and all(abs(angle_of(d) - g) < 1e-6 for d in dots.values()), (n, g, dots)


SUBCHECKS = [
    SubCheck("border", border_case(), fn_border, quick=3000, thorough=2500),
    SubCheck("features", feature_case(), fn_features, quick=5000, thorough=4000),
    SubCheck("border_large", border_case(big=True), fn_border, quick=160, thorough=400, watchdog=(60, 240)),
    SubCheck("features_large", feature_case(big=True), fn_features, quick=240, thorough=600, watchdog=(60, 240)),
    # size regime (well above any plausible internal threshold): border loops of 1e3 .. 6.6e4 vertices, detector on > 1000 interior vertices
    SubCheck("border_huge", border_huge_case(), fn_border_huge, quick=24, thorough=12, watchdog=(120, 300)),
    SubCheck("features_huge", feature_case(big=True, huge=True), fn_features, quick=8, thorough=6, watchdog=(120, 300)),
]

# ---- proposed known-finding matchers (only active when listed in known_findings.json)
def kf_boundary_map_direction(case, violation):
    """extract_boundary_of_surface returns {surface id: polyline id}; documented is {polyline id: surface id}.
    The signature only fires when the returned dict IS a consistent correspondence in the inverse direction."""
    return violation.sub_check in ("border", "border_large", "border_huge") and violation.signature == "boundary:map-direction"


def kf_boundary_component_attr(case, violation):
    """the 'component' vertex attribute of the boundary polyline is written at surface vertex ids"""
    return violation.sub_check in ("border", "border_large", "border_huge") and violation.signature == "boundary:component-attr"


MATCHERS = {"kf_boundary_map_direction": kf_boundary_map_direction, "kf_boundary_component_attr": kf_boundary_component_attr}
