"""C01 - surface connectivity answers agree with the face list, in any query order."""
import random
from collections import Counter
from hypothesis import strategies as st
from vlib.runner import SubCheck
from vlib import gen_surface as G
from vlib.topo import SurfRef, key, is_rotation_or_shift
from vlib.build import surface_from, polyline_from, ints

PROPERTY = "C01"
RULE = ("Generated oriented manifold polygon surfaces (15 base shapes incl. tori and connected sums, random face deletions / "
        "splits / merges / 1-3 splits / edge splits / flips, vertex renumbering, face permutation and rotation) x "
        "neighbourhood sorting on/off x a generated sequence of 10-60 connectivity queries on a fresh mesh (first query kind "
        "uniform over all kinds) followed by a full sweep of every kind over every element in a shuffled kind order on a second "
        "fresh mesh. Every answer is compared with a reference computed from the face list alone. Unused vertices are inserted at id "
        "0 / in the middle / at the end, a vertex attribute called 'border' with arbitrary flags may already be on the mesh, and the "
        "duplicate-attribute switch is drawn. Argument forms: element ids are handed over as plain int, numpy int64 or numpy int32 "
        "(per case; also in the polyline and the huge sub-check); the vertices of a face go to face_id unpacked, as ONE re-iterable "
        "container (list / tuple / numpy row / set / frozenset / dict keys / deque / the mesh's own face row) or as ONE one-shot "
        "iterator (iter / generator / map / reversed / itertools.chain) - drawn per query in the sequence, and in the sweep every face "
        "is asked once in each of the three classes; a re-iterable container is sometimes handed over twice; tuples that are no face = "
        "arbitrary vertices / a face without one vertex / a face plus one vertex; the return_inds flag goes by position or by name. "
        "Query kind 'chained': the arguments are the library's own answers handed on exactly as they came (half edge of a corner -> "
        "half_edge_to_corner / direct_face; vertices of a face -> face_id / in_face_index / vertex_to_corner_in_face; ends of an edge "
        "-> edge_id / other_edge_end / is_edge_on_border / edge_to_faces; ring of a vertex -> edge_id / direct_face / corner_to_face / "
        "next_corner; next_corner walk around a face), every intermediate and final answer compared with the reference. "
        "Size regime (huge): strips of 23300 / 33000 / 66000 quads (|V|^2 > 2**31, |V| or |F| > "
        "2**16), every edge id in both orientations, border lists, all query kinds sampled at both ends of the id ranges. non-trivial = "
        "the mesh has an interior edge and the sequence uses >=3 query kinds (huge: |V|^2 > 2**31); distinct = distinct (faces, sort "
        "flag, sequence).")
ASSUMPTIONS = ["input surfaces are oriented manifolds with a simple 1-skeleton and pairwise distinct face vertex sets "
               "(what the library's edge/face keys can represent)",
               "face_id accepts, besides the documented unpacked integers, ONE iterable of vertex ids (the library builds the key of a face "
               "row that way itself and reads the iterable once, so anything that can be iterated once is a valid carrier); a vertex "
               "tuple that is not the vertex set of a face gets None (docstring)",
               "ids may be numpy signed integers (int64 / int32) as well as int: that is what iterating numpy index arrays or the rows of a "
               "mesh built from numpy faces yields; unsigned and narrower types are not generated"]

KINDS = ["next_corner", "previous_corner", "opposite_corner", "corner_to_half_edge", "half_edge_to_corner", "corner_to_face",
         "direct_face", "direct_face_inds", "edge_to_faces", "opposite_face", "opposite_face_inds", "common_edge",
         "vertex_to_vertices", "vertex_to_faces", "vertex_to_corners", "vertex_to_edges", "vertex_to_corner_in_face",
         "face_to_vertices", "face_to_edges", "face_to_corners", "face_to_first_corner", "face_to_faces", "in_face_index",
         "face_id", "edge_id", "other_edge_end", "edge_to_vertices", "is_edge_on_border", "is_vertex_on_border",
         "boundary_edges", "boundary_vertices", "is_triangular", "clear_caches", "ith_vertex_of_face", "poke_invalid", "chained"]

# queries whose arguments are the library's own answers, handed on exactly as they came (whatever integer / sequence types it uses)
CHAINED = ("half-edge-of-corner", "vertices-of-face", "ends-of-edge", "ring-of-vertex", "walk-around-face")


@st.composite
def case_strategy(draw, max_faces=60):
    s = draw(G.surfaces(max_faces=max_faces, keep_isolated=draw(st.integers(0, 7)) == 0))
    # vertices that no face uses (id 0, a middle id, the last id): their rings are empty and they are not on the border
    V, F, tags = [list(v) for v in s["V"]], [list(f) for f in s["F"]], list(s["tags"])
    for _ in range(draw(st.sampled_from([0, 0, 0, 1, 2, 3]))):
        pos = draw(st.sampled_from([0, len(V) // 2, len(V)]))
        V.insert(pos, [float(draw(st.integers(-3, 3))), float(draw(st.integers(-3, 3))), 0.5])
        F = [[i + 1 if i >= pos else i for i in f] for f in F]
        if "unused-vertex-inserted" not in tags:
            tags.append("unused-vertex-inserted")
    s = {"V": V, "F": F, "tags": tags}
    nq = draw(st.integers(10, 60))
    first = draw(st.sampled_from(KINDS))
    rest = draw(st.lists(st.tuples(st.sampled_from(KINDS), st.integers(0, 10 ** 6), st.integers(0, 10 ** 6), st.integers(0, 10 ** 6)),
                         min_size=9, max_size=nq))
    q0 = [first, draw(st.integers(0, 10 ** 6)), draw(st.integers(0, 10 ** 6)), draw(st.integers(0, 10 ** 6))]
    return {"V": s["V"], "F": s["F"], "tags": s["tags"], "sort": draw(st.booleans()),
            "queries": [q0] + [list(q) for q in rest], "sweep_seed": draw(st.integers(0, 1000)),
            "declare_edges": draw(st.integers(0, 3)) == 0,
            # how the mesh object under test is produced: directly, or written to a file and loaded back
            "via": draw(st.sampled_from([None, None, None, "obj", "mesh", "geogram_ascii"])),
            # element ids handed to the queries as numpy integers (what loops over numpy arrays produce); face rows as list / tuple / numpy
            # (int64 / int32: both are what numpy index arrays hold, depending on the platform and on where the array comes from)
            "id_type": draw(st.sampled_from(["int", "int", "int", "int", "int64", "int32"])), "form": draw(st.sampled_from(["list", "list", "tuple", "numpy"])),
            # a vertex attribute called "border" (the name the mesh uses for its own flags) already on the mesh, with arbitrary flags;
            # the library-wide switch that makes create_attribute hand back an existing attribute
            "pre_border": draw(st.sampled_from([None, None, None, "bool", "bool", "int"])), "pre_border_seed": draw(st.integers(0, 1000)),
            "dup_warn": draw(st.integers(0, 3)) == 0}


# how integer ids are handed to the queries: plain int, or the numpy integer types loops over index arrays produce
ID_TYPES = ("int", "int64", "int32")

# how the vertices of a face are handed to face_id: unpacked integers, ONE re-iterable container, or ONE one-shot iterator
FACE_ID_FORMS = ["unpacked", "list", "tuple", "numpy", "set", "frozenset", "dict_keys", "deque", "own-row",
                 "iter", "generator", "map", "reversed", "chain"]
ONE_SHOT_FORMS = ("iter", "generator", "map", "reversed", "chain")
REITERABLE_FORMS = ("list", "tuple", "numpy", "set", "frozenset", "dict_keys", "deque", "own-row")
NONFACE_VARIANTS = ("arbitrary-triple", "face-minus-one-vertex", "face-plus-one-vertex")


def id_type_of(case):
    case = case or {}
    return case.get("id_type") or ("int64" if case.get("np_ids") else "int")


def id_conv(case):
    """None (plain int) or the numpy integer type the ids of this case are converted to"""
    t = id_type_of(case)
    if t == "int":
        return None
    import numpy as np
    return {"int64": np.int64, "int32": np.int32}[t]


def face_id_form(q):
    """the argument form a face_id query [kind, a, b, c] or [kind, a, b, c, form] uses (a function of the query alone; c is mixed so
    that the small values generators prefer spread over all forms)"""
    if len(q) > 4:
        return q[4]
    return FACE_ID_FORMS[((((q[3] // 4) * 2654435761) % 2 ** 32) >> 16) % len(FACE_ID_FORMS)]


def face_id_args(form, elems, own_row, rnd):
    """the positional arguments of face_id for vertex ids `elems` (a list) in the given form. own_row: the mesh's own row of that
    face (or None). One-shot forms can be read once only - a fresh one is made for every call."""
    if form == "unpacked":
        return tuple(elems)
    if form == "own-row" and own_row is None:
        form = "list"
    if form == "list": one = list(elems)
    elif form == "tuple": one = tuple(elems)
    elif form == "numpy":
        import numpy as np
        one = np.array([int(x) for x in elems], dtype=(np.int32 if rnd.randrange(2) else np.int64))
    elif form == "set": one = set(elems)
    elif form == "frozenset": one = frozenset(elems)
    elif form == "dict_keys": one = dict.fromkeys(elems).keys()
    elif form == "deque":
        import collections
        one = collections.deque(elems)
    elif form == "own-row": one = own_row
    elif form == "iter": one = iter(list(elems))
    elif form == "generator": one = (x for x in list(elems))
    elif form == "map": one = map(int, list(elems))
    elif form == "reversed": one = reversed(list(elems))
    elif form == "chain":
        import itertools
        k = rnd.randrange(len(elems) + 1)
        one = itertools.chain(list(elems)[:k], list(elems)[k:])
    else:
        raise AssertionError(form)
    return (one,)


def pick_pair(ref, medges, a, b):
    """a pair of vertices: mostly an existing edge (either orientation), sometimes an arbitrary pair"""
    if medges and a % 5 != 0:
        u, v = medges[(a // 5) % len(medges)]
        return (u, v) if b % 2 == 0 else (v, u)
    return (a // 5) % ref.nV, b % ref.nV


def do_query(m, ref, medges, eid, sort_on, q, ctx, where):
    """issue one query on mesh m and compare with the reference. q = [kind, a, b, c]"""
    kind, a, b, c = q[:4]
    C = m.connectivity
    nV, nF, nC = ref.nV, len(ref.F), ref.nC
    sig = "q:" + kind
    conv = id_conv(getattr(ctx, "case", None))
    in_sequence = where.startswith("query")

    def call(f, *args):
        if conv is not None:
            args = tuple(conv(x) if (isinstance(x, int) and not isinstance(x, bool)) else x for x in args)
        ok, val = ctx.call(sig, f, *args)
        return ok, val

    if kind in ("next_corner", "previous_corner", "opposite_corner", "corner_to_half_edge", "corner_to_face"):
        cn = a % nC
        ok, r = call(getattr(C, kind), cn)
        if not ok: return
        exp = {"next_corner": ref.next_corner, "previous_corner": ref.prev_corner, "opposite_corner": ref.opposite_corner,
               "corner_to_half_edge": ref.corner_he, "corner_to_face": lambda x: ref.corner_face[x]}[kind](cn)
        if kind == "corner_to_half_edge":
            r = None if r is None else tuple(ints(r))
        ctx.check(r == exp, sig, f"{where}: {kind}({cn}) = {r!r}, face list says {exp!r}")
    elif kind == "half_edge_to_corner":
        u, v = pick_pair(ref, medges, a, b)
        ok, r = call(C.half_edge_to_corner, u, v)
        if not ok: return
        o = ref.he.get((u, v))
        exp = None if o is None else ref.corner0[o[0]] + o[1]
        ctx.check(r == exp, sig, f"{where}: half_edge_to_corner({u},{v}) = {r!r}, expected {exp!r}")
    elif kind == "direct_face":
        u, v = pick_pair(ref, medges, a, b)
        ok, r = call(C.direct_face, u, v)
        if ok:
            ctx.check(r == ref.direct_face(u, v), sig, f"{where}: direct_face({u},{v}) = {r!r}, expected {ref.direct_face(u, v)!r}")
    elif kind == "direct_face_inds":
        u, v = pick_pair(ref, medges, a, b)
        # the flag by position (in-repo callers) or by its documented name
        if (a + b) % 3 == 0:
            ok, r = call(lambda x, y: C.direct_face(x, y, return_inds=True), u, v)
        else:
            ok, r = call(C.direct_face, u, v, True)
        if ok:
            ctx.check(tuple(r) == ref.direct_face_inds(u, v), sig, f"{where}: direct_face({u},{v},True) = {r!r}, expected {ref.direct_face_inds(u, v)!r}")
    elif kind == "edge_to_faces":
        u, v = pick_pair(ref, medges, a, b)
        ok, r = call(C.edge_to_faces, u, v)
        if ok:
            exp = (ref.direct_face(u, v), ref.direct_face(v, u))
            ctx.check(tuple(r) == exp, sig, f"{where}: edge_to_faces({u},{v}) = {r!r}, expected {exp!r}")
    elif kind in ("opposite_face", "opposite_face_inds"):
        u, v = pick_pair(ref, medges, a, b)
        f1, f2 = ref.direct_face(u, v), ref.direct_face(v, u)
        cands = [f for f in (f1, f2) if f is not None] + [c % nF]
        F = cands[c % len(cands)]
        if kind == "opposite_face":
            ok, r = call(C.opposite_face, u, v, F)
            if ok:
                exp = f2 if (F == f1 and f1 is not None) else f1 if (F == f2 and f2 is not None) else None
                ctx.check(r == exp, sig, f"{where}: opposite_face({u},{v},{F}) = {r!r}, expected {exp!r}")
        else:
            if (a + b + c) % 3 == 0:
                ok, r = call(lambda x, y, z: C.opposite_face(x, y, z, return_inds=True), u, v, F)
            else:
                ok, r = call(C.opposite_face, u, v, F, True)
            if ok:
                if F == f1 and f1 is not None:
                    of = f2
                elif F == f2 and f2 is not None:
                    of = f1
                else:
                    of = None
                if of is None:
                    exp = (None, None, None)
                else:
                    exp = (of, ref.F[of].index(u), ref.F[of].index(v))
                ctx.check(tuple(r) == exp, sig, f"{where}: opposite_face({u},{v},{F},True) = {r!r}, expected {exp!r}")
    elif kind == "common_edge":
        f1 = a % nF
        nb = ref.face_neighbours(f1)
        f2 = nb[b % len(nb)] if (nb and c % 3 != 0) else b % nF
        ok, r = call(C.common_edge, f1, f2)
        if ok:
            r = tuple(r)
            shared = [e for e in ref.uedges if {ref.direct_face(*e), ref.direct_face(e[1], e[0])} == {f1, f2}] if f1 != f2 else []
            if shared:
                ctx.check(r[0] is not None and key(r) in shared, sig, f"{where}: common_edge({f1},{f2}) = {r!r}, shared edges {shared}")
            else:
                ctx.check(r == (None, None), sig, f"{where}: common_edge({f1},{f2}) = {r!r} but the faces share no edge")
    elif kind in ("vertex_to_vertices", "vertex_to_faces", "vertex_to_corners", "vertex_to_edges"):
        v = a % nV
        ok, r = call(getattr(C, kind), v)
        if not ok: return
        r = list(r) if r is not None else None
        ring = ref.ring(v)
        closed, rf, rv = ring
        exp = {"vertex_to_vertices": rv, "vertex_to_faces": rf,
               "vertex_to_corners": [ref.corner_of(v, f) for f in rf],
               "vertex_to_edges": [eid.get(key(v, w)) for w in rv]}[kind]
        if kind in ("vertex_to_vertices", "vertex_to_edges"):
            # all edge-neighbours: ring vertices are exactly the edge neighbours for a manifold vertex
            pass
        if r is None:
            ctx.check(False, sig, f"{where}: {kind}({v}) returned None")
            return
        r = ints(r)
        if not ctx.check(Counter(r) == Counter(exp), sig, f"{where}: {kind}({v}) = {r}, as a multiset the face list gives {exp}"):
            return
        if sort_on:
            ctx.check(is_rotation_or_shift(r, exp, cyclic=closed), sig + ":order",
                      f"{where}: {kind}({v}) = {r} is not in rotational order; reference ({'cyclic' if closed else 'path'}) {exp}")
    elif kind == "vertex_to_corner_in_face":
        v = a % nV
        fs = ref.v2f.get(v, [])
        f = fs[b % len(fs)] if (fs and c % 3 != 0) else b % nF
        ok, r = call(C.vertex_to_corner_in_face, v, f)
        if ok:
            ctx.check(r == ref.corner_of(v, f), sig, f"{where}: vertex_to_corner_in_face({v},{f}) = {r!r}, expected {ref.corner_of(v, f)!r}")
    elif kind == "face_to_vertices":
        f = a % nF
        ok, r = call(C.face_to_vertices, f)
        if ok:
            ctx.check(ints(r) == list(ref.F[f]), sig, f"{where}: face_to_vertices({f}) = {r}")
    elif kind == "face_to_edges":
        f = a % nF
        ok, r = call(C.face_to_edges, f)
        if ok:
            fl = ref.F[f]; n = len(fl)
            exp = [eid.get(key(fl[i], fl[(i + 1) % n])) for i in range(n)]
            ctx.check(list(r) == exp, sig, f"{where}: face_to_edges({f}) = {r}, expected {exp}")
    elif kind == "face_to_corners":
        f = a % nF
        ok, r = call(C.face_to_corners, f)
        if ok:
            exp = [ref.corner0[f] + i for i in range(len(ref.F[f]))]
            ctx.check(ints(r) == exp, sig, f"{where}: face_to_corners({f}) = {r}, expected {exp}")
    elif kind == "face_to_first_corner":
        f = a % nF
        ok, r = call(C.face_to_first_corner, f)
        if ok:
            ctx.check(r == ref.corner0[f], sig, f"{where}: face_to_first_corner({f}) = {r}, expected {ref.corner0[f]}")
    elif kind == "face_to_faces":
        f = a % nF
        ok, r = call(C.face_to_faces, f)
        if ok:
            ctx.check(sorted(ints(r)) == ref.face_neighbours(f), sig, f"{where}: face_to_faces({f}) = {r}, expected (multiset) {ref.face_neighbours(f)}")
    elif kind == "in_face_index":
        f = a % nF
        fl = ref.F[f]
        v = fl[b % len(fl)] if c % 3 != 0 else b % nV
        ok, r = call(C.in_face_index, f, v)
        if ok:
            exp = fl.index(v) if v in fl else None
            ctx.check(r == exp, sig, f"{where}: in_face_index({f},{v}) = {r!r}, expected {exp!r}")
    elif kind == "face_id":
        f = a % nF
        fl = list(ref.F[f])
        rnd = random.Random(b)
        rnd.shuffle(fl)
        form = face_id_form(q)
        own_row = None
        if c % 4 == 0:
            # a vertex tuple that is (most likely) not a face: arbitrary vertices, a face without one of its vertices, a face and one more vertex
            variant = NONFACE_VARIANTS[(c // 4 + b) % len(NONFACE_VARIANTS)]
            if variant == "face-minus-one-vertex":
                fl = fl[1:]
            elif variant == "face-plus-one-vertex" and len(set(ref.F[f])) < nV:
                others = [x for x in range(nV) if x not in ref.F[f]]
                fl.insert(rnd.randrange(len(fl) + 1), others[b % len(others)])
            else:
                variant = "arbitrary-triple"
                fl = [x % nV for x in (a, b, c)]
            if in_sequence: ctx.label("seq:face_id-non-face=" + variant)
        elif form == "own-row":
            # the mesh's own row of that face, exactly as the face container hands it out
            ok, own_row = ctx.call(sig, lambda: m.faces[f])
            if not ok: return
            fl = list(ref.F[f])
        if in_sequence: ctx.label("seq:face_id-arg=" + form)
        elems = fl if conv is None or form == "own-row" else [conv(x) for x in fl]
        fl = [int(x) for x in fl]
        args = face_id_args(form, elems, own_row, rnd)
        if form == "unpacked":
            ok, r = ctx.call(sig, C.face_id, *args)
        else:
            # the docstring documents unpacked integers only; one container / iterator is accepted through utils.keyify's one-argument
            # branch. A library that REJECTS such a form (TypeError / ValueError) is within its rights - what it may not do is accept it
            # and answer something else than the face list says.
            try:
                ok, r = True, C.face_id(*args)
            except (TypeError, ValueError):
                ctx.label("face_id:container-form-rejected")
                return
            except Exception:
                ok, r = ctx.call(sig, C.face_id, *face_id_args(form, elems, own_row, rnd))
        if ok and form in REITERABLE_FORMS and rnd.randrange(3) == 0:
            # the very same container handed over a second time: it can be read as often as one likes, so the answer is the same
            ok, r2 = ctx.call(sig, C.face_id, *args)
            if ok and not ctx.check(r2 == r, sig + ":same-argument-twice",
                                    f"{where}: face_id of the same {form} of vertices {fl} answered {r!r}, then {r2!r}"):
                return
        if ok:
            fmap = getattr(ref, "_face_by_key", None)
            if fmap is None:
                fmap = {}
                for k2, g in enumerate(ref.F):
                    fmap[key(g)] = k2          # (face vertex sets are pairwise distinct; the last one would win as before)
                ref._face_by_key = fmap
            exp = fmap.get(key(fl))
            how = f"face_id{tuple(fl)}" if form == "unpacked" else f"face_id(<{form} of {fl}>)"
            ctx.check(r == exp, sig, f"{where}: {how} = {r!r}, expected {exp!r} (ids as {id_type_of(getattr(ctx, 'case', None))})")
    elif kind == "edge_id":
        u, v = pick_pair(ref, medges, a, b)
        ok, r = call(C.edge_id, u, v)
        ok2, r2 = call(C.edge_id, v, u)
        if ok and ok2:
            exp = eid.get(key(u, v)) if u != v else None
            ctx.check(r == exp and r2 == exp, sig, f"{where}: edge_id({u},{v}) = {r!r}, edge_id({v},{u}) = {r2!r}, expected {exp!r}")
    elif kind == "other_edge_end":
        if not medges: return
        e = a % len(medges)
        u, v = medges[e]
        w = [u, v, b % nV][c % 3]
        ok, r = call(C.other_edge_end, e, w)
        if ok:
            exp = v if w == u else u if w == v else None
            ctx.check(r == exp, sig, f"{where}: other_edge_end({e},{w}) = {r!r}, expected {exp!r}")
    elif kind == "edge_to_vertices":
        if not medges: return
        e = a % len(medges)
        ok, r = call(C.edge_to_vertices, e)
        if ok:
            ctx.check(tuple(ints(r)) == medges[e], sig, f"{where}: edge_to_vertices({e}) = {r!r}")
    elif kind == "is_edge_on_border":
        u, v = pick_pair(ref, medges, a, b)
        ok, r = call(m.is_edge_on_border, u, v)
        if ok:
            ctx.check(bool(r) == ref.edge_on_border(u, v), sig, f"{where}: is_edge_on_border({u},{v}) = {r!r}, expected {ref.edge_on_border(u, v)}")
    elif kind == "is_vertex_on_border":
        v = a % nV
        ok, r = call(m.is_vertex_on_border, v)
        if ok:
            ctx.check(bool(r) == (v in ref.border_vertices()), sig, f"{where}: is_vertex_on_border({v}) = {r!r}")
    elif kind == "boundary_edges":
        ok, be = call(lambda: m.boundary_edges)
        ok2, ie = call(lambda: m.interior_edges)
        if ok and ok2:
            be, ie = ints(be), ints(ie)
            expb = sorted(eid[e] for e in ref.border_edges())
            ctx.check(sorted(be) == expb and len(set(be)) == len(be), sig, f"{where}: boundary_edges = {be}, expected {expb}")
            ctx.check(sorted(be + ie) == list(range(len(medges))), sig, f"{where}: boundary/interior edges do not partition the edge range: {be} / {ie}")
    elif kind == "boundary_vertices":
        ok, bv = call(lambda: m.boundary_vertices)
        ok2, iv = call(lambda: m.interior_vertices)
        if ok and ok2:
            bv, iv = ints(bv), ints(iv)
            ctx.check(sorted(bv) == sorted(ref.border_vertices()) and len(set(bv)) == len(bv), sig, f"{where}: boundary_vertices = {bv}, expected {sorted(ref.border_vertices())}")
            ctx.check(sorted(bv + iv) == list(range(nV)), sig, f"{where}: boundary/interior vertices do not partition the vertex range")
    elif kind == "is_triangular":
        ok, t = call(m.is_triangular)
        ok2, q4 = call(m.is_quad)
        if ok and ok2:
            ar = set(len(f) for f in ref.F)
            ctx.check(bool(t) == (ar == {3}) and bool(q4) == (ar == {4}), sig, f"{where}: is_triangular={t} is_quad={q4} for arities {ar}")
    elif kind == "clear_caches":
        # documented resets: the next query regenerates the internal tables; no answer may change
        if a % 2 == 0:
            call(C.clear)
        if a % 3 != 1:
            call(m.clear_boundary_data)
    elif kind == "poke_invalid":
        # a query about an element that does not exist: whatever it answers or raises, later answers must not change
        bad = [(C.vertex_to_faces, (nV + 1 + a % 3,)), (C.vertex_to_vertices, (nV + a % 4,)), (C.face_to_vertices, (nF + a % 3,)),
               (C.next_corner, (nC + 2,)), (C.opposite_corner, (-1 - a % 2,)), (C.face_to_edges, (nF + 1,)), (C.face_to_faces, (nF,)),
               (C.direct_face, (nV + 1, 0)), (C.edge_id, (nV + 2, nV + 3)), (C.in_face_index, (nF + 1, 0)), (m.is_vertex_on_border, (nV + 5,)),
               (C.vertex_to_corner_in_face, (nV, nF)), (C.face_id, (nV, nV + 1, nV + 2)), (C.other_edge_end, (len(medges) + 1, 0))]
        f_, args_ = bad[b % len(bad)]
        try:
            f_(*args_)
        except Exception:
            pass
    elif kind == "ith_vertex_of_face":
        f = a % nF
        i = b % len(ref.F[f])
        ok, r = call(m.ith_vertex_of_face, f, i)
        if ok:
            ctx.check(int(r) == ref.F[f][i], sig, f"{where}: ith_vertex_of_face({f},{i}) = {r}")
    elif kind == "chained":
        variant = CHAINED[c % len(CHAINED)]
        if in_sequence: ctx.label("seq:chained=" + variant)
        sig = "q:chained:" + variant
        if variant == "half-edge-of-corner":
            cn = a % nC
            ok, h = ctx.call(sig, C.corner_to_half_edge, cn)
            if not ok: return
            exp = ref.corner_he(cn)
            if not ctx.check(h is not None and len(h) == 2 and tuple(ints(h)) == exp, sig, f"{where}: corner_to_half_edge({cn}) = {h!r}, face list says {exp!r}"):
                return
            ok, r = ctx.call(sig, C.half_edge_to_corner, *h)
            if ok:
                ctx.check(r == cn, sig, f"{where}: half_edge_to_corner(*corner_to_half_edge({cn})) = {r!r} (half edge {h!r})")
            ok, r = ctx.call(sig, C.direct_face, *h)
            if ok:
                ctx.check(r == ref.corner_face[cn], sig, f"{where}: direct_face(*corner_to_half_edge({cn})) = {r!r}, the corner is in face {ref.corner_face[cn]}")
        elif variant == "vertices-of-face":
            f = a % nF
            ok, row = ctx.call(sig, C.face_to_vertices, f)
            if not ok: return
            if not ctx.check(ints(row) == list(ref.F[f]), sig, f"{where}: face_to_vertices({f}) = {row!r}"):
                return
            ok, r = ctx.call(sig, C.face_id, *row)
            try:                                   # one container: undocumented form, "rejected or right" (see the face_id kind)
                ok2, r2 = True, C.face_id(row)
            except (TypeError, ValueError):
                ctx.label("face_id:container-form-rejected")
                ok2, r2 = True, f
            except Exception:
                ok2, r2 = ctx.call(sig, C.face_id, row)
            if ok and ok2:
                # (C13 also feeds surfaces with two faces on one vertex set, e.g. a pillow of two triangles: the key of a face cannot
                # tell them apart, so any face with exactly these vertices is a right answer)
                bykey = getattr(ref, "_faces_by_key", None)
                if bykey is None:
                    bykey = {}
                    for g2, fl2 in enumerate(ref.F):
                        bykey.setdefault(key(fl2), []).append(g2)
                    ref._faces_by_key = bykey
                same = bykey[key(ref.F[f])]
                ctx.check(r in same and r2 in same, sig, f"{where}: face_id(*face_to_vertices({f})) = {r!r}, face_id(face_to_vertices({f})) = {r2!r}, faces with these vertices: {same}")
            i = b % len(row)
            ok, r = ctx.call(sig, C.in_face_index, f, row[i])
            if ok:
                ctx.check(r == i, sig, f"{where}: in_face_index({f}, face_to_vertices({f})[{i}]) = {r!r}")
            ok, r = ctx.call(sig, C.vertex_to_corner_in_face, row[i], f)
            if ok:
                ctx.check(r == ref.corner0[f] + i, sig, f"{where}: vertex_to_corner_in_face(face_to_vertices({f})[{i}], {f}) = {r!r}, expected {ref.corner0[f] + i}")
        elif variant == "ends-of-edge":
            if not medges: return
            e = a % len(medges)
            ok, pr = ctx.call(sig, (lambda: m.edges[e]) if b % 2 else (lambda: C.edge_to_vertices(e)))
            if not ok: return
            if not ctx.check(pr is not None and len(pr) == 2 and tuple(ints(pr)) == medges[e], sig, f"{where}: the ends of edge {e} are given as {pr!r}, edge container says {medges[e]}"):
                return
            u, v = medges[e]
            ok, r = ctx.call(sig, C.edge_id, *pr)
            ok2, r2 = ctx.call(sig, C.edge_id, pr[1], pr[0])
            if ok and ok2:
                ctx.check(r == e and r2 == e, sig, f"{where}: edge_id of the ends {pr!r} of edge {e} = {r!r} / reversed {r2!r}")
            ok, r = ctx.call(sig, C.other_edge_end, e, pr[0])
            if ok:
                ctx.check(r == v, sig, f"{where}: other_edge_end({e}, {pr[0]!r}) = {r!r}, expected {v}")
            ok, r = ctx.call(sig, m.is_edge_on_border, *pr)
            if ok:
                ctx.check(bool(r) == ref.edge_on_border(u, v), sig, f"{where}: is_edge_on_border{tuple(pr)!r} = {r!r}, expected {ref.edge_on_border(u, v)}")
            ok, r = ctx.call(sig, C.edge_to_faces, *pr)
            if ok:
                exp = (ref.direct_face(u, v), ref.direct_face(v, u))
                ctx.check(r is not None and tuple(r) == exp, sig, f"{where}: edge_to_faces{tuple(pr)!r} = {r!r}, expected {exp!r}")
        elif variant == "ring-of-vertex":
            v = a % nV
            ok, ws = ctx.call(sig, C.vertex_to_vertices, v)
            ok2, cs = ctx.call(sig, C.vertex_to_corners, v)
            if not (ok and ok2): return
            closed, rf, rv = ref.ring(v)
            if not ctx.check(ws is not None and cs is not None and Counter(ints(ws)) == Counter(rv) and Counter(ints(cs)) == Counter(ref.corner_of(v, f) for f in rf),
                             sig, f"{where}: vertex_to_vertices({v}) = {ws!r}, vertex_to_corners({v}) = {cs!r}; face list gives {rv} / faces {rf}"):
                return
            for w in list(ws):
                ok, r = ctx.call(sig, C.edge_id, v, w)
                if ok:
                    ctx.check(r == eid.get(key(v, int(w))), sig, f"{where}: edge_id({v}, {w!r}) = {r!r} for a neighbour of {v}, expected {eid.get(key(v, int(w)))!r}")
                ok, r = ctx.call(sig, C.direct_face, v, w)
                if ok:
                    ctx.check(r == ref.direct_face(v, int(w)), sig, f"{where}: direct_face({v}, {w!r}) = {r!r}, expected {ref.direct_face(v, int(w))!r}")
            for cn in list(cs):
                ok, r = ctx.call(sig, C.corner_to_face, cn)
                ok2, r2 = ctx.call(sig, C.next_corner, cn)
                if ok and ok2:
                    ctx.check(r == ref.corner_face[int(cn)] and r2 == ref.next_corner(int(cn)), sig,
                              f"{where}: corner {cn!r} of vertex {v}: corner_to_face = {r!r}, next_corner = {r2!r}; expected {ref.corner_face[int(cn)]} / {ref.next_corner(int(cn))}")
        else:
            # walk around a face with the library's own answers: next_corner ... back to the start, previous_corner undoes every step
            f = a % nF
            ok, cn = ctx.call(sig, C.face_to_first_corner, f)
            if not ok: return
            if not ctx.check(cn == ref.corner0[f], sig, f"{where}: face_to_first_corner({f}) = {cn!r}, expected {ref.corner0[f]}"):
                return
            cur, refcur = cn, ref.corner0[f]
            for _ in range(len(ref.F[f])):
                ok, nx = ctx.call(sig, C.next_corner, cur)
                if not ok: return
                refnx = ref.next_corner(refcur)
                if not ctx.check(nx == refnx, sig, f"{where}: walking around face {f}: next_corner({cur!r}) = {nx!r}, expected {refnx}"):
                    return
                ok, bk = ctx.call(sig, C.previous_corner, nx)
                ok2, fc = ctx.call(sig, C.corner_to_face, nx)
                if ok and ok2:
                    if not ctx.check(bk == refcur and fc == f, sig, f"{where}: walking around face {f}: previous_corner({nx!r}) = {bk!r} (expected {refcur}), corner_to_face({nx!r}) = {fc!r}"):
                        return
                cur, refcur = nx, refnx
            ctx.check(cur == cn, sig, f"{where}: {len(ref.F[f])} next_corner steps from corner {cn!r} of face {f} end at {cur!r}")
    else:
        raise AssertionError(kind)


def build(case):
    import mouette as M
    M.config.display_duplicate_attribute_warning = bool(case.get("dup_warn", False))
    m = _build(case)
    if case.get("pre_border"):
        rnd = random.Random(case.get("pre_border_seed", 0))
        typ = bool if case["pre_border"] == "bool" else int
        a = m.vertices.create_attribute("border", typ, dense=bool(rnd.randrange(2)))
        for v in range(len(m.vertices)):
            if rnd.randrange(2):
                a[v] = typ(1)
    return m


def _build(case):
    import mouette as M
    M.config.sort_neighborhoods = bool(case["sort"])
    E = None
    if case.get("declare_edges"):
        # declare (some of) the face sides explicitly, in reversed orientation: they must be the same edges
        ref = SurfRef(len(case["V"]), case["F"])
        E = [(b, a) for (a, b) in sorted(ref.uedges)][::2]
    m = surface_from(case["V"], case["F"], E, case.get("form", "list"))
    via = case.get("via")
    if via:
        import os, tempfile, shutil
        d = tempfile.mkdtemp(prefix="c01_")
        try:
            p = os.path.join(d, "m." + via)
            try:
                M.mesh.save(m, p)
                m2 = M.mesh.load(p)
            except Exception:
                return m          # what saves / loads is C04's business
        finally:
            shutil.rmtree(d, ignore_errors=True)
        # only a faithful reload (same faces in the same order, same number of vertices) is used here
        if (type(m2).__name__ == "SurfaceMesh" and [tuple(ints(f)) for f in m2.faces] == [tuple(f) for f in case["F"]]
                and len(m2.vertices) == len(case["V"])):
            return m2
    return m


def edges_of(m, ref, ctx):
    medges = [tuple(ints(e)) for e in m.edges]
    ok = ctx.check(len(set(medges)) == len(medges) and set(medges) == ref.uedges and all(a < b for a, b in medges), "edges",
                   f"edge container is not 'every side of every face exactly once, low index first': {medges[:20]}...")
    return medges, ok


def fn(case, ctx):
    V, F = case["V"], case["F"]
    ref = SurfRef(len(V), F)
    err = ref.validate()
    if err is not None:
        raise AssertionError("invalid generated case: " + err)
    for t in case.get("tags", []):
        ctx.label(t)
    ctx.label("sort=" + str(case["sort"]), "via=" + str(case.get("via")), "ids=" + id_type_of(case), "form=" + case.get("form", "list"))
    ctx.label("first=" + case["queries"][0][0])
    if case["queries"][0][0] == "face_id":
        ctx.label("first=face_id:" + ("one-shot-iterator" if face_id_form(case["queries"][0]) in ONE_SHOT_FORMS else
                                      "unpacked" if face_id_form(case["queries"][0]) == "unpacked" else "one-container"))
    if case.get("pre_border"): ctx.label("pre-existing-border-attribute=" + case["pre_border"])
    if case.get("dup_warn"): ctx.label("duplicate-attribute-switch-on")
    has_inner = any(not ref.edge_on_border(*e) for e in ref.uedges)
    kinds = set(q[0] for q in case["queries"])
    ctx.nontrivial(has_inner and len(kinds) >= 3)

    # 1. the generated query sequence on a fresh mesh
    m = build(case)
    medges, ok = edges_of(m, ref, ctx)
    if not ok:
        return
    eid = {e: i for i, e in enumerate(medges)}
    for i, q in enumerate(case["queries"]):
        do_query(m, ref, medges, eid, case["sort"], q, ctx, f"query #{i} (after {[x[0] for x in case['queries'][:i]][-3:]})")

    # 2. full sweep of every kind over every element, kinds in shuffled order, on a second fresh mesh
    m2 = build(case)
    rnd = random.Random(case["sweep_seed"])
    kinds = [k for k in KINDS if k != "chained"]
    rnd.shuffle(kinds)
    kinds.insert(random.Random(case["sweep_seed"] + 7919).randrange(len(kinds) + 1), "chained")   # (keeps the order of the other kinds of saved cases)
    nV, nF, nC, nE = len(V), len(F), ref.nC, len(medges)
    for kind in kinds:
        if kind in ("next_corner", "previous_corner", "opposite_corner", "corner_to_half_edge", "corner_to_face"):
            qs = [[kind, c, 0, 0] for c in range(nC)]
        elif kind in ("half_edge_to_corner", "direct_face", "direct_face_inds", "edge_to_faces", "edge_id", "is_edge_on_border"):
            qs = [[kind, 5 * e + 1, o, 0] for e in range(nE) for o in (0, 1)] + [[kind, 5 * rnd.randrange(nV), rnd.randrange(nV), 0] for _ in range(3)]
        elif kind in ("opposite_face", "opposite_face_inds"):
            qs = [[kind, 5 * e + 1, o, c] for e in range(nE) for o in (0, 1) for c in (0, 1, 2)]
        elif kind == "common_edge":
            qs = [[kind, f, j, 1] for f in range(nF) for j in range(len(F[f]))] + [[kind, f, rnd.randrange(nF), 0] for f in range(nF)]
        elif kind in ("vertex_to_vertices", "vertex_to_faces", "vertex_to_corners", "vertex_to_edges", "is_vertex_on_border"):
            qs = [[kind, v, 0, 0] for v in range(nV)]
        elif kind == "vertex_to_corner_in_face":
            qs = [[kind, v, j, 1] for v in range(nV) for j in range(len(ref.v2f.get(v, [])))] + [[kind, rnd.randrange(nV), rnd.randrange(nF), 0] for _ in range(5)]
        elif kind in ("face_to_vertices", "face_to_edges", "face_to_corners", "face_to_first_corner", "face_to_faces"):
            qs = [[kind, f, 0, 0] for f in range(nF)]
        elif kind == "in_face_index":
            qs = [[kind, f, j, 1] for f in range(nF) for j in range(len(F[f]))] + [[kind, f, rnd.randrange(nV), 0] for f in range(nF)]
        elif kind == "face_id":
            # every face: unpacked, as one re-iterable container, as one one-shot iterator (forms drawn per face); tuples that are no face in drawn forms
            qs = []
            for f in range(nF):
                for form in ("unpacked", rnd.choice(REITERABLE_FORMS), rnd.choice(ONE_SHOT_FORMS)):
                    qs.append([kind, f, rnd.randrange(100), 1, form])
            qs += [[kind, rnd.randrange(10 ** 4), rnd.randrange(10 ** 4), 4 * rnd.randrange(10 ** 4)] for _ in range(9)]
            rnd.shuffle(qs)
        elif kind == "chained":
            qs = ([[kind, c, 0, 0] for c in range(nC)] + [[kind, f, rnd.randrange(8), 1] for f in range(nF)] + [[kind, e, rnd.randrange(2), 2] for e in range(nE)]
                  + [[kind, v, 0, 3] for v in range(nV)] + [[kind, f, 0, 4] for f in range(nF)])
            rnd.shuffle(qs)
        elif kind in ("other_edge_end",):
            qs = [[kind, e, rnd.randrange(nV), c] for e in range(nE) for c in (0, 1, 2)]
        elif kind == "edge_to_vertices":
            qs = [[kind, e, 0, 0] for e in range(nE)]
        elif kind == "ith_vertex_of_face":
            qs = [[kind, f, j, 0] for f in range(nF) for j in range(len(F[f]))]
        elif kind == "clear_caches":
            qs = [[kind, rnd.randrange(6), 0, 0]]
        elif kind == "poke_invalid":
            qs = [[kind, rnd.randrange(12), rnd.randrange(40), 0] for _ in range(3)]
        else:
            qs = [[kind, 0, 0, 0]]
        for q in qs:
            do_query(m2, ref, medges, eid, case["sort"], q, ctx, f"sweep (kind order {kinds[:kinds.index(kind) + 1][-3:]})")


# ----------------------------------------------------------------------------- polylines (1-skeleton queries)

@st.composite
def polyline_case(draw):
    n = draw(st.integers(1, 12))
    kind = draw(st.sampled_from(["path", "cycle", "tree", "graph"]))
    E = []
    if kind == "path":
        E = [(i, i + 1) for i in range(n - 1)]
    elif kind == "cycle" and n >= 3:
        E = [(i, (i + 1) % n) for i in range(n)]
    elif kind == "tree":
        E = [(draw(st.integers(0, i - 1)), i) for i in range(1, n)]
    else:
        pairs = [(i, j) for i in range(n) for j in range(i)]
        if pairs:
            E = draw(st.lists(st.sampled_from(pairs), unique=True, max_size=20))
    E = [list(e) if draw(st.booleans()) else [e[1], e[0]] for e in E]
    V = [[float(i), float(i * i % 5), 0.0] for i in range(n)]
    return {"V": V, "E": E, "seed": draw(st.integers(0, 1000)), "id_type": draw(st.sampled_from(["int", "int", "int64", "int32"]))}


def fn_polyline(case, ctx):
    V, E = case["V"], [tuple(e) for e in case["E"]]
    rnd = random.Random(case["seed"])
    kinds = ["edge_id", "other_edge_end", "vertex_to_vertices", "vertex_to_edges", "edge_to_vertices"]
    rnd.shuffle(kinds)
    m = polyline_from(V, E)
    C = m.connectivity
    conv = id_conv(case) or int          # ids as plain int or as numpy integers
    ctx.label("ids=" + id_type_of(case))
    medges = [tuple(ints(e)) for e in m.edges]
    ctx.check(medges == [key(e) for e in E], "polyline:edges", f"edges {medges} vs declared {E}")
    eid = {e: i for i, e in enumerate(medges)}
    nbr = {v: set() for v in range(len(V))}
    for a, b in medges:
        nbr[a].add(b); nbr[b].add(a)
    ctx.nontrivial(len(E) >= 2)
    ctx.label("first=" + kinds[0])
    for kind in kinds:
        if kind == "edge_id":
            for u in range(len(V)):
                for v in range(len(V)):
                    ok, r = ctx.call("polyline:edge_id", C.edge_id, conv(u), conv(v))
                    if ok:
                        exp = eid.get(key(u, v)) if u != v else None
                        ctx.check(r == exp, "polyline:edge_id", f"edge_id({u},{v}) = {r!r}, expected {exp!r} (kind order {kinds})")
        elif kind == "other_edge_end":
            for e, (a, b) in enumerate(medges):
                for w in range(len(V)):
                    ok, r = ctx.call("polyline:other_edge_end", C.other_edge_end, conv(e), conv(w))
                    if ok:
                        exp = b if w == a else a if w == b else None
                        ctx.check(r == exp, "polyline:other_edge_end", f"other_edge_end({e},{w}) = {r!r}")
        elif kind == "vertex_to_vertices":
            for v in range(len(V)):
                ok, r = ctx.call("polyline:v2v", C.vertex_to_vertices, conv(v))
                if ok:
                    ctx.check(sorted(ints(r)) == sorted(nbr[v]), "polyline:v2v", f"vertex_to_vertices({v}) = {r}, expected {sorted(nbr[v])} (kind order {kinds})")
        elif kind == "vertex_to_edges":
            for v in range(len(V)):
                ok, r = ctx.call("polyline:v2e", C.vertex_to_edges, conv(v))
                if ok:
                    ctx.check(sorted(r) == sorted(eid[key(v, w)] for w in nbr[v]), "polyline:v2e", f"vertex_to_edges({v}) = {r} (kind order {kinds})")
        elif kind == "edge_to_vertices":
            for e in range(len(medges)):
                ok, r = ctx.call("polyline:e2v", C.edge_to_vertices, conv(e))
                if ok and ctx.check(r is not None and len(r) == 2 and tuple(ints(r)) == medges[e], "polyline:e2v", f"edge_to_vertices({e}) = {r}"):
                    # the answer handed on as it came
                    ok, r2 = ctx.call("polyline:chained", C.edge_id, *r)
                    ok2, r3 = ctx.call("polyline:chained", C.other_edge_end, e, r[1])
                    if ok and ok2:
                        ctx.check(r2 == e and r3 == medges[e][0], "polyline:chained",
                                  f"edge_id(*edge_to_vertices({e})) = {r2!r}, other_edge_end({e}, edge_to_vertices({e})[1]) = {r3!r}; edge {e} is {medges[e]} (kind order {kinds})")


# ----------------------------------------------------------------------------- size regime: ids and products beyond 2**16 / 2**31

@st.composite
def huge_case(draw):
    # a strip of n quads (optionally split into triangles): 2n+2 vertices, 3n+1 (4n+1) edges. n = 23300 -> |V|^2 > 2**31;
    # n = 33000 -> |V| > 2**16; n = 66000 -> |F| > 2**16 and |V|^2 > 2**32. A recipe realised in fn.
    return {"n": draw(st.sampled_from([66000, 23300, 33000, 66000])), "tri": draw(st.booleans()), "sort": draw(st.booleans()),
            "reverse_faces": draw(st.booleans()), "reverse_vertices": draw(st.booleans()), "seed": draw(st.integers(0, 10 ** 6)),
            "id_type": draw(st.sampled_from(["int", "int64", "int32"]))}


def fn_huge(case, ctx):
    import mouette as M
    n = case["n"]
    nV = 2 * n + 2
    V = [[float(i // 2), float(i % 2), 0.0] for i in range(nV)]
    F = []
    for i in range(n):
        q = [2 * i, 2 * i + 2, 2 * i + 3, 2 * i + 1]
        if case["tri"]:
            F += [[q[0], q[1], q[2]], [q[0], q[2], q[3]]]
        else:
            F.append(q)
    if case["reverse_vertices"]:
        V = V[::-1]; F = [[nV - 1 - v for v in f] for f in F]
        F = [f[::-1] for f in F]          # keep the orientation (the renumbering mirrored the strip)
    if case["reverse_faces"]:
        F = F[::-1]
    ref = SurfRef(nV, F)
    c2 = dict(case); c2.update({"V": V, "F": F, "form": "list"})
    m = _build(c2)
    ctx.label(f"n={n}", "tri" if case["tri"] else "quad", "sort=" + str(case["sort"]), "ids=" + id_type_of(case))
    ctx.nontrivial(nV * nV > 2 ** 31)
    medges, ok = edges_of(m, ref, ctx)
    if not ok:
        return
    eid = {e: i for i, e in enumerate(medges)}
    C = m.connectivity
    nE, nF, nC = len(medges), len(F), ref.nC
    # every edge id, both orientations (packed keys a*|V|+b exceed 2**31 / 2**32 here)
    conv = id_conv(case) or int
    for i, (a, b) in enumerate(medges):
        r1, r2 = C.edge_id(conv(a), conv(b)), C.edge_id(conv(b), conv(a))
        if not ctx.check(r1 == i and r2 == i, "huge:edge_id", f"strip of {n} quads ({nV} vertices, {nE} edges): edge_id({a},{b}) = {r1!r}, edge_id({b},{a}) = {r2!r}, expected {i}"):
            return
    ok, be = ctx.call("huge:boundary_edges", lambda: m.boundary_edges)
    if ok:
        exp = sorted(eid[e] for e in ref.uedges if ref.edge_on_border(*e))
        ctx.check(sorted(ints(be)) == exp, "huge:boundary_edges", f"{nE} edges: boundary_edges has {len(be)} entries, expected {len(exp)}; first difference around {sorted(set(ints(be)) ^ set(exp))[:4]}")
    ok, bv = ctx.call("huge:boundary_vertices", lambda: m.boundary_vertices)
    if ok:
        ctx.check(sorted(ints(bv)) == list(range(nV)), "huge:boundary_vertices", f"every vertex of a strip is on the border; boundary_vertices has {len(bv)} of {nV}")
    rnd = random.Random(case["seed"])
    pick = lambda N: sorted(set(list(range(min(N, 40))) + list(range(max(0, N - 300), N)) + [rnd.randrange(N) for _ in range(300)]))
    qs = []
    for c in pick(nC):
        qs += [[k, c, 0, 0] for k in ("next_corner", "previous_corner", "opposite_corner", "corner_to_half_edge", "corner_to_face")]
    for e in pick(nE):
        qs += [[k, 5 * e + 1, o, 0] for k in ("half_edge_to_corner", "direct_face", "edge_to_faces", "is_edge_on_border") for o in (0, 1)]
        qs += [["edge_to_vertices", e, 0, 0]]
    for v in pick(nV):
        qs += [[k, v, 0, 0] for k in ("vertex_to_vertices", "vertex_to_faces", "vertex_to_corners", "vertex_to_edges", "is_vertex_on_border")]
    for f in pick(nF):
        qs += [[k, f, 0, 0] for k in ("face_to_vertices", "face_to_edges", "face_to_corners", "face_to_first_corner", "face_to_faces")]
        qs += [["face_id", f, rnd.randrange(100), 1, rnd.choice(FACE_ID_FORMS)]]
        qs += [["chained", f, rnd.randrange(8), rnd.choice([1, 4])]]
    for c in pick(nC)[::4]:
        qs += [["chained", c, 0, 0]]
    for e in pick(nE)[::4]:
        qs += [["chained", e, rnd.randrange(2), 2]]
    for v in pick(nV)[::4]:
        qs += [["chained", v, 0, 3]]
    rnd.shuffle(qs)
    for q in qs:
        do_query(m, ref, medges, eid, case["sort"], q, ctx, f"huge strip n={n}")


SUBCHECKS = [
    SubCheck("surface_queries", case_strategy(), fn, quick=800, thorough=2500),
    SubCheck("huge", huge_case(), fn_huge, quick=1, thorough=1, watchdog=(300, 600)),
    SubCheck("polyline_queries", polyline_case(), fn_polyline, quick=400, thorough=2000),
]

MATCHERS = {}
