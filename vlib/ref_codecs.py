"""Independent reference codecs (reader AND writer) for the mesh file formats of property C04.

Written from the public descriptions of the formats (Wavefront OBJ, INRIA medit .mesh, geogram ASCII GeoFile,
Geomview OFF, binary/ASCII STL) and, for the two formats that have no outside specification (.tet, .xyz), from
the layout given in the importers' own docstrings.  Nothing here imports or copies code from mouette.

All readers take the file *content* (str, bytes for STL) and return plain Python data; all indices returned are
0-based.  All writers return the file content.  A reader raises RefFormatError on content the format description
does not allow (that is an observation about the *file*, used by the checks as "an independent reader cannot
read what was written").
"""
import struct


class RefFormatError(Exception):
    pass


# ------------------------------------------------------------------------------------------------ helpers

def fmt_float(x, style="repr"):
    """decimal text of a double that parses back to the same double"""
    x = float(x)
    if style == "repr":
        return repr(x)
    if style == "17g":
        return "%.17g" % x
    if style == "17e":
        return "%.17e" % x
    raise ValueError(style)


def _f(tok, what):
    try:
        return float(tok)
    except ValueError:
        raise RefFormatError(f"{what}: '{tok}' is not a number")


def _i(tok, what):
    try:
        return int(tok)
    except ValueError:
        raise RefFormatError(f"{what}: '{tok}' is not an integer")


def _sp(var, k):
    """separator between two tokens of a line: one space, or a few when 'spaces' variation is on"""
    if var and var.get("spaces"):
        return " " * (1 + (k * 7 + var.get("seed", 0)) % 3)
    return " "


def _join(tokens, var, k=0):
    out = ""
    for j, t in enumerate(tokens):
        if j:
            out += _sp(var, k + j)
        out += t
    if var and var.get("spaces") and (k + var.get("seed", 0)) % 4 == 0:
        out = " " + out + "  "
    return out


def _blank(var, k):
    """'' or a blank line, deterministic in (var, k)"""
    if var and var.get("blank") and (k * 5 + var.get("seed", 0)) % 3 == 0:
        return "\n"
    return ""


# ------------------------------------------------------------------------------------------------ OBJ
# Wavefront OBJ: one record per line, '#' starts a comment, '\' at end of line continues the record.
#   v x y z [w]      vt u [v [w]]      vn i j k      f r1 r2 r3 ...      l r1 r2 ...      p r1 ...
# a reference r is  v | v/vt | v//vn | v/vt/vn ; indices are 1-based, negative = relative to the end of
# the list read so far.

def read_obj(text):
    V, VT, VN, F, FT, FN, E = [], [], [], [], [], [], []
    pending = ""
    for raw in text.split("\n"):
        line = raw.split("#", 1)[0].rstrip("\r")
        if line.endswith("\\"):
            pending += line[:-1] + " "
            continue
        line = (pending + line).strip()
        pending = ""
        if not line:
            continue
        toks = line.split()
        k, args = toks[0], toks[1:]
        if k == "v":
            if len(args) < 3:
                raise RefFormatError("obj: 'v' record with fewer than 3 coordinates")
            V.append([_f(a, "obj v") for a in args[:3]])
        elif k == "vt":
            if not args:
                raise RefFormatError("obj: empty 'vt' record")
            VT.append([_f(a, "obj vt") for a in args])
        elif k == "vn":
            if len(args) != 3:
                raise RefFormatError("obj: 'vn' record needs 3 components")
            VN.append([_f(a, "obj vn") for a in args])
        elif k in ("f", "l"):
            vs, ts, ns = [], [], []
            for a in args:
                parts = a.split("/")
                if len(parts) > 3 or (k == "l" and len(parts) > 2):
                    raise RefFormatError(f"obj: bad reference '{a}'")

                def idx(s, n, what):
                    v = _i(s, "obj " + what)
                    if v == 0:
                        raise RefFormatError("obj: index 0 is not allowed (1-based)")
                    return v - 1 if v > 0 else n + v
                vs.append(idx(parts[0], len(V), "vertex index"))
                ts.append(idx(parts[1], len(VT), "texture index") if len(parts) > 1 and parts[1] != "" else None)
                ns.append(idx(parts[2], len(VN), "normal index") if len(parts) > 2 and parts[2] != "" else None)
            if k == "f":
                if len(vs) < 3:
                    raise RefFormatError("obj: face with fewer than 3 vertices")
                F.append(vs); FT.append(ts); FN.append(ns)
            else:
                if len(vs) < 2:
                    raise RefFormatError("obj: line element with fewer than 2 vertices")
                for a, b in zip(vs[:-1], vs[1:]):
                    E.append([a, b])
        else:
            pass  # o, g, s, usemtl, mtllib, p ... : not geometry of interest
    nV = len(V)
    for f in F:
        for v in f:
            if not 0 <= v < nV:
                raise RefFormatError(f"obj: face refers to vertex {v + 1} but there are {nV}")
    for e in E:
        for v in e:
            if not 0 <= v < nV:
                raise RefFormatError(f"obj: line refers to vertex {v + 1} but there are {nV}")
    for ft in FT:
        for t in ft:
            if t is not None and not 0 <= t < len(VT):
                raise RefFormatError("obj: texture index out of range")
    for fn in FN:
        for n in fn:
            if n is not None and not 0 <= n < len(VN):
                raise RefFormatError("obj: normal index out of range")
    return {"V": V, "E": E, "F": F, "VT": VT, "VN": VN, "FT": FT, "FN": FN}


def write_obj(V, E, F, var=None):
    """var: dict(face_style in 'v','v/vt','v//vn','v/vt/vn'; blank; floats; seed).
    With a vn style one 'vn' record is written per vertex (index = vertex index); with a vt style one 'vt' per
    face corner.  Returns (text, VN or None, VT or None)."""
    var = var or {}
    style = var.get("face_style", "v")
    fl = var.get("floats", "repr")
    out = []
    k = 0
    for v in V:
        out.append("v " + " ".join(fmt_float(c, fl) for c in v) + "\n" + _blank(var, k)); k += 1
    VN = VT = None
    if "vt" in style:
        VT = []
        c = 0
        for f in F:
            for _ in f:
                VT.append([((c * 37) % 101) / 101.0, ((c * 53 + 7) % 103) / 103.0]); c += 1
        for t in VT:
            out.append("vt " + " ".join(fmt_float(c, fl) for c in t) + "\n")
        out.append(_blank(var, k)); k += 1
    if "vn" in style:
        VN = [[float((i * 3) % 7 - 3), float((i * 5) % 11 - 5) / 4.0, 1.0 + i] for i in range(len(V))]
        for n in VN:
            out.append("vn " + " ".join(fmt_float(c, fl) for c in n) + "\n")
        out.append(_blank(var, k)); k += 1
    groups = var.get("groups")        # 'o' / 'g' / 's' records (object, group, smoothing group) spread between the element records
    if groups:
        out.append("o object0\n")
    for (a, b) in E:
        out.append(f"l {a + 1} {b + 1}\n" + _blank(var, k)); k += 1
    c = 1
    for nf, f in enumerate(F):
        if groups and nf % max(1, (len(F) + 2) // 3) == 0:
            out.append(f"g part{nf}\n" + ("s off\n" if nf == 0 else f"s {nf}\n"))
        refs = []
        for v in f:
            if style == "v":
                refs.append(str(v + 1))
            elif style == "v/vt":
                refs.append(f"{v + 1}/{c}")
            elif style == "v//vn":
                refs.append(f"{v + 1}//{v + 1}")
            elif style == "v/vt/vn":
                refs.append(f"{v + 1}/{c}/{v + 1}")
            else:
                raise ValueError(style)
            c += 1
        out.append("f " + " ".join(refs) + "\n" + _blank(var, k)); k += 1
    return "".join(out), VN, VT


# ------------------------------------------------------------------------------------------------ medit
# INRIA medit ASCII .mesh: free-format stream of tokens; '#' comments.
#   MeshVersionFormatted <1|2>   Dimension <2|3>
#   Vertices n  (x y [z] ref)*n ; Edges n (a b ref)*n ; Triangles n (a b c ref) ; Quadrilaterals n (4 + ref) ;
#   Tetrahedra n (4 + ref) ; Hexahedra n (8 + ref) ; Corners n (v) ; RequiredVertices n (v) ; Ridges n (e) ;
#   RequiredEdges n (e) ; Normals n (dim floats) ; Tangents n (dim floats) ; NormalAtVertices n (v n) ;
#   TangentAtVertices n (v t) ; End        -- all indices 1-based.

_MEDIT_ELEMS = {"Edges": 2, "Triangles": 3, "Quadrilaterals": 4, "Tetrahedra": 4, "Hexahedra": 8}
_MEDIT_INTLISTS = {"Corners": 1, "RequiredVertices": 1, "Ridges": 1, "RequiredEdges": 1, "RequiredTriangles": 1,
                   "NormalAtVertices": 2, "TangentAtVertices": 2}
_MEDIT_FLOATLISTS = {"Normals", "Tangents"}


def read_medit(text):
    toks = []
    for line in text.split("\n"):
        toks += line.split("#", 1)[0].split()
    pos = 0

    def nxt(what):
        nonlocal pos
        if pos >= len(toks):
            raise RefFormatError("medit: unexpected end of file while reading " + what)
        pos += 1
        return toks[pos - 1]

    res = {"version": None, "dim": None, "V": [], "Vref": [], "Edges": [], "Triangles": [], "Quadrilaterals": [],
           "Tetrahedra": [], "Hexahedra": [], "refs": {}, "end": False, "other": []}
    while pos < len(toks):
        kw = nxt("keyword")
        if kw == "MeshVersionFormatted":
            res["version"] = _i(nxt(kw), kw)
        elif kw == "Dimension":
            res["dim"] = _i(nxt(kw), kw)
            if res["dim"] not in (2, 3):
                raise RefFormatError(f"medit: Dimension {res['dim']}")
        elif kw == "Vertices":
            if res["dim"] is None:
                raise RefFormatError("medit: Vertices before Dimension")
            n = _i(nxt(kw), kw)
            for _ in range(n):
                c = [_f(nxt(kw), "medit vertex") for _ in range(res["dim"])]
                res["Vref"].append(_i(nxt(kw), "medit vertex reference"))
                res["V"].append(c + [0.0] * (3 - len(c)))
        elif kw in _MEDIT_ELEMS:
            n = _i(nxt(kw), kw)
            refs = []
            for _ in range(n):
                el = [_i(nxt(kw), "medit " + kw) - 1 for _ in range(_MEDIT_ELEMS[kw])]
                refs.append(_i(nxt(kw), "medit reference"))
                res[kw].append(el)
            res["refs"][kw] = refs
        elif kw in _MEDIT_INTLISTS:
            n = _i(nxt(kw), kw)
            for _ in range(n * _MEDIT_INTLISTS[kw]):
                _i(nxt(kw), "medit " + kw)
            res["other"].append(kw)
        elif kw in _MEDIT_FLOATLISTS:
            if res["dim"] is None:
                raise RefFormatError("medit: " + kw + " before Dimension")
            n = _i(nxt(kw), kw)
            for _ in range(n * res["dim"]):
                _f(nxt(kw), "medit " + kw)
            res["other"].append(kw)
        elif kw == "End":
            res["end"] = True
            break
        else:
            raise RefFormatError(f"medit: unknown keyword '{kw}'")
    if res["version"] is None:
        raise RefFormatError("medit: MeshVersionFormatted missing")
    nV = len(res["V"])
    for kw in _MEDIT_ELEMS:
        for el in res[kw]:
            for v in el:
                if not 0 <= v < nV:
                    raise RefFormatError(f"medit: {kw} refers to vertex {v + 1} but there are {nV}")
    return res


def write_medit(V, E, tris, quads, tets, hexes, var=None):
    """var: dim_two_lines, blank (blank lines between blocks only), refs (non-zero reference column),
    extra_blocks (Corners / RequiredVertices / Ridges blocks between the element blocks), floats, seed, end"""
    var = var or {}
    fl = var.get("floats", "repr")
    seed = var.get("seed", 0)
    out = ["MeshVersionFormatted 2\n"]
    out.append("Dimension\n3\n" if var.get("dim_two_lines") else "Dimension 3\n")
    blk = [0]

    def sep():
        blk[0] += 1
        return "\n" if var.get("blank") and (blk[0] + seed) % 2 == 0 else ""

    def ref(k):
        return str((k * 3 + seed) % 5) if var.get("refs") else "0"

    out.append(sep())
    out.append(f"Vertices\n{len(V)}\n")
    for k, v in enumerate(V):
        out.append(" ".join(fmt_float(c, fl) for c in v) + " " + ref(k) + "\n")
    out.append(sep())
    if var.get("extra_blocks") and len(V) >= 2:
        out.append(f"Corners\n2\n1\n{len(V)}\n")
        out.append(sep())
    for kw, els in (("Edges", E), ("Triangles", tris), ("Quadrilaterals", quads), ("Tetrahedra", tets), ("Hexahedra", hexes)):
        if not els:
            continue
        out.append(f"{kw}\n{len(els)}\n")
        for k, el in enumerate(els):
            out.append(" ".join(str(i + 1) for i in el) + " " + ref(k + 1) + "\n")
        out.append(sep())
        if var.get("extra_blocks") and kw == "Edges":
            out.append(f"Ridges\n1\n1\n")
            out.append(sep())
        if var.get("extra_blocks") and kw == "Triangles" and len(V) >= 1:
            out.append(f"RequiredVertices\n1\n1\n")
            out.append(sep())
    if var.get("end", True):
        out.append("End\n")
    return "".join(out)


# ------------------------------------------------------------------------------------------------ geogram ascii
# GeoFile ASCII: one token per line, strings in double quotes, '#' starts a comment.
#   [HEAD] "GEOGRAM" "1.0"
#   [ATTS] "<element set>" <count>
#   [ATTR] "<element set>" "<attribute name>" "<element type>" <element byte size> <dimension>  then count*dimension values
# Mesh element sets: GEO::Mesh::vertices / edges / facets / facet_corners / cells / cell_corners / cell_facets.
# Geometry = attribute "point" of the vertices. Connectivity:
#   edges  "GEO::Mesh::edges::edge_vertex" (dimension 2)
#   facets: "GEO::Mesh::facets::facet_ptr" (first corner of each facet) only when the facets are not all triangles;
#           corners in "GEO::Mesh::facet_corners::corner_vertex" (+ optional corner_adjacent_facet)
#   cells:  "GEO::Mesh::cells::cell_ptr" (+ "cell_type") only when the cells are not all tetrahedra;
#           "GEO::Mesh::cell_corners::corner_vertex", "GEO::Mesh::cell_facets::adjacent_cell"
# An [ATTR] must come after the [ATTS] of its element set.

GEO_SETS = ["GEO::Mesh::vertices", "GEO::Mesh::edges", "GEO::Mesh::facets", "GEO::Mesh::facet_corners",
            "GEO::Mesh::cells", "GEO::Mesh::cell_corners", "GEO::Mesh::cell_facets"]
_GEO_INT = {"index_t", "signed_index_t", "int", "unsigned int", "char"}
_GEO_FLOAT = {"double", "float"}
_GEO_RESERVED = {("GEO::Mesh::vertices", "point"), ("GEO::Mesh::edges", "GEO::Mesh::edges::edge_vertex"),
                 ("GEO::Mesh::facets", "GEO::Mesh::facets::facet_ptr"),
                 ("GEO::Mesh::facet_corners", "GEO::Mesh::facet_corners::corner_vertex"),
                 ("GEO::Mesh::facet_corners", "GEO::Mesh::facet_corners::corner_adjacent_facet"),
                 ("GEO::Mesh::cells", "GEO::Mesh::cells::cell_ptr"), ("GEO::Mesh::cells", "GEO::Mesh::cells::cell_type"),
                 ("GEO::Mesh::cell_corners", "GEO::Mesh::cell_corners::corner_vertex"),
                 ("GEO::Mesh::cell_facets", "GEO::Mesh::cell_facets::adjacent_cell")}


def _unquote(s, what):
    if len(s) < 2 or s[0] != '"' or s[-1] != '"':
        raise RefFormatError(f"geogram: {what} should be a quoted string, got {s!r}")
    return s[1:-1]


def read_geogram(text):
    lines = [raw.split("#", 1)[0].strip() for raw in text.split("\n")]
    if lines and lines[-1] == "":
        lines.pop()     # what follows the final line break is not a line (an empty last line may be an empty text value)
    pos = 0

    def nxt(what, raw=False):
        # blank lines carry nothing, except as the (empty) value of an attribute whose type is text
        nonlocal pos
        while not raw and pos < len(lines) and lines[pos] == "":
            pos += 1
        if pos >= len(lines):
            raise RefFormatError("geogram: unexpected end of file while reading " + what)
        pos += 1
        return lines[pos - 1]

    def is_chunk(s):
        return len(s) == 6 and s[0] == "[" and s[5] == "]"

    sizes = {}
    attrs = {}      # (set, name) -> dict(type, bytes, dim, values=list of rows)
    order = []
    head = False
    while pos < len(lines):
        if lines[pos] == "":
            pos += 1
            continue
        c = nxt("chunk class")
        if not is_chunk(c):
            raise RefFormatError(f"geogram: expected a chunk class like [ATTR], got {c!r}")
        if c == "[HEAD]":
            magic = _unquote(nxt("magic"), "magic")
            _unquote(nxt("version"), "version")
            if magic != "GEOGRAM":
                raise RefFormatError("geogram: bad magic " + magic)
            head = True
        elif c == "[ATTS]":
            name = _unquote(nxt("element set name"), "element set name")
            n = _i(nxt("element set size"), "element set size")
            if n < 0:
                raise RefFormatError("geogram: negative element set size")
            sizes[name] = n
        elif c == "[ATTR]":
            sname = _unquote(nxt("element set name"), "element set name")
            aname = _unquote(nxt("attribute name"), "attribute name")
            tname = _unquote(nxt("element type"), "element type")
            bsize = _i(nxt("element size"), "element size")
            dim = _i(nxt("attribute dimension"), "attribute dimension")
            if sname not in sizes:
                raise RefFormatError(f"geogram: attribute '{aname}' on element set '{sname}' which has no [ATTS] chunk")
            if dim < 1:
                raise RefFormatError("geogram: attribute dimension < 1")
            n = sizes[sname]
            rows = []
            for _ in range(n):
                row = []
                for _ in range(dim):
                    known = tname in _GEO_FLOAT or tname in _GEO_INT or tname == "bool"
                    t = nxt(f"values of attribute '{aname}' ({n} x {dim} expected)", raw=not known)
                    if is_chunk(t):
                        raise RefFormatError(f"geogram: attribute '{aname}' on '{sname}' has fewer than {n} x {dim} values")
                    if tname in _GEO_FLOAT:
                        row.append(_f(t, "geogram " + aname))
                    elif tname in _GEO_INT:
                        row.append(_i(t, "geogram " + aname))
                    elif tname == "bool":
                        v = _i(t, "geogram " + aname)
                        if v not in (0, 1):
                            raise RefFormatError(f"geogram: bool value {v}")
                        row.append(bool(v))
                    else:
                        row.append(t)   # a type the reader does not know (geogram skips such attributes): raw text kept
                rows.append(row)
            if bsize < 1:
                raise RefFormatError(f"geogram: attribute '{aname}' declares element size {bsize}")
            attrs[(sname, aname)] = {"type": tname, "bytes": bsize, "dim": dim, "values": rows,
                                     "known_type": tname in _GEO_FLOAT or tname in _GEO_INT or tname == "bool"}
            order.append((sname, aname))
        else:
            # other chunk classes ([CMNT], [CMDL], [EOFL], [SPTR]...): skip to the next chunk
            while pos < len(lines) and not is_chunk(lines[pos]):
                pos += 1
    if not head:
        raise RefFormatError("geogram: no [HEAD] chunk")
    for (sname, aname) in attrs:
        if sname not in GEO_SETS:
            raise RefFormatError(f"geogram: '{sname}' is not an element set of a mesh")

    def col(key, dim=None):
        a = attrs.get(key)
        if a is None:
            return None
        if dim is not None and a["dim"] != dim:
            raise RefFormatError(f"geogram: {key[1]} has dimension {a['dim']}, expected {dim}")
        return a["values"]

    nV = sizes.get("GEO::Mesh::vertices", 0)
    pts = col(("GEO::Mesh::vertices", "point"))
    V = [list(r[:3]) + [0.0] * (3 - len(r[:3])) for r in pts] if pts is not None else []
    if nV and pts is None:
        raise RefFormatError("geogram: vertices without 'point' attribute")

    def chk(v, what):
        if not 0 <= v < nV:
            raise RefFormatError(f"geogram: {what} refers to vertex {v} but there are {nV}")
        return v

    E = []
    ev = col(("GEO::Mesh::edges", "GEO::Mesh::edges::edge_vertex"), 2)
    if sizes.get("GEO::Mesh::edges", 0):
        if ev is None:
            raise RefFormatError("geogram: edges without edge_vertex")
        E = [[chk(a, "edge"), chk(b, "edge")] for a, b in ev]

    def polys(set_name, ptr_key, corner_set, corner_key, simplex, what):
        n = sizes.get(set_name, 0)
        nc = sizes.get(corner_set, 0)
        cv = col((corner_set, corner_key), 1)
        if n == 0:
            return []
        if cv is None:
            raise RefFormatError(f"geogram: {what}s without corner_vertex")
        cv = [r[0] for r in cv]
        ptr = col((set_name, ptr_key), 1)
        if ptr is None:
            if nc != simplex * n:
                raise RefFormatError(f"geogram: {n} {what}s and {nc} corners but no {ptr_key.split('::')[-1]}: "
                                     f"without it every {what} has {simplex} corners")
            starts = [simplex * i for i in range(n)] + [nc]
        else:
            starts = [r[0] for r in ptr] + [nc]
            if starts[0] != 0 or any(b <= a for a, b in zip(starts[:-1], starts[1:])):
                raise RefFormatError(f"geogram: {ptr_key} is not an increasing sequence starting at 0 and below the corner count: {starts}")
        return [[chk(cv[j], what) for j in range(starts[i], starts[i + 1])] for i in range(n)]

    F = polys("GEO::Mesh::facets", "GEO::Mesh::facets::facet_ptr", "GEO::Mesh::facet_corners",
              "GEO::Mesh::facet_corners::corner_vertex", 3, "facet")
    C = polys("GEO::Mesh::cells", "GEO::Mesh::cells::cell_ptr", "GEO::Mesh::cell_corners",
              "GEO::Mesh::cell_corners::corner_vertex", 4, "cell")
    user = {}
    for key in order:
        if key not in _GEO_RESERVED:
            user[key] = attrs[key]
    return {"V": V, "E": E, "F": F, "C": C, "sizes": sizes, "attrs": user, "all_attrs": attrs}


def write_geogram(V, E, F, C, attrs=None, var=None):
    """attrs: list of dict(set=<element set>, name, type in 'double','int','bool', dim, rows=list of rows).
    var: comments (trailing '#' comments on some lines), floats, seed"""
    var = var or {}
    fl = var.get("floats", "repr")
    seed = var.get("seed", 0)
    out = []
    cnt = [0]

    def put(s):
        cnt[0] += 1
        if var.get("comments") and (cnt[0] + seed) % 4 == 0:
            s = s + "  # c" + str(cnt[0])
        out.append(s + "\n")

    def atts(name, n):
        put("[ATTS]"); put(f'"{name}"'); put(str(n))

    def attr(sname, aname, tname, bsize, dim, rows):
        put("[ATTR]"); put(f'"{sname}"'); put(f'"{aname}"'); put(f'"{tname}"'); put(str(bsize)); put(str(dim))
        for r in rows:
            for x in r:
                if tname in _GEO_FLOAT:
                    put(fmt_float(x, fl))
                elif tname == "bool":
                    put("1" if x else "0")
                else:
                    put(str(int(x)))

    def user(sname):
        for a in attrs or []:
            if a["set"] == sname:
                attr(sname, a["name"], a["type"], {"double": 8, "int": 4, "bool": 1}[a["type"]], a["dim"], a["rows"])

    put("[HEAD]"); put('"GEOGRAM"'); put('"1.0"')
    atts("GEO::Mesh::vertices", len(V))
    attr("GEO::Mesh::vertices", "point", "double", 8, 3, V)
    user("GEO::Mesh::vertices")
    if E:
        atts("GEO::Mesh::edges", len(E))
        attr("GEO::Mesh::edges", "GEO::Mesh::edges::edge_vertex", "index_t", 4, 2, E)
        user("GEO::Mesh::edges")
    if F:
        atts("GEO::Mesh::facets", len(F))
        if any(len(f) != 3 for f in F):
            ptr, p = [], 0
            for f in F:
                ptr.append([p]); p += len(f)
            attr("GEO::Mesh::facets", "GEO::Mesh::facets::facet_ptr", "index_t", 4, 1, ptr)
        user("GEO::Mesh::facets")
        atts("GEO::Mesh::facet_corners", sum(len(f) for f in F))
        attr("GEO::Mesh::facet_corners", "GEO::Mesh::facet_corners::corner_vertex", "index_t", 4, 1, [[v] for f in F for v in f])
        user("GEO::Mesh::facet_corners")
    if C:
        atts("GEO::Mesh::cells", len(C))
        if any(len(c) != 4 for c in C):
            ptr, p = [], 0
            for c in C:
                ptr.append([p]); p += len(c)
            attr("GEO::Mesh::cells", "GEO::Mesh::cells::cell_ptr", "index_t", 4, 1, ptr)
        user("GEO::Mesh::cells")
        atts("GEO::Mesh::cell_corners", sum(len(c) for c in C))
        attr("GEO::Mesh::cell_corners", "GEO::Mesh::cell_corners::corner_vertex", "index_t", 4, 1, [[v] for c in C for v in c])
        user("GEO::Mesh::cell_corners")
    return "".join(out)


# ------------------------------------------------------------------------------------------------ OFF
# Geomview OFF: "OFF" ; "nv nf ne" ; nv lines "x y z" ; nf lines "n i1 ... in [colour]" ; 0-based ; '#' comments,
# blank lines allowed anywhere.

def read_off(text):
    lines = []
    for raw in text.split("\n"):
        s = raw.split("#", 1)[0].split()
        if s:
            lines.append(s)
    if not lines or lines[0][0] != "OFF":
        raise RefFormatError("off: header 'OFF' missing")
    first = lines[0][1:]
    pos = 1
    if len(first) >= 3:
        counts = first
    else:
        if pos >= len(lines):
            raise RefFormatError("off: counts missing")
        counts = lines[pos]; pos += 1
    if len(counts) < 2:
        raise RefFormatError("off: counts line needs at least 'nv nf'")
    nv, nf = _i(counts[0], "off nv"), _i(counts[1], "off nf")
    ne = _i(counts[2], "off ne") if len(counts) > 2 else 0
    if len(lines) - pos < nv + nf:
        raise RefFormatError(f"off: {nv} vertices and {nf} faces announced, {len(lines) - pos} lines present")
    V = []
    for _ in range(nv):
        t = lines[pos]; pos += 1
        if len(t) < 3:
            raise RefFormatError("off: vertex line with fewer than 3 numbers")
        V.append([_f(x, "off vertex") for x in t[:3]])
    F = []
    for _ in range(nf):
        t = lines[pos]; pos += 1
        n = _i(t[0], "off face size")
        if n < 1 or len(t) < 1 + n:
            raise RefFormatError(f"off: face line announces {n} vertices but has {len(t) - 1} numbers")
        f = [_i(x, "off face index") for x in t[1:1 + n]]
        for v in f:
            if not 0 <= v < nv:
                raise RefFormatError(f"off: face refers to vertex {v} but there are {nv}")
        F.append(f)
    return {"V": V, "F": F, "ne": ne, "trailing": len(lines) - pos}


def write_off(V, F, var=None):
    var = var or {}
    fl = var.get("floats", "repr")
    out = ["OFF\n" + _blank(var, 1)]
    out.append(_join([str(len(V)), str(len(F)), "0"], var, 1) + "\n" + _blank(var, 2))
    k = 3
    for v in V:
        out.append(_join([fmt_float(c, fl) for c in v], var, k) + "\n" + _blank(var, k)); k += 1
    col = var.get("off_colors")       # optional colour after the indices of a face: colormap index, or integer RGB / RGBA in 0..255
    for nf, f in enumerate(F):
        extra = []
        if col == "index":
            extra = [str((nf * 7 + 3) % 256)]
        elif col == "rgb":
            extra = [str((nf * 37) % 256), str((nf * 91 + 5) % 256), str(255 - nf % 256)]
        elif col == "rgba":
            extra = [str((nf * 37) % 256), str((nf * 91 + 5) % 256), str(255 - nf % 256), "255"]
        out.append(_join([str(len(f))] + [str(i) for i in f] + extra, var, k) + "\n" + _blank(var, k)); k += 1
    return "".join(out)


# ------------------------------------------------------------------------------------------------ .tet
# "<n> vertices" ; "<m> tets" ; n lines "x y z" ; m lines "k i1 ... ik" (k = 4 for a tetrahedron) ; 0-based.

def read_tet(text):
    lines = [l.split() for l in text.split("\n")]
    lines = [l for l in lines if l]
    if len(lines) < 2:
        raise RefFormatError("tet: the two count lines are missing")
    if len(lines[0]) != 2 or lines[0][1] != "vertices":
        raise RefFormatError(f"tet: first line should be '<n> vertices', got {' '.join(lines[0])!r}")
    if len(lines[1]) != 2 or lines[1][1] not in ("tets", "cells"):
        raise RefFormatError(f"tet: second line should be '<m> tets', got {' '.join(lines[1])!r}")
    nv, nc = _i(lines[0][0], "tet nv"), _i(lines[1][0], "tet nc")
    if len(lines) != 2 + nv + nc:
        raise RefFormatError(f"tet: {nv} vertices and {nc} cells announced, {len(lines) - 2} lines present")
    V = []
    for t in lines[2:2 + nv]:
        if len(t) != 3:
            raise RefFormatError("tet: vertex line should have 3 numbers")
        V.append([_f(x, "tet vertex") for x in t])
    C = []
    for t in lines[2 + nv:]:
        k = _i(t[0], "tet cell size")
        if len(t) != k + 1:
            raise RefFormatError(f"tet: cell line announces {k} vertices but has {len(t) - 1}")
        c = [_i(x, "tet cell index") for x in t[1:]]
        for v in c:
            if not 0 <= v < nv:
                raise RefFormatError(f"tet: cell refers to vertex {v} but there are {nv}")
        C.append(c)
    return {"V": V, "C": C}


def write_tet(V, C, var=None):
    var = var or {}
    fl = var.get("floats", "repr")
    out = [f"{len(V)} vertices\n", f"{len(C)} tets\n" + _blank(var, 1)]
    k = 2
    for v in V:
        out.append(_join([fmt_float(c, fl) for c in v], var, k) + "\n" + _blank(var, k)); k += 1
    for c in C:
        out.append(_join([str(len(c))] + [str(i) for i in c], var, k) + "\n" + _blank(var, k)); k += 1
    return "".join(out)


# ------------------------------------------------------------------------------------------------ .xyz
# one point per line "x y z" or "x y z nx ny nz"; an optional first line holding only the number of points.

def read_xyz(text):
    lines = [l.split() for l in text.split("\n")]
    lines = [l for l in lines if l]
    V, N = [], []
    for k, t in enumerate(lines):
        if k == 0 and len(t) == 1:
            _i(t[0], "xyz point count")
            continue
        if len(t) not in (3, 6):
            raise RefFormatError(f"xyz: line with {len(t)} numbers")
        vals = [_f(x, "xyz") for x in t]
        V.append(vals[:3])
        if len(t) == 6:
            N.append(vals[3:])
    if N and len(N) != len(V):
        raise RefFormatError("xyz: some lines have normals and some do not")
    return {"V": V, "N": N or None}


def write_xyz(V, N=None, var=None):
    var = var or {}
    fl = var.get("floats", "repr")
    out = []
    for k, v in enumerate(V):
        row = list(v) + (list(N[k]) if N else [])
        out.append(_join([fmt_float(c, fl) for c in row], var, k) + "\n" + _blank(var, k))
    return "".join(out)


# ------------------------------------------------------------------------------------------------ STL
# binary: 80-byte header, uint32 n, n x (normal 3f, v1 3f, v2 3f, v3 3f, uint16 attribute), little endian.
# ascii : solid [name] / facet normal nx ny nz / outer loop / vertex x y z (x3) / endloop / endfacet / endsolid [name]

def read_stl(data):
    """returns dict(kind='binary'|'ascii', tris=[[v1,v2,v3]] (python floats), normals=[...])"""
    if len(data) >= 84:
        (n,) = struct.unpack_from("<I", data, 80)
        if len(data) == 84 + 50 * n:
            tris, normals = [], []
            for k in range(n):
                vals = struct.unpack_from("<12fH", data, 84 + 50 * k)
                normals.append(list(vals[0:3]))
                tris.append([list(vals[3:6]), list(vals[6:9]), list(vals[9:12])])
            return {"kind": "binary", "tris": tris, "normals": normals, "header": data[:80]}
    try:
        text = data.decode("ascii")
    except UnicodeDecodeError:
        raise RefFormatError("stl: neither a consistent binary file (84 + 50 n bytes) nor ascii text")
    toks = text.split("\n")
    lines = [l.split() for l in toks]
    lines = [l for l in lines if l]
    if not lines or lines[0][0] != "solid":
        raise RefFormatError("stl: neither a consistent binary file (84 + 50 n bytes) nor an ascii 'solid'")
    pos = 0
    tris, normals = [], []
    solids = []

    def expect(words):
        nonlocal pos
        if pos >= len(lines) or lines[pos][:len(words)] != words:
            raise RefFormatError(f"stl ascii: expected '{' '.join(words)}' at record {pos}")
        pos += 1
        return lines[pos - 1]

    # a file may hold several 'solid ... endsolid' blocks one after the other (one per part); the triangles are those of all blocks
    while pos < len(lines):
        expect(["solid"])
        n0 = len(tris)
        while pos < len(lines) and lines[pos][0] == "facet":
            l = expect(["facet", "normal"])
            if len(l) != 5:
                raise RefFormatError("stl ascii: facet normal needs 3 numbers")
            normals.append([_f(x, "stl normal") for x in l[2:]])
            expect(["outer", "loop"])
            t = []
            for _ in range(3):
                l = expect(["vertex"])
                if len(l) != 4:
                    raise RefFormatError("stl ascii: vertex needs 3 numbers")
                t.append([_f(x, "stl vertex") for x in l[1:]])
            expect(["endloop"])
            expect(["endfacet"])
            tris.append(t)
        expect(["endsolid"])
        solids.append(len(tris) - n0)
    return {"kind": "ascii", "tris": tris, "normals": normals, "solids": solids}


def write_stl_binary(tris, header=b"reference binary stl"):
    out = [struct.pack("<80sI", header, len(tris))]
    for t in tris:
        out.append(struct.pack("<12fH", 0.0, 0.0, 0.0, *[float(c) for v in t for c in v], 0))
    return b"".join(out)


def write_stl_ascii(tris, name="ref", var=None):
    var = var or {}
    fl = var.get("floats", "repr")
    ind = "  " if var.get("indent", True) else ""
    k = max(1, int(var.get("solids", 1)))          # number of 'solid' blocks the triangles are spread over (contiguous runs)
    cuts = [round(i * len(tris) / k) for i in range(k + 1)]
    out = []
    for b in range(k):
        nm = name if k == 1 else f"{name}{b}"
        out.append(f"solid {nm}\n")
        for t in tris[cuts[b]:cuts[b + 1]]:
            out.append(f"{ind}facet normal 0 0 0\n{ind}{ind}outer loop\n")
            for v in t:
                out.append(f"{ind}{ind}{ind}vertex " + " ".join(fmt_float(c, fl) for c in v) + "\n")
            out.append(f"{ind}{ind}endloop\n{ind}endfacet\n")
        out.append(f"endsolid {nm}\n")
    return "".join(out).encode("ascii")


# ------------------------------------------------------------------------------------------------ self-test

def self_test():
    """fixed literal files with hand-known content; raises AssertionError on any disagreement"""
    o = read_obj("# c\nv 0 0 0\nv 1 0 0 1.0\nv 0 1 0\nv 0.5 0.5 -1e-3\nvt 0 0\nvn 0 0 1\n\nl 1 2 3\nf 1/1/1 2//1 3/1\nf -1 -2 \\\n -3 1\n")
    assert o["V"] == [[0, 0, 0], [1, 0, 0], [0, 1, 0], [0.5, 0.5, -0.001]]
    assert o["E"] == [[0, 1], [1, 2]] and o["F"] == [[0, 1, 2], [3, 2, 1, 0]]
    assert o["FT"][0] == [0, None, 0] and o["FN"][0] == [0, 0, None]
    m = read_medit("MeshVersionFormatted 2\nDimension\n3\n# c\nVertices\n4\n0 0 0 1\n1 0 0 1\n0 1 0 2\n0 0 1 0\nCorners\n1\n2\n"
                   "Edges 1 1 2 7\nTriangles\n1\n1 2 3 0\nQuadrilaterals\n1\n1 2 3 4 0\nTetrahedra\n1\n1 2 3 4 5\nEnd\nignored")
    assert m["V"][3] == [0, 0, 1] and m["Edges"] == [[0, 1]] and m["Triangles"] == [[0, 1, 2]] and m["Quadrilaterals"] == [[0, 1, 2, 3]]
    assert m["Tetrahedra"] == [[0, 1, 2, 3]] and m["refs"]["Tetrahedra"] == [5] and m["end"] and m["dim"] == 3
    m = read_medit("MeshVersionFormatted 1 Dimension 3 Vertices 8 " + " ".join(f"{i & 1} {(i >> 1) & 1} {i >> 2} 0" for i in range(8)) +
                   " Hexahedra 1 1 2 4 3 5 6 8 7 0")
    assert m["Hexahedra"] == [[0, 1, 3, 2, 4, 5, 7, 6]] and not m["end"]
    g = read_geogram('[HEAD]\n"GEOGRAM"\n"1.0"\n[ATTS]\n"GEO::Mesh::vertices"\n4\n[ATTR]\n"GEO::Mesh::vertices"\n"point"\n"double"\n8\n3\n'
                     + "\n".join(str(x) for x in [0, 0, 0, 1, 0, 0, 1, 1, 0, 0, 1, 0.5]) + ' # last\n'
                     '[ATTS]\n"GEO::Mesh::facets"\n2\n[ATTR]\n"GEO::Mesh::facets"\n"GEO::Mesh::facets::facet_ptr"\n"index_t"\n4\n1\n0\n4\n'
                     '[ATTR]\n"GEO::Mesh::facets"\n"flag"\n"bool"\n1\n1\n1\n0\n'
                     '[ATTS]\n"GEO::Mesh::facet_corners"\n7\n[ATTR]\n"GEO::Mesh::facet_corners"\n"GEO::Mesh::facet_corners::corner_vertex"\n"index_t"\n4\n1\n'
                     '0\n1\n2\n3\n0\n2\n3\n')
    assert g["F"] == [[0, 1, 2, 3], [0, 2, 3]] and g["V"][3] == [0, 1, 0.5]
    assert g["attrs"][("GEO::Mesh::facets", "flag")]["values"] == [[True], [False]]
    try:
        read_geogram('[HEAD]\n"GEOGRAM"\n"1.0"\n[ATTS]\n"GEO::Mesh::vertices"\n0\n[ATTS]\n"GEO::Mesh::facets"\n1\n[ATTS]\n"GEO::Mesh::facet_corners"\n4\n'
                     '[ATTR]\n"GEO::Mesh::facet_corners"\n"GEO::Mesh::facet_corners::corner_vertex"\n"index_t"\n4\n1\n0\n0\n0\n0\n')
        raise AssertionError("quad without facet_ptr accepted")
    except RefFormatError:
        pass
    f = read_off("OFF\n# c\n4 2 0\n0 0 0\n1 0 0\n\n1 1 0\n0 1 0\n4 0 1 2 3\n3  0 2 3 255 0 0\n")
    assert f["V"][2] == [1, 1, 0] and f["F"] == [[0, 1, 2, 3], [0, 2, 3]]
    t = read_tet("4 vertices\n1 tets\n0 0 0\n1 0 0\n0 1 0\n0 0 1\n4 0 1 2 3\n")
    assert t["C"] == [[0, 1, 2, 3]] and t["V"][1] == [1, 0, 0]
    x = read_xyz("2\n0 0 0 0 0 1\n1 2 3 1 0 0\n")
    assert x["V"] == [[0, 0, 0], [1, 2, 3]] and x["N"] == [[0, 0, 1], [1, 0, 0]]
    tri = [[[0.0, 0.0, 0.0], [1.0, 0.0, 0.0], [0.0, 1.0, 0.5]]]
    b = write_stl_binary(tri)
    assert len(b) == 134 and read_stl(b)["tris"] == tri and read_stl(b)["kind"] == "binary"
    assert read_stl(b"solid a\nfacet normal 0 0 1\nouter loop\nvertex 0 0 0\nvertex 1 0 0\nvertex 0 1 0.5\nendloop\nendfacet\nendsolid a\n")["tris"] == tri
    assert read_stl(write_stl_binary([]))["tris"] == []
    two = read_stl(b"solid a\nfacet normal 0 0 1\nouter loop\nvertex 0 0 0\nvertex 1 0 0\nvertex 0 1 0.5\nendloop\nendfacet\nendsolid a\n"
                   b"solid b\nendsolid b\nsolid c\nfacet normal 0 0 1\nouter loop\nvertex 0 0 0\nvertex 1 0 0\nvertex 0 1 0.5\nendloop\nendfacet\nendsolid\n")
    assert two["tris"] == tri + tri and two["solids"] == [1, 0, 1]
    t5 = [[[float(i), 0.0, 0.0], [0.0, 1.0, 0.0], [0.0, 0.0, 1.0]] for i in range(5)]
    for ks in (1, 2, 3, 7):
        rr = read_stl(write_stl_ascii(t5, var={"solids": ks}))
        assert rr["tris"] == t5 and len(rr["solids"]) == ks
    og = read_obj(write_obj([[0.0, 0.0, 0.0], [1.0, 0.0, 0.0], [0.0, 1.0, 0.0], [1.0, 1.0, 0.0]], [[0, 1]], [[0, 1, 2], [1, 3, 2]], {"groups": True})[0])
    assert og["F"] == [[0, 1, 2], [1, 3, 2]] and og["E"] == [[0, 1]]
    # writers against readers (all variations)
    V = [[0.1, -2.5, 1e-300], [1.0, 1 / 3, -0.0], [5e-324, 1e300, 3.0], [7.0, 8.0, 9.0], [1.5, 2.5, 3.5]]
    for seed in range(4):
        var = {"blank": seed % 2 == 1, "spaces": seed >= 2, "floats": ["repr", "17g", "17e", "repr"][seed], "seed": seed,
               "comments": seed % 2 == 0, "dim_two_lines": seed % 2 == 0, "refs": seed > 1, "extra_blocks": seed in (1, 2)}
        for style in ("v", "v/vt", "v//vn", "v/vt/vn"):
            txt, VN, VT = write_obj(V, [[0, 1]], [[0, 1, 2, 3], [1, 4, 2]], dict(var, face_style=style))
            o = read_obj(txt)
            assert o["V"] == V and o["E"] == [[0, 1]] and o["F"] == [[0, 1, 2, 3], [1, 4, 2]]
            assert (VN is None) == (o["VN"] == []) and (VT is None) == (o["VT"] == [])
        m = read_medit(write_medit(V, [[0, 1]], [[1, 4, 2]], [[0, 1, 2, 3]], [[0, 1, 2, 4]], [], var))
        assert m["V"] == V and m["Edges"] == [[0, 1]] and m["Triangles"] == [[1, 4, 2]] and m["Quadrilaterals"] == [[0, 1, 2, 3]] and m["Tetrahedra"] == [[0, 1, 2, 4]]
        g = read_geogram(write_geogram(V, [[0, 1]], [[0, 1, 2, 3], [1, 4, 2]], [[0, 1, 2, 4]],
                                       [{"set": "GEO::Mesh::edges", "name": "w", "type": "double", "dim": 2, "rows": [[0.5, -1.0]]}], var))
        assert g["V"] == V and g["E"] == [[0, 1]] and g["F"] == [[0, 1, 2, 3], [1, 4, 2]] and g["C"] == [[0, 1, 2, 4]]
        assert g["attrs"][("GEO::Mesh::edges", "w")]["values"] == [[0.5, -1.0]]
        assert read_off(write_off(V, [[0, 1, 2, 3], [1, 4, 2]], var))["F"] == [[0, 1, 2, 3], [1, 4, 2]]
        assert read_off(write_off(V, [], var))["V"] == V
        for col in ("index", "rgb", "rgba"):
            assert read_off(write_off(V, [[0, 1, 2, 3], [1, 4, 2]], dict(var, off_colors=col)))["F"] == [[0, 1, 2, 3], [1, 4, 2]]
        t = read_tet(write_tet(V, [[0, 1, 2, 4]], var))
        assert t["V"] == V and t["C"] == [[0, 1, 2, 4]]
        x = read_xyz(write_xyz(V, [[0.0, 0.0, 1.0]] * 5, var))
        assert x["V"] == V and x["N"] == [[0.0, 0.0, 1.0]] * 5
        a = read_stl(write_stl_ascii([[V[0], V[1], V[3]]], var=var))
        assert a["kind"] == "ascii" and a["tris"] == [[V[0], V[1], V[3]]]
    import math
    assert math.copysign(1.0, read_xyz(write_xyz(V))["V"][1][2]) == -1.0
