"""Runner: seeding, Hypothesis settings, sharding, evidence, replay, known findings.

A property module (props/cXX.py) exposes

    PROPERTY = "CXX"
    RULE     = "<how cases are generated and what makes one non-trivial>"
    SUBCHECKS = [SubCheck(name, strategy, fn, quick=N, thorough=N), ...]
    MATCHERS = {predicate_name: lambda case, violation: bool}      (optional)

`strategy` yields a *realised*, JSON-serialisable case (dict); `fn(case, ctx)` runs the library on
it and reports oracle failures through `ctx.check / ctx.fail`.  A replay therefore never depends on
generator code.
"""
import os, sys, json, time, hashlib, traceback, signal, random, importlib, zlib, contextlib
import multiprocessing as mp

VERIF_DIR = os.path.dirname(os.path.dirname(os.path.abspath(__file__)))
OUT_DIR = os.environ.get("VERIF_OUT_DIR", VERIF_DIR)   # mutant / scratch runs write evidence and replays elsewhere
REPO = os.environ.get("MOUETTE_REPO", "/repo")
if REPO not in sys.path:
    sys.path.insert(0, REPO)
sys.dont_write_bytecode = True

import warnings
warnings.filterwarnings("ignore")

import numpy as np


class Violation(Exception):
    def __init__(self, sub_check, signature, message, detail=None):
        super().__init__(f"[{sub_check}] {signature}: {message}")
        self.sub_check = sub_check
        self.signature = signature
        self.message = message
        self.detail = detail


class HarnessError(Exception):
    pass


class MalformedAnswer(Exception):
    """raised by harness helpers when a value returned by the library does not even have the expected shape / type (e.g. a list of
    tuples where element ids are expected): that is a violation of whatever oracle was about to look at it, not a harness error"""


class Inconclusive(BaseException):
    """raised by the watchdog; BaseException so that library `except Exception` cannot swallow it"""


class SubCheck:
    def __init__(self, name, strategy, fn, quick=100, thorough=1000, watchdog=(20, 120)):
        self.name = name
        self.strategy = strategy
        self.fn = fn
        self.quick = quick
        self.thorough = thorough
        self.watchdog = watchdog


def jsonable(x):
    """Convert numpy scalars/arrays/tuples/sets into plain JSON values."""
    if isinstance(x, dict):
        return {str(k): jsonable(v) for k, v in x.items()}
    if isinstance(x, (list, tuple)):
        return [jsonable(v) for v in x]
    if isinstance(x, (set, frozenset)):
        return sorted(jsonable(v) for v in x)
    if isinstance(x, np.ndarray):
        return jsonable(x.tolist())
    if isinstance(x, (np.bool_,)):
        return bool(x)
    if isinstance(x, np.integer):
        return int(x)
    if isinstance(x, np.floating):
        return float(x)
    if isinstance(x, complex):
        return {"__complex__": [x.real, x.imag]}
    if isinstance(x, float):
        if x != x or x in (float("inf"), float("-inf")):
            return {"__float__": repr(x)}
        return x
    if isinstance(x, bytes):
        return {"__bytes__": x.hex()}
    return x


def unjson(x):
    if isinstance(x, dict):
        if "__complex__" in x and len(x) == 1:
            return complex(*x["__complex__"])
        if "__float__" in x and len(x) == 1:
            return float(x["__float__"])
        if "__bytes__" in x and len(x) == 1:
            return bytes.fromhex(x["__bytes__"])
        return {k: unjson(v) for k, v in x.items()}
    if isinstance(x, list):
        return [unjson(v) for v in x]
    return x


def case_dumps(case):
    return json.dumps(jsonable(case), sort_keys=True, separators=(",", ":"))


def is_mouette_frame(tb):
    for fr in traceback.extract_tb(tb):
        fn = fr.filename.replace("\\", "/")
        if "/mouette/" in fn and not fn.startswith(VERIF_DIR):
            return True
    return False


def innermost_mouette_frame(tb):
    res = None
    for fr in traceback.extract_tb(tb):
        fn = fr.filename.replace("\\", "/")
        if "/mouette/" in fn and not fn.startswith(VERIF_DIR):
            res = f"{fn.split('/mouette/')[-1]}:{fr.name}"
    return res


# ---------------------------------------------------------------------------------------------
# library state save / restore

def _save_lib_state():
    import mouette as M
    cfg = {k: getattr(M.config, k) for k in ("complete_edges_from_faces", "complete_faces_from_cells",
                                              "export_edges_in_obj", "sort_neighborhoods",
                                              "display_duplicate_attribute_warning")}
    return cfg, np.geterr()


def _restore_lib_state(st):
    import mouette as M
    cfg, err = st
    for k, v in cfg.items():
        setattr(M.config, k, v)
    np.seterr(**err)


DEFAULT_ERR = None


class Stats:
    def __init__(self):
        self.evaluations = 0
        self.nontrivial = set()
        self.classes = {}
        self.samples = []
        self.sub = {}
        self.excluded = {}
        self.excluded_samples = {}
        self.discarded = {}
        self.inconclusive = 0
        self.assertions = 0

    def to_dict(self):
        return {"evaluations": self.evaluations, "nontrivial": sorted(self.nontrivial), "classes": self.classes,
                "samples": self.samples, "sub": self.sub, "excluded": self.excluded,
                "excluded_samples": self.excluded_samples, "discarded": self.discarded,
                "inconclusive": self.inconclusive, "assertions": self.assertions}

    @staticmethod
    def merge(dicts):
        s = Stats()
        for d in dicts:
            s.evaluations += d["evaluations"]
            s.nontrivial |= set(d["nontrivial"])
            for k, v in d["classes"].items():
                s.classes[k] = s.classes.get(k, 0) + v
            for x in d["samples"]:
                if len(s.samples) < 6:
                    s.samples.append(x)
            for k, v in d["sub"].items():
                t = s.sub.setdefault(k, {"cases": 0, "assertions": 0, "nontrivial": 0})
                for kk in t:
                    t[kk] += v.get(kk, 0)
            for k, v in d["excluded"].items():
                s.excluded[k] = s.excluded.get(k, 0) + v
            for k, v in d["excluded_samples"].items():
                s.excluded_samples.setdefault(k, v)
            for k, v in d["discarded"].items():
                s.discarded[k] = s.discarded.get(k, 0) + v
            s.inconclusive += d["inconclusive"]
            s.assertions += d["assertions"]
        return s


class Ctx:
    """Handed to every sub-check function."""

    def __init__(self, prop, sub, case, stats, findings, matchers, tier, raise_known=False):
        self.prop = prop
        self.sub = sub
        self.case = case
        self.stats = stats
        self.findings = findings          # open known findings of this property
        self.matchers = matchers
        self.tier = tier
        self.labels = set()
        self.is_nontrivial = False
        self.n_assert = 0
        self.raise_known = raise_known
        self.known_hit = []

    # -- bookkeeping
    def label(self, *names):
        for n in names:
            self.labels.add(str(n))

    def nontrivial(self, flag=True):
        if flag:
            self.is_nontrivial = True

    def discard(self, reason):
        self.stats.discarded[reason] = self.stats.discarded.get(reason, 0) + 1

    # -- oracles
    def fail(self, signature, message, **detail):
        v = Violation(self.sub, signature, message, jsonable(detail) if detail else None)
        for kf in self.findings:
            if kf.get("sub_check") not in (None, self.sub):
                continue
            m = self.matchers.get(kf["predicate"])
            if m is None:
                raise HarnessError(f"known finding {kf['id']} names unknown predicate {kf['predicate']}")
            try:
                hit = bool(m(self.case, v))
            except Exception:
                hit = False
            if hit:
                self.known_hit.append(kf["id"])
                if self.stats is not None:
                    self.stats.excluded[kf["id"]] = self.stats.excluded.get(kf["id"], 0) + 1
                    if kf["id"] not in self.stats.excluded_samples:
                        self.stats.excluded_samples[kf["id"]] = {"signature": signature, "message": message[:300]}
                if self.raise_known:
                    v.known = kf["id"]
                    raise v
                return False
        raise v

    def check(self, cond, signature, message="", **detail):
        self.n_assert += 1
        if cond:
            return True
        return self.fail(signature, message if isinstance(message, str) else str(message), **detail)

    def call(self, signature, f, *a, **kw):
        """Call library code that the property says must not fail. Returns (ok, value)."""
        try:
            return True, f(*a, **kw)
        except (Violation, Inconclusive, HarnessError):
            raise
        except Exception as e:
            where = innermost_mouette_frame(e.__traceback__)
            self.fail(signature + ":raises", f"{type(e).__name__}: {e} (at {where})",
                      exc=type(e).__name__, where=where)
            return False, None

    def close(self, a, b, tol=1e-9, scale=None):
        a = np.asarray(a, dtype=float if not np.iscomplexobj(a) else complex)
        b = np.asarray(b, dtype=float if not np.iscomplexobj(b) else complex)
        if a.shape != b.shape:
            return False
        if a.size == 0:
            return True
        if not (np.all(np.isfinite(a)) and np.all(np.isfinite(b))):
            return False
        s = scale if scale is not None else max(1.0, float(np.max(np.abs(a))), float(np.max(np.abs(b))))
        return bool(np.max(np.abs(a - b)) <= tol * s)


def load_known_findings(prop):
    path = os.path.join(VERIF_DIR, "known_findings.json")
    if not os.path.exists(path):
        return [], []
    data = json.load(open(path))
    ents = [e for e in data.get("findings", []) if e.get("property") == prop]
    return [e for e in ents if e.get("status") == "open"], [e for e in ents if e.get("status") == "fixed"]


def load_prop(prop):
    mod = importlib.import_module("props." + prop.lower())
    return mod


def check_repo_import():
    import mouette
    f = os.path.abspath(mouette.__file__)
    if not f.startswith(os.path.abspath(REPO) + os.sep):
        raise HarnessError(f"mouette imported from {f}, expected under {REPO}")


@contextlib.contextmanager
def watchdog(seconds):
    def handler(signum, frame):
        raise Inconclusive()
    old = signal.signal(signal.SIGALRM, handler)
    signal.setitimer(signal.ITIMER_REAL, seconds)
    try:
        yield
    finally:
        signal.setitimer(signal.ITIMER_REAL, 0)
        signal.signal(signal.SIGALRM, old)


def run_case(mod, sc, case, stats, tier, findings, raise_known=False, record=True):
    """Run one realised case. Raises Violation for an unlisted violation."""
    global DEFAULT_ERR
    prop = mod.PROPERTY
    matchers = getattr(mod, "MATCHERS", {})
    ctx = Ctx(prop, sc.name, case, stats if record else None, findings, matchers, tier, raise_known=raise_known)
    js = case_dumps(case)
    h = zlib.crc32(js.encode())
    state = _save_lib_state()
    np.random.seed(h)
    random.seed(h)
    wd = sc.watchdog[0 if tier == "quick" else 1]
    try:
        with watchdog(wd):
            sc.fn(unjson(json.loads(js)), ctx)
    except Inconclusive:
        if record:
            stats.inconclusive += 1
        return ctx
    except Violation:
        raise
    except HarnessError:
        raise
    except MalformedAnswer as e:
        ctx.fail("malformed-answer", str(e))
        return ctx
    except Exception as e:
        if is_mouette_frame(e.__traceback__):
            where = innermost_mouette_frame(e.__traceback__)
            # unexpected exception escaping from library code: a violation (possibly a known one)
            try:
                ctx.fail("unexpected-exception", f"{type(e).__name__}: {e} (at {where})", exc=type(e).__name__, where=where)
            except Violation as v:
                v.__cause__ = e
                raise v
            return ctx
        raise HarnessError("".join(traceback.format_exception(type(e), e, e.__traceback__))) from e
    finally:
        _restore_lib_state(state)
    if record:
        stats.evaluations += 1
        stats.assertions += ctx.n_assert
        t = stats.sub.setdefault(sc.name, {"cases": 0, "assertions": 0, "nontrivial": 0})
        t["cases"] += 1
        t["assertions"] += ctx.n_assert
        for l in ctx.labels:
            k = sc.name + ":" + l
            stats.classes[k] = stats.classes.get(k, 0) + 1
        if ctx.is_nontrivial:
            hh = hashlib.sha1((sc.name + js).encode()).hexdigest()[:16]
            if hh not in stats.nontrivial:
                stats.nontrivial.add(hh)
                t["nontrivial"] += 1
                if sum(1 for s in stats.samples if s["sub_check"] == sc.name) < 1:
                    if len(js) < 4000:
                        stats.samples.append({"sub_check": sc.name, "labels": sorted(ctx.labels), "case": json.loads(js)})
                    else:   # large case: keep a truncated rendering so that evidence always shows what a case looks like
                        stats.samples.append({"sub_check": sc.name, "labels": sorted(ctx.labels), "case_json_truncated": js[:1500], "case_json_length": len(js)})
    return ctx


def corpus_files(prop):
    """saved inputs of earlier failures (regress/<prop>/*.json: shrunk cases that exposed a fixed defect, a hand-written mutant or an
    independently seeded change). They are inputs, not oracles: each is re-run through its sub-check like a generated case."""
    d = os.path.join(VERIF_DIR, "regress", prop)
    if os.environ.get("VERIF_NO_CORPUS") == "1" or not os.path.isdir(d):
        return []
    return [os.path.join(d, f) for f in sorted(os.listdir(d)) if f.endswith(".json")]


def run_corpus(mod, prop, tier, stats, open_f, only, shard):
    """replays this shard's share of the saved-input corpus; returns a violation dict or None"""
    k, nsh = shard
    by_name = {sc.name: sc for sc in mod.SUBCHECKS}
    for i, path in enumerate(corpus_files(prop)):
        if i % nsh != k:
            continue
        try:
            ent = json.load(open(path))
            sc = by_name.get(ent["sub_check"])
            case = ent["case"]
        except Exception:
            sc = None
        if sc is None:
            stats.discarded["corpus:unreadable-or-unknown-sub-check"] = stats.discarded.get("corpus:unreadable-or-unknown-sub-check", 0) + 1
            continue
        if only and sc.name not in only:
            continue
        try:
            run_case(mod, sc, case, stats, tier, open_f)
            stats.classes["corpus:replayed"] = stats.classes.get("corpus:replayed", 0) + 1
        except Violation as v:
            return {"property": prop, "sub_check": sc.name, "signature": v.signature, "message": v.message + f" [saved input {os.path.relpath(path, VERIF_DIR)}]",
                    "detail": v.detail, "case": jsonable(case), "seed": None, "tier": tier}
        except HarnessError:
            # the case was saved by an older version of the check and can no longer be interpreted: counted, never an alarm
            stats.discarded["corpus:stale-case-format"] = stats.discarded.get("corpus:stale-case-format", 0) + 1
    return None


def run_shard(prop, tier, seed, only=None, budget_scale=1.0, shrink_seconds=None, shard=(0, 1)):
    """Run all sub-checks of a property in this process. Returns dict(stats, violation)."""
    import hypothesis
    from hypothesis import given, settings, HealthCheck, Phase
    check_repo_import()
    mod = load_prop(prop)
    open_f, _ = load_known_findings(prop)
    stats = Stats()
    violation = None
    harness_error = None
    if shrink_seconds is None:
        shrink_seconds = 45 if tier == "quick" else 240
    try:
        violation = run_corpus(mod, prop, tier, stats, open_f, only, shard)
    except BaseException as e:
        if isinstance(e, KeyboardInterrupt):
            raise
        harness_error = "".join(traceback.format_exception(type(e), e, e.__traceback__))
    for idx, sc in enumerate(mod.SUBCHECKS):
        if violation is not None or harness_error is not None:
            break
        if only and sc.name not in only:
            continue
        n = sc.quick if tier == "quick" else sc.thorough
        nf = n * budget_scale
        if nf >= 2:
            n = int(nf)
        else:
            # tiny budgets (expensive size-regime cases): the first example Hypothesis generates is always the simplest one, the
            # same in every shard. Instead of running it once per shard, the stated total is given to few shards, each with
            # one example more than its share (the simplest + random ones).
            k, nsh = shard
            if tier == "quick":
                total = max(1, int(round(nf * nsh)))
                used = max(1, total // 2)
                if k >= used:
                    continue
                n = 1 + -(-total // used)
            else:
                n = 2
        best = {"v": None, "case": None, "size": None, "t0": None}

        inc0 = stats.inconclusive

        def test(case):
            if best["t0"] is not None and time.time() - best["t0"] > shrink_seconds:
                return  # stop shrinking: make everything pass so that Hypothesis winds down
            if stats.inconclusive - inc0 >= 4:
                # the watchdog fired four times in this sub-check of this shard: whatever makes cases hang would turn the rest of
                # the budget into hours of waiting. The remaining examples are skipped and counted; the outcome stays inconclusive.
                stats.discarded["skipped-after-4-watchdog-timeouts:" + sc.name] = stats.discarded.get("skipped-after-4-watchdog-timeouts:" + sc.name, 0) + 1
                return
            try:
                run_case(mod, sc, case, stats, tier, open_f)
            except Violation as v:
                js = case_dumps(case)
                if best["v"] is None or len(js) < best["size"]:
                    best["v"], best["case"], best["size"] = v, json.loads(js), len(js)
                if best["t0"] is None:
                    best["t0"] = time.time()
                raise

        wrapped = hypothesis.seed(seed * 7919 + idx)(
            settings(max_examples=n, deadline=None, database=None, derandomize=False,
                     report_multiple_bugs=False, suppress_health_check=list(HealthCheck),
                     phases=[Phase.generate, Phase.shrink], print_blob=False)(
                given(sc.strategy)(test)))
        try:
            wrapped()
        except HarnessError as e:
            harness_error = str(e)
            break
        except BaseException as e:
            if best["v"] is None:
                if isinstance(e, KeyboardInterrupt):
                    raise
                harness_error = "".join(traceback.format_exception(type(e), e, e.__traceback__))
                break
        if best["v"] is not None:
            v = best["v"]
            violation = {"property": prop, "sub_check": sc.name, "signature": v.signature, "message": v.message,
                         "detail": v.detail, "case": best["case"], "seed": seed, "tier": tier}
            break
    return {"stats": stats.to_dict(), "violation": violation, "harness_error": harness_error}


def _shard_entry(args):
    prop, tier, seed, only, scale = args[:5]
    shard = args[5] if len(args) > 5 else (0, 1)
    try:
        # a runaway allocation inside the code under test must surface as MemoryError in the case (-> a violation with a
        # replay), not as a killed worker
        import resource
        cap = int(os.environ.get("VERIF_MEM_GB", "12")) * (1 << 30)
        soft, hard = resource.getrlimit(resource.RLIMIT_AS)
        if hard == resource.RLIM_INFINITY or cap < hard:
            resource.setrlimit(resource.RLIMIT_AS, (cap, hard))
    except Exception:
        pass
    try:
        return run_shard(prop, tier, seed, only, scale, shard=shard)
    except BaseException as e:
        return {"stats": Stats().to_dict(), "violation": None,
                "harness_error": "".join(traceback.format_exception(type(e), e, e.__traceback__))}


def write_replay(viol):
    os.makedirs(os.path.join(OUT_DIR, "replays"), exist_ok=True)
    js = json.dumps(viol, sort_keys=True, indent=1)
    h = hashlib.sha1(js.encode()).hexdigest()[:10]
    rel = os.path.join("replays", f"{viol['property']}-{viol['sub_check']}-{h}.json")
    with open(os.path.join(OUT_DIR, rel), "w") as f:
        f.write(js)
    return rel


def write_evidence(prop, tier, seed, mod, stats, wall, n_viol, shards, extra=None):
    os.makedirs(os.path.join(OUT_DIR, "evidence"), exist_ok=True)
    cov = {
        "evaluations": stats.evaluations,
        "distinct_nontrivial": len(stats.nontrivial),
        "rule": mod.RULE,
        "samples": stats.samples[:6],
        "classes": dict(sorted(stats.classes.items())),
        "sub_checks": stats.sub,
        "oracle_assertions": stats.assertions,
        "excluded_known": stats.excluded,
        "excluded_known_samples": stats.excluded_samples,
        "discarded": stats.discarded,
        "inconclusive": stats.inconclusive,
        "shards": shards,
        "exhaustive": False,
    }
    if extra:
        cov.update(extra)
    ev = {"property_id": prop, "tier": tier, "seed": seed, "level": "exploration", "coverage": cov,
          "assumptions": getattr(mod, "ASSUMPTIONS", []), "wall_s": round(wall, 2), "violations": n_viol}
    with open(os.path.join(OUT_DIR, "evidence", prop + ".json"), "w") as f:
        json.dump(ev, f, indent=1, sort_keys=True)


def main_check(prop, tier, only=None, nshards=None, scale=1.0):
    t0 = time.time()
    seed = int(os.environ.get("VERIF_SEED", "1"))
    check_repo_import()
    mod = load_prop(prop)
    if hasattr(mod, "self_test"):
        try:
            mod.self_test()
        except Exception as e:
            print("HARNESS ERROR: reference self-test failed:", e)
            traceback.print_exc()
            return 2
    open_f, fixed_f = load_known_findings(prop)
    if tier == "quick":
        nshards = nshards or int(os.environ.get("VERIF_QUICK_SHARDS", "8"))
    else:
        nshards = nshards or int(os.environ.get("VERIF_SHARDS", "16"))
    # every shard runs the full per-sub-check budget divided by the number of quick shards, so that
    # quick = stated budget in total; thorough = 16 shards x stated thorough budget
    if tier == "quick":
        jobs = [(prop, tier, seed * 1009 + k, only, scale / nshards, (k, nshards)) for k in range(nshards)]
    else:
        jobs = [(prop, tier, seed * 1009 + k, only, scale, (k, nshards)) for k in range(nshards)]
    if nshards == 1:
        results = [_shard_entry(jobs[0])]
    else:
        # ProcessPoolExecutor (not mp.Pool): if a worker process dies the run ends with an error instead of hanging
        import concurrent.futures as cf
        ctxmp = mp.get_context("fork")
        results = []
        with cf.ProcessPoolExecutor(max_workers=min(nshards, os.cpu_count() or 1), mp_context=ctxmp) as ex:
            futs = [ex.submit(_shard_entry, j) for j in jobs]
            for j, f in zip(jobs, futs):
                try:
                    results.append(f.result())
                except Exception as e:
                    results.append({"stats": Stats().to_dict(), "violation": None,
                                    "harness_error": f"worker process for shard seed {j[2]} died ({type(e).__name__}: {e}); no replay could be produced"})
    stats = Stats.merge([r["stats"] for r in results])
    herr = [r["harness_error"] for r in results if r["harness_error"]]
    viols = [r["violation"] for r in results if r["violation"]]
    wall = time.time() - t0
    rc = 0
    if herr:
        print("HARNESS ERROR:\n" + herr[0])
        rc = 2
    replay_paths = []
    if viols:
        # one replay per distinct (sub_check, signature); smallest case each
        bysig = {}
        for v in viols:
            k = (v["sub_check"], v["signature"])
            if k not in bysig or len(json.dumps(v["case"])) < len(json.dumps(bysig[k]["case"])):
                bysig[k] = v
        for k, v in sorted(bysig.items()):
            p = write_replay(v)
            replay_paths.append(p)
            print(f"VIOLATION property={prop} replay={p}")
            print(f"  sub_check={v['sub_check']} signature={v['signature']} :: {v['message'][:400]}")
        rc = 1
    for kf in open_f:
        print(f"KNOWN-FINDING: property={prop} {kf['id']}: {kf['description']} (cases excluded this run: {stats.excluded.get(kf['id'], 0)})")
    try:
        if stats.evaluations > 0:
            write_evidence(prop, tier, seed, mod, stats, wall, len(replay_paths), nshards)
    except Exception as e:
        print("HARNESS ERROR: cannot write evidence:", e)
        rc = rc or 2
    print(f"{prop} {tier}: evaluations={stats.evaluations} distinct_nontrivial={len(stats.nontrivial)} "
          f"assertions={stats.assertions} inconclusive={stats.inconclusive} excluded_known={sum(stats.excluded.values())} "
          f"wall={wall:.1f}s exit={rc}")
    return rc


def main_replay(path):
    check_repo_import()
    if not os.path.isabs(path):
        path = os.path.join(VERIF_DIR, path)
    viol = json.load(open(path))
    prop = viol["property"]
    mod = load_prop(prop)
    sc = [s for s in mod.SUBCHECKS if s.name == viol["sub_check"]]
    if not sc:
        print("HARNESS ERROR: unknown sub-check", viol["sub_check"])
        return 2
    open_f, _ = load_known_findings(prop)
    stats = Stats()
    try:
        ctx = run_case(mod, sc[0], viol["case"], stats, viol.get("tier", "quick"), open_f)
    except Violation as v:
        rel = os.path.relpath(path, VERIF_DIR)
        print(f"VIOLATION property={prop} replay={rel}")
        print(f"  sub_check={v.sub_check} signature={v.signature} :: {v.message[:600]}")
        return 1
    except HarnessError as e:
        print("HARNESS ERROR:\n", e)
        return 2
    for k in ctx.known_hit:
        print(f"KNOWN-FINDING: property={prop} {k} (replayed case matches a listed finding)")
    print(f"replay of {os.path.basename(path)}: property held (assertions={ctx.n_assert})")
    return 0


def main_collect(prop, tier="quick", only=None, seeds=4):
    """Development aid: enumerate root causes by bucketing violations (not registered)."""
    import hypothesis
    from hypothesis import given, settings, HealthCheck, Phase
    check_repo_import()
    mod = load_prop(prop)
    open_f, _ = load_known_findings(prop)
    seed = int(os.environ.get("VERIF_SEED", "1"))
    buckets = {}
    stats = Stats()
    for idx, sc in enumerate(mod.SUBCHECKS):
        if only and sc.name not in only:
            continue
        n = sc.quick if tier == "quick" else sc.thorough

        def test(case):
            try:
                run_case(mod, sc, case, stats, tier, open_f)
            except Violation as v:
                key = (sc.name, v.signature, (v.detail or {}).get("where") if isinstance(v.detail, dict) else None)
                js = case_dumps(case)
                b = buckets.get(key)
                if b is None or len(js) < b["size"]:
                    buckets[key] = {"size": len(js), "case": json.loads(js), "msg": v.message, "n": (b["n"] if b else 0) + 1}
                else:
                    b["n"] += 1
        wrapped = hypothesis.seed(seed * 7919 + idx)(
            settings(max_examples=n, deadline=None, database=None, suppress_health_check=list(HealthCheck),
                     phases=[Phase.generate])(given(sc.strategy)(test)))
        wrapped()
    os.makedirs("/tmp/collect", exist_ok=True)
    for k, b in sorted(buckets.items(), key=lambda kv: str(kv[0])):
        fn = "/tmp/collect/" + prop + "-" + hashlib.sha1(str(k).encode()).hexdigest()[:8] + ".json"
        json.dump({"property": prop, "sub_check": k[0], "signature": k[1], "message": b["msg"], "case": b["case"], "tier": tier}, open(fn, "w"))
        print("BUCKET", k, "count", b["n"], "smallest", b["size"], "->", fn)
        print("   ", b["msg"][:300])
        print("   ", json.dumps(b["case"])[:600])
    print("evaluations", stats.evaluations, "nontrivial", len(stats.nontrivial), "inconclusive", stats.inconclusive)
    print("classes", json.dumps(stats.classes, sort_keys=True))
    return 0
