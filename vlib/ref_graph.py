"""Reference graph algorithms (independent of mouette): used by C09 (shortest paths) and C10 (spanning trees).

Every function is self-contained (plain Python, no shared state).  Graphs are given as a node count `n` (nodes are
0..n-1) and a list of undirected edges (a, b) or weighted edges (a, b, w).  Parallel edges and repeated pairs are allowed.

Sections:
    * C10: BFS hop distances, component partition, acyclicity, Kruskal minimum spanning forest weight
    * C09: Bellman-Ford distances, weight of a walk, bridge test / ">= 2 simple paths" predicate
"""
import math


# ============================================================================ C10: hops / components / Kruskal

def adjacency_lists(n, edges):
    """list of neighbour lists (with multiplicity) of an undirected graph"""
    adj = [[] for _ in range(n)]
    for e in edges:
        a, b = int(e[0]), int(e[1])
        adj[a].append(b)
        adj[b].append(a)
    return adj


def bfs_hops(n, edges, root):
    """Minimum number of edges from `root` to every node; None for unreachable nodes.
    Deliberately written level by level (frontier sets), not with a (parent, child) queue."""
    adj = adjacency_lists(n, edges)
    hops = [None] * n
    hops[root] = 0
    frontier = [root]
    level = 0
    while frontier:
        level += 1
        nxt = []
        for u in frontier:
            for v in adj[u]:
                if hops[v] is None:
                    hops[v] = level
                    nxt.append(v)
        frontier = nxt
    return hops


class _DSU:
    def __init__(self, n):
        self.p = list(range(n))

    def find(self, x):
        r = x
        while self.p[r] != r:
            r = self.p[r]
        while self.p[x] != r:
            self.p[x], x = r, self.p[x]
        return r

    def union(self, a, b):
        ra, rb = self.find(a), self.find(b)
        if ra == rb:
            return False
        if ra < rb:
            self.p[rb] = ra
        else:
            self.p[ra] = rb
        return True


def component_labels(n, edges):
    """label[v] = smallest node of the connected component of v"""
    d = _DSU(n)
    for e in edges:
        d.union(int(e[0]), int(e[1]))
    return [d.find(v) for v in range(n)]      # union keeps the smaller root, so the root is the minimum


def partition(n, edges):
    """connected components as a sorted list of sorted node lists (canonical form, comparable with ==)"""
    lab = component_labels(n, edges)
    comps = {}
    for v, l in enumerate(lab):
        comps.setdefault(l, []).append(v)
    return sorted(sorted(c) for c in comps.values())


def component_of(n, edges, root):
    """sorted list of the nodes connected to root"""
    lab = component_labels(n, edges)
    return [v for v in range(n) if lab[v] == lab[root]]


def is_forest(n, edges):
    """True iff the undirected edge list has no cycle (a repeated pair or a loop counts as a cycle)"""
    d = _DSU(n)
    for e in edges:
        a, b = int(e[0]), int(e[1])
        if a == b or not d.union(a, b):
            return False
    return True


def kruskal(n, wedges):
    """Minimum spanning forest of the weighted undirected graph.  wedges: iterable of (a, b, w).
    Returns (total weight (fsum), number of forest edges, list of chosen (a, b, w))."""
    d = _DSU(n)
    chosen = []
    for (a, b, w) in sorted(((int(a), int(b), float(w)) for (a, b, w) in wedges), key=lambda t: (t[2], t[0], t[1])):
        if a != b and d.union(a, b):
            chosen.append((a, b, w))
    return math.fsum(w for _, _, w in chosen), len(chosen), chosen


def brute_force_msf_weight(n, wedges):
    """minimum total weight over all spanning forests with the maximum number of edges, by enumeration
    (exponential; only for the self-test)"""
    import itertools
    wedges = list(wedges)
    k = n - len(partition(n, [(a, b) for a, b, _ in wedges]))
    best = None
    for sub in itertools.combinations(wedges, k):
        if is_forest(n, [(a, b) for a, b, _ in sub]):
            t = math.fsum(w for _, _, w in sub)
            if best is None or t < best:
                best = t
    return best


def self_test_c10():
    # path 0-1-2, isolated 3, triangle 4-5-6
    E = [(0, 1), (2, 1), (4, 5), (5, 6), (6, 4)]
    assert bfs_hops(7, E, 0) == [0, 1, 2, None, None, None, None]
    assert bfs_hops(7, E, 5) == [None, None, None, None, 1, 0, 1]
    assert partition(7, E) == [[0, 1, 2], [3], [4, 5, 6]]
    assert component_labels(7, E) == [0, 0, 0, 3, 4, 4, 4]
    assert component_of(7, E, 6) == [4, 5, 6]
    assert is_forest(7, E[:4]) and not is_forest(7, E) and not is_forest(3, [(0, 1), (1, 0)]) and not is_forest(2, [(1, 1)])
    # 4-cycle with a chord: hops around the cycle
    E2 = [(0, 1), (1, 2), (2, 3), (3, 0), (0, 2)]
    assert bfs_hops(4, E2, 1) == [1, 0, 1, 2]
    W = [(0, 1, 1.0), (1, 2, 2.0), (2, 3, 1.0), (3, 0, 2.0), (0, 2, 1.0)]
    t, k, ch = kruskal(4, W)
    assert k == 3 and t == 3.0 and t == brute_force_msf_weight(4, W)
    # ties, negative weights, two components
    W2 = [(0, 1, 1.0), (1, 2, 1.0), (0, 2, 1.0), (3, 4, -2.0), (4, 5, 0.5), (3, 5, 0.5)]
    t, k, ch = kruskal(6, W2)
    assert k == 4 and t == 0.5 and t == brute_force_msf_weight(6, W2)
    return True


# ============================================================================ C09: weighted distances / path counting

def bellman_ford(n, wedges, src):
    """Minimum total weight from `src` to every node of the undirected weighted graph; math.inf when unreachable.
    wedges: iterable of (a, b, w) with w >= 0.  Plain edge relaxation rounds until a fixed point (no priority queue,
    no visited set), so it shares no mechanism with a Dijkstra implementation.  Parallel edges: the lighter one counts."""
    E = [(int(a), int(b), float(w)) for (a, b, w) in wedges]
    for (_, _, w) in E:
        if not w >= 0:
            raise ValueError("bellman_ford reference expects non-negative weights")
    dist = [math.inf] * n
    dist[src] = 0.0
    for _ in range(n + 1):
        changed = False
        for (a, b, w) in E:
            if dist[a] + w < dist[b]:
                dist[b] = dist[a] + w
                changed = True
            if dist[b] + w < dist[a]:
                dist[a] = dist[b] + w
                changed = True
        if not changed:
            break
    else:
        raise AssertionError("bellman_ford did not converge (negative cycle?)")
    return dist


def walk_weight(wedges, walk):
    """(weight, None) of a vertex sequence stepping along graph edges (lightest parallel edge), or (None, (u, v)) for the
    first step that is not an edge.  Summed with fsum."""
    W = {}
    for (a, b, w) in wedges:
        k = (min(int(a), int(b)), max(int(a), int(b)))
        w = float(w)
        if k not in W or w < W[k]:
            W[k] = w
    ws = []
    for u, v in zip(walk, walk[1:]):
        k = (min(u, v), max(u, v))
        if u == v or k not in W:
            return None, (u, v)
        ws.append(W[k])
    return math.fsum(ws), None


def is_bridge(n, edges, e):
    """True iff removing the undirected edge e=(a,b) (all its parallel copies) disconnects a from b"""
    a, b = int(e[0]), int(e[1])
    rest = [(int(x), int(y)) for (x, y) in ((f[0], f[1]) for f in edges) if {int(x), int(y)} != {a, b}]
    return bfs_hops(n, rest, a)[b] is None


def has_two_simple_paths(n, edges, s, t):
    """True iff there are >= 2 distinct simple paths between s and t.
    (s != t connected: the simple path is unique iff every edge of one s-t path is a bridge - each such bridge must be
    crossed, consecutive bridges share their endpoint, and a simple path cannot leave that endpoint and come back.)"""
    if s == t:
        return False
    edges = [(int(e[0]), int(e[1])) for e in edges]
    hops = bfs_hops(n, edges, s)
    if hops[t] is None:
        return False
    adj = adjacency_lists(n, edges)
    # walk back one BFS path from t to s
    v = t
    while v != s:
        u = next(x for x in adj[v] if hops[x] == hops[v] - 1)
        if sum(1 for x in adj[v] if x == u) > 1 or not is_bridge(n, edges, (u, v)):
            return True
        v = u
    return False


def brute_force_simple_paths(n, edges, s, t):
    """all simple paths s..t as vertex lists (exponential; only for self-tests). Parallel edges are not distinguished."""
    adj = [sorted(set(a)) for a in adjacency_lists(n, edges)]
    out = []

    def rec(path, seen):
        v = path[-1]
        if v == t:
            out.append(list(path))
            return
        for w in adj[v]:
            if w not in seen:
                seen.add(w); path.append(w)
                rec(path, seen)
                path.pop(); seen.discard(w)
    rec([s], {s})
    return out


def self_test_c09():
    import random
    rnd = random.Random(12345)
    # fixed: 4-cycle with chord and a pendant, zero weights and ties
    W = [(0, 1, 1.0), (1, 2, 0.0), (2, 3, 2.0), (3, 0, 1.0), (0, 2, 1.0), (3, 4, 0.5)]
    assert bellman_ford(6, W, 0) == [0.0, 1.0, 1.0, 1.0, 1.5, math.inf]
    assert walk_weight(W, [0, 2, 1]) == (1.0, None) and walk_weight(W, [0, 4])[1] == (0, 4) and walk_weight(W, [3]) == (0.0, None)
    E = [(a, b) for a, b, _ in W]
    assert has_two_simple_paths(6, E, 0, 2) and has_two_simple_paths(6, E, 0, 4) and not has_two_simple_paths(6, E, 3, 4)
    assert not has_two_simple_paths(6, E, 0, 5) and not has_two_simple_paths(6, E, 2, 2)
    # random small graphs against exhaustive enumeration of simple paths
    for _ in range(150):
        n = rnd.randint(1, 7)
        pairs = [(i, j) for i in range(n) for j in range(i)]
        E = [p for p in pairs if rnd.random() < 0.45]
        Wt = [(a, b, rnd.choice([0.0, 0.0, 1.0, 1.0, 2.0, 0.5, rnd.uniform(0, 3)])) for a, b in E]
        s = rnd.randrange(n)
        d = bellman_ford(n, Wt, s)
        for t in range(n):
            P = brute_force_simple_paths(n, E, s, t)
            if not P:
                assert d[t] == math.inf and not has_two_simple_paths(n, E, s, t)
                continue
            best = min(walk_weight(Wt, p)[0] for p in P)
            assert abs(best - d[t]) <= 1e-12 * max(1.0, best), (n, Wt, s, t, best, d[t])
            assert has_two_simple_paths(n, E, s, t) == (len(P) >= 2), (n, E, s, t, len(P))
    return True
