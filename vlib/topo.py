"""Reference topology computed from raw face / cell lists only (independent of mouette)."""
from collections import defaultdict


def key(*a):
    if len(a) == 1:
        a = a[0]
    return tuple(sorted(int(x) for x in a))


# --------------------------------------------------------------------------------- surfaces

class SurfRef:
    """Everything a polygon surface's face list implies."""

    def __init__(self, nV, F):
        self.nV = nV
        self.F = [tuple(int(v) for v in f) for f in F]
        self.he = {}              # (a,b) -> (face, local index of a)
        for iF, f in enumerate(self.F):
            n = len(f)
            for i in range(n):
                self.he[(f[i], f[(i + 1) % n])] = (iF, i)
        self.corner0 = []          # first corner of each face (corners enumerated face by face)
        c = 0
        for f in self.F:
            self.corner0.append(c)
            c += len(f)
        self.nC = c
        self.corner_vertex = [v for f in self.F for v in f]
        self.corner_face = [iF for iF, f in enumerate(self.F) for _ in f]
        self.corner_local = [i for f in self.F for i in range(len(f))]
        self.uedges = set(key(a, b) for (a, b) in self.he)
        self.v2f = defaultdict(list)
        for iF, f in enumerate(self.F):
            for v in f:
                self.v2f[v].append(iF)
        self.v2v = defaultdict(set)
        for (a, b) in self.uedges:
            self.v2v[a].add(b)
            self.v2v[b].add(a)

    # ---- validation of the input class (oriented manifold, representable by the data model)
    def validate(self):
        seen = set()
        fsets = set()
        for iF, f in enumerate(self.F):
            if len(f) < 3:
                return f"face {iF} has <3 vertices"
            if len(set(f)) != len(f):
                return f"face {iF} repeats a vertex"
            if any(v < 0 or v >= self.nV for v in f):
                return f"face {iF} out of range"
            k = key(f)
            if k in fsets:
                return f"two faces with vertex set {k}"
            fsets.add(k)
            n = len(f)
            for i in range(n):
                h = (f[i], f[(i + 1) % n])
                if h in seen:
                    return f"half-edge {h} twice"
                seen.add(h)
        # a pair of vertices that is an edge of one face must not be a non-edge diagonal... (allowed)
        for v in range(self.nV):
            if v not in self.v2f:
                continue
            r = self.ring(v)
            if r is None:
                return f"vertex {v} link is not a single path/cycle"
        return None

    # ---- elementary answers
    def corner_of(self, v, f):
        fl = self.F[f]
        if v in fl:
            return self.corner0[f] + fl.index(v)
        return None

    def next_corner(self, c):
        f = self.corner_face[c]; n = len(self.F[f])
        return self.corner0[f] + (self.corner_local[c] + 1) % n

    def prev_corner(self, c):
        f = self.corner_face[c]; n = len(self.F[f])
        return self.corner0[f] + (self.corner_local[c] - 1) % n

    def corner_he(self, c):
        f = self.corner_face[c]; fl = self.F[f]; i = self.corner_local[c]
        return (fl[i], fl[(i + 1) % len(fl)])

    def opposite_corner(self, c):
        a, b = self.corner_he(c)
        o = self.he.get((b, a))
        if o is None:
            return None
        return self.corner0[o[0]] + o[1]

    def direct_face(self, u, v):
        o = self.he.get((u, v))
        return None if o is None else o[0]

    def direct_face_inds(self, u, v):
        o = self.he.get((u, v))
        if o is None:
            return (None, None, None)
        f, i = o
        return (f, i, (i + 1) % len(self.F[f]))

    def is_edge(self, u, v):
        return key(u, v) in self.uedges

    def edge_on_border(self, u, v):
        if not self.is_edge(u, v):
            return False
        return ((u, v) in self.he) != ((v, u) in self.he)

    def border_edges(self):
        # (cached: the reference is immutable; callers get a fresh set each time)
        if getattr(self, "_border_edges", None) is None:
            self._border_edges = frozenset(e for e in self.uedges if self.edge_on_border(*e))
        return set(self._border_edges)

    def border_vertices(self):
        if getattr(self, "_border_vertices", None) is None:
            s = set()
            for a, b in self.border_edges():
                s.add(a); s.add(b)
            self._border_vertices = frozenset(s)
        return set(self._border_vertices)

    def face_neighbours(self, f):
        """multiset (sorted list) of faces across each side of f"""
        out = []
        fl = self.F[f]; n = len(fl)
        for i in range(n):
            o = self.he.get((fl[(i + 1) % n], fl[i]))
            if o is not None:
                out.append(o[0])
        return sorted(out)

    # ---- rotational order around a vertex
    def ring(self, v):
        """Returns (is_closed, faces, vertices) in the library's rotational direction:
        faces[k+1] lies across the edge from v to its successor in faces[k];
        vertices: interior -> [succ(v) in faces[k]]; border -> [pred in faces[0]] + [succ in faces[k]].
        None if the link of v is not a single cycle/path."""
        fs = self.v2f.get(v, [])
        if not fs:
            return (False, [], [])
        succ = {}; pred = {}
        for f in fs:
            fl = self.F[f]; i = fl.index(v); n = len(fl)
            succ[f] = fl[(i + 1) % n]; pred[f] = fl[(i - 1) % n]
        # next face after f = face whose pred == succ[f]  (i.e. face containing half-edge (succ,v) )
        bypred = {}
        for f in fs:
            if pred[f] in bypred:
                return None
            bypred[pred[f]] = f
        bysucc = {}
        for f in fs:
            if succ[f] in bysucc:
                return None
            bysucc[succ[f]] = f
        starts = [f for f in fs if pred[f] not in bysucc]   # faces whose pred-edge is a border edge
        if len(starts) > 1:
            return None
        closed = len(starts) == 0
        f0 = starts[0] if starts else fs[0]
        order = [f0]
        while True:
            nf = bypred.get(succ[order[-1]])
            if nf is None or nf == f0:
                break
            if nf in order:
                return None
            order.append(nf)
        if len(order) != len(fs):
            return None
        verts = [succ[f] for f in order]
        if not closed:
            verts = [pred[f0]] + verts
        return (closed, order, verts)

    # ---- global
    def border_loops(self):
        """list of loops, each a list of vertices following the border half-edge direction (face on the left)"""
        nxt = {}
        for (a, b) in self.he:
            if (b, a) not in self.he:
                if a in nxt:
                    return None  # bow-tie
                nxt[a] = b
        loops = []
        seen = set()
        for s in sorted(nxt):
            if s in seen:
                continue
            loop = [s]; seen.add(s)
            c = nxt[s]
            while c != s:
                if c in seen or c not in nxt:
                    return None
                loop.append(c); seen.add(c)
                c = nxt[c]
            loops.append(loop)
        return loops

    def components(self):
        """partition of the vertices that appear in faces + isolated ones, through face adjacency by vertex"""
        parent = list(range(self.nV))

        def find(x):
            while parent[x] != x:
                parent[x] = parent[parent[x]]
                x = parent[x]
            return x
        for f in self.F:
            for v in f[1:]:
                ra, rb = find(f[0]), find(v)
                if ra != rb:
                    parent[ra] = rb
        comps = defaultdict(set)
        for v in range(self.nV):
            comps[find(v)].add(v)
        return list(comps.values())

    def n_face_components(self):
        used = set(v for f in self.F for v in f)
        return sum(1 for c in self.components() if c & used)

    def euler(self):
        used = set(v for f in self.F for v in f)
        return len(used) - len(self.uedges) + len(self.F)


def surface_validate(nV, F):
    return SurfRef(nV, F).validate()


# --------------------------------------------------------------------------------- volumes (tets)

TET_FACES = [(1, 3, 2), (0, 2, 3), (3, 1, 0), (0, 1, 2)]   # face i is opposite vertex i


class TetRef:
    def __init__(self, nV, C):
        self.nV = nV
        self.C = [tuple(int(v) for v in c) for c in C]
        self.f2c = defaultdict(list)      # face key -> cells
        for iC, c in enumerate(self.C):
            for i in range(4):
                self.f2c[key(c[:i] + c[i + 1:])].append(iC)
        self.fkeys = set(self.f2c)
        self.ekeys = set()
        self.e2c = defaultdict(set)
        self.e2f = defaultdict(set)
        for iC, c in enumerate(self.C):
            for i in range(4):
                for j in range(i):
                    self.ekeys.add(key(c[i], c[j]))
                    self.e2c[key(c[i], c[j])].add(iC)
        for fk in self.fkeys:
            for i in range(3):
                self.e2f[key(fk[i], fk[(i + 1) % 3])].add(fk)
        self.v2c = defaultdict(set)
        for iC, c in enumerate(self.C):
            for v in c:
                self.v2c[v].add(iC)

    def validate(self):
        csets = set()
        for iC, c in enumerate(self.C):
            if len(c) != 4 or len(set(c)) != 4:
                return f"cell {iC} not 4 distinct vertices"
            if any(v < 0 or v >= self.nV for v in c):
                return f"cell {iC} out of range"
            if key(c) in csets:
                return f"duplicate cell {key(c)}"
            csets.add(key(c))
        for fk, cs in self.f2c.items():
            if len(cs) > 2:
                return f"face {fk} in {len(cs)} cells"
        # boundary must be a manifold surface and every edge ring a single cycle/path
        for ek in self.ekeys:
            if self.edge_ring(ek) is None:
                return f"edge {ek}: cells do not form a single fan"
        return None

    def border_faces(self):
        return set(fk for fk, cs in self.f2c.items() if len(cs) == 1)

    def border_edges(self):
        s = set()
        for fk in self.border_faces():
            for i in range(3):
                s.add(key(fk[i], fk[(i + 1) % 3]))
        return s

    def border_vertices(self):
        s = set()
        for fk in self.border_faces():
            s.update(fk)
        return s

    def cell_neighbours(self, iC):
        out = []
        c = self.C[iC]
        for i in range(4):
            for o in self.f2c[key(c[:i] + c[i + 1:])]:
                if o != iC:
                    out.append(o)
        return sorted(out)

    def edge_ring(self, ek):
        """(closed, n_cells, n_faces) if the cells around the edge form one fan, else None"""
        cells = self.e2c[ek]
        faces = self.e2f[ek]
        # graph: cells <-> faces incidence; a single cycle or a single path
        adj = defaultdict(list)
        for fk in faces:
            for c in self.f2c[fk]:
                if c in cells:
                    adj[("f", fk)].append(("c", c))
                    adj[("c", c)].append(("f", fk))
        for c in cells:
            if len(adj[("c", c)]) != 2:
                return None
        ends = [n for n in adj if n[0] == "f" and len(adj[n]) == 1]
        if len(ends) not in (0, 2):
            return None
        # connectivity
        start = next(iter(adj))
        seen = {start}; stack = [start]
        while stack:
            x = stack.pop()
            for y in adj[x]:
                if y not in seen:
                    seen.add(y); stack.append(y)
        if len(seen) != len(adj):
            return None
        return (len(ends) == 0, len(cells), len(faces))


def is_rotation_or_shift(seq, ref, cyclic):
    """seq equals ref up to cyclic shift (cyclic=True) or exactly (cyclic=False)"""
    seq = list(seq); ref = list(ref)
    if len(seq) != len(ref):
        return False
    if not cyclic:
        return seq == ref
    if not ref:
        return True
    n = len(ref)
    for s in range(n):
        if seq == ref[s:] + ref[:s]:
            return True
    return False
