"""Helpers building mouette objects from realised cases (always fresh objects)."""
import numpy as np


def surface_from(V, F, E=None, form="list"):
    import mouette as M
    from mouette.mesh.mesh_data import RawMeshData
    raw = RawMeshData()
    if form == "numpy":
        raw.vertices += [np.array(v, dtype=float) for v in V]
    else:
        raw.vertices += [list(map(float, v)) for v in V]
    if E:
        raw.edges += [tuple(e) for e in E]
    if form == "tuple":
        raw.faces += [tuple(f) for f in F]
    elif form == "numpy":
        raw.faces += [np.array(f) for f in F]
    else:
        raw.faces += [list(f) for f in F]
    return M.mesh.SurfaceMesh(raw)


def volume_from(V, C, form="list"):
    import mouette as M
    from mouette.mesh.mesh_data import RawMeshData
    raw = RawMeshData()
    raw.vertices += [list(map(float, v)) for v in V]
    if form == "tuple":
        raw.cells += [tuple(c) for c in C]
    elif form == "numpy":
        raw.cells += [np.array(c) for c in C]
    else:
        raw.cells += [list(c) for c in C]
    return M.mesh.VolumeMesh(raw)


def polyline_from(V, E):
    import mouette as M
    from mouette.mesh.mesh_data import RawMeshData
    raw = RawMeshData()
    raw.vertices += [list(map(float, v)) for v in V]
    raw.edges += [tuple(e) for e in E]
    return M.mesh.PolyLine(raw)


def pointcloud_from(V):
    import mouette as M
    from mouette.mesh.mesh_data import RawMeshData
    raw = RawMeshData()
    raw.vertices += [list(map(float, v)) for v in V]
    return M.mesh.PointCloud(raw)


def coords(mesh):
    return np.array([[float(x) for x in v] for v in mesh.vertices], dtype=float).reshape(-1, 3)


def ints(seq):
    from .runner import MalformedAnswer
    try:
        return [int(x) for x in seq]
    except (TypeError, ValueError) as e:
        raise MalformedAnswer(f"the library returned {seq!r:.300} where a sequence of integer ids is expected ({e})")
