"""Reference P1 finite-element quantities in plain numpy (independent of mouette).

Everything is derived from the barycentric-coordinate gradients of each simplex, obtained from the Gram matrix of the
simplex's edge vectors (no cotangent formula, no local 2-D basis):

    E = [p1-p0, ..., pd-p0]  (3 x d),   grads of lambda_1..lambda_d = columns of  E (E^T E)^-1,   grad lambda_0 = -sum
    measure = sqrt(det(E^T E)) / d!
    K_loc[i,j] = measure * <grad lambda_i, grad lambda_j>
"""
import math
import numpy as np


def simplex_grads(P):
    """P: (d+1, 3) points of a d-simplex (d = 2 or 3). Returns (grads (d+1,3), measure)."""
    P = np.asarray(P, dtype=float)
    d = P.shape[0] - 1
    E = (P[1:] - P[0]).T                      # 3 x d
    Gm = E.T @ E                              # d x d Gram matrix
    det = float(np.linalg.det(Gm))
    if not det > 0:
        raise ValueError("degenerate simplex")
    B = E @ np.linalg.inv(Gm)                 # 3 x d : columns = grad lambda_1..d
    g = np.zeros((d + 1, 3))
    g[1:] = B.T
    g[0] = -B.sum(axis=1)
    return g, math.sqrt(det) / math.factorial(d)


def measures(V, S):
    V = np.asarray(V, dtype=float)
    return np.array([simplex_grads(V[list(s)])[1] for s in S], dtype=float)


def tri_normals(V, F):
    V = np.asarray(V, dtype=float)
    out = np.zeros((len(F), 3))
    for i, (a, b, c) in enumerate(F):
        n = np.cross(V[b] - V[a], V[c] - V[a])
        out[i] = n / np.linalg.norm(n)
    return out


def stiffness(V, S):
    """dense P1 stiffness matrix of a simplicial mesh (triangles in 3-D or tetrahedra)"""
    V = np.asarray(V, dtype=float)
    n = len(V)
    K = np.zeros((n, n))
    for s in S:
        s = list(s)
        g, mu = simplex_grads(V[s])
        K[np.ix_(s, s)] += mu * (g @ g.T)
    return K


def p1_gradient(V, F, f):
    """per-triangle gradient vector (3-D, tangent to the triangle) of the piecewise linear interpolant of vertex values f"""
    V = np.asarray(V, dtype=float)
    f = np.asarray(f, dtype=float)
    out = np.zeros((len(F), 3))
    for i, t in enumerate(F):
        t = list(t)
        g, _ = simplex_grads(V[t])
        out[i] = f[t] @ g
    return out


def tangential(a, N):
    """projection of the constant vector a on the planes with unit normals N (nF x 3)"""
    a = np.asarray(a, dtype=float)
    return a[None, :] - (N @ a)[:, None] * N


def tet_volumes_det(V, C):
    """|det(b-a, c-a, d-a)| / 6 -- a second, independent formula used by the self-test"""
    V = np.asarray(V, dtype=float)
    return np.array([abs(np.linalg.det(np.array([V[b] - V[a], V[c] - V[a], V[d] - V[a]]))) / 6 for (a, b, c, d) in C])


def self_test():
    # right triangle with unit legs
    V = [[0, 0, 0], [1, 0, 0], [0, 1, 0]]
    K = stiffness(V, [[0, 1, 2]])
    exp = np.array([[1, -.5, -.5], [-.5, .5, 0], [-.5, 0, .5]])
    assert np.allclose(K, exp, atol=1e-14), K
    assert abs(measures(V, [[0, 1, 2]])[0] - 0.5) < 1e-15
    # equilateral triangle: cot(60)/2 = 1/(2 sqrt 3) off-diagonal
    V = [[0, 0, 0], [1, 0, 0], [.5, math.sqrt(3) / 2, 0]]
    K = stiffness(V, [[0, 1, 2]])
    c = 1 / (2 * math.sqrt(3))
    assert np.allclose(K, np.array([[2 * c, -c, -c], [-c, 2 * c, -c], [-c, -c, 2 * c]]), atol=1e-14), K
    # unit corner tetrahedron: K = 1/6 * [[3,-1,-1,-1],[-1,1,0,0],[-1,0,1,0],[-1,0,0,1]]
    V = [[0, 0, 0], [1, 0, 0], [0, 1, 0], [0, 0, 1]]
    K = stiffness(V, [[0, 1, 2, 3]])
    exp = np.array([[3, -1, -1, -1], [-1, 1, 0, 0], [-1, 0, 1, 0], [-1, 0, 0, 1]]) / 6
    assert np.allclose(K, exp, atol=1e-14), K
    assert abs(measures(V, [[0, 1, 2, 3]])[0] - 1 / 6) < 1e-15 and abs(tet_volumes_det(V, [[0, 1, 2, 3]])[0] - 1 / 6) < 1e-15
    # gradient of an affine function on a tilted triangle = tangential projection
    V = np.array([[0.2, 0.1, 0.3], [1.3, 0.2, -0.4], [0.1, 1.5, 0.9]])
    a = np.array([0.7, -1.1, 0.4])
    f = V @ a + 2.5
    g = p1_gradient(V, [[0, 1, 2]], f)
    N = tri_normals(V, [[0, 1, 2]])
    assert np.allclose(g, tangential(a, N), atol=1e-13), (g, tangential(a, N))
    assert abs(g[0] @ N[0]) < 1e-13
