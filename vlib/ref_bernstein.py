"""Reference Bezier evaluation in Bernstein form (independent of de Casteljau's recursion).

    curve(P, t)     = sum_i C(n,i) t^i (1-t)^(n-i) P[i]                          P: (n+1, dim)
    patch(P, u, v)  = sum_i sum_j B_i^m(v) B_j^n(u) P[i][j]                       P: (m+1, n+1, dim)

The patch convention (u runs along the *inner* index of the control net, v along the outer one) is the one
`mouette.splines.BezierPatch.evaluate(u, v)` / `as_surface` use: rows P[i] are curves in u, the results form a curve in v.
Exact rational arithmetic is available through `curve_exact` (used by the self-test only).
"""
from fractions import Fraction
from math import comb
import numpy as np


def bernstein(n, t):
    """the n+1 Bernstein basis values of degree n at t (plain floats, products of powers: no recursion)"""
    t = float(t)
    return np.array([comb(n, i) * (t ** i) * ((1.0 - t) ** (n - i)) for i in range(n + 1)], dtype=float)


def curve(P, t):
    P = np.asarray(P, dtype=float)
    return bernstein(P.shape[0] - 1, t) @ P


def patch(P, u, v):
    P = np.asarray(P, dtype=float)            # (m+1, n+1, dim)
    bv = bernstein(P.shape[0] - 1, v)
    bu = bernstein(P.shape[1] - 1, u)
    return np.einsum("i,j,ijk->k", bv, bu, P)


def curve_exact(P, t):
    """Fractions in, Fractions out"""
    n = len(P) - 1
    t = Fraction(t)
    dim = len(P[0])
    out = [Fraction(0)] * dim
    for i in range(n + 1):
        w = comb(n, i) * t ** i * (1 - t) ** (n - i)
        for k in range(dim):
            out[k] += w * Fraction(P[i][k])
    return out


def self_test():
    # partition of unity, end-point interpolation, agreement with exact arithmetic, a known quadratic
    for n in range(0, 8):
        for t in (0.0, 0.125, 0.3, 0.5, 0.99, 1.0):
            b = bernstein(n, t)
            assert abs(b.sum() - 1.0) < 1e-14 and (b >= 0).all()
        assert bernstein(n, 0.0)[0] == 1.0 and bernstein(n, 1.0)[n] == 1.0
    P = [[0, 0], [1, 2], [3, 1], [-2, 5], [7, 7]]
    for t in (Fraction(1, 3), Fraction(5, 8), Fraction(0), Fraction(1)):
        ex = curve_exact(P, t)
        fl = curve(P, float(t))
        assert all(abs(float(a) - b) < 1e-13 for a, b in zip(ex, fl))
    # quadratic (1-t)^2 A + 2t(1-t) B + t^2 C
    assert np.allclose(curve([[0, 0], [1, 2], [3, 1]], 0.5), [1.25, 1.25])
    # bilinear patch: P[i][j] with u on j, v on i
    Q = [[[0, 0, 0], [1, 0, 0]], [[0, 1, 0], [1, 1, 5]]]
    assert np.allclose(patch(Q, 1, 0), [1, 0, 0]) and np.allclose(patch(Q, 0, 1), [0, 1, 0])
    assert np.allclose(patch(Q, 0.5, 0.5), [0.5, 0.5, 1.25])
