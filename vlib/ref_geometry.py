"""Reference geometry: textbook per-element quantities evaluated with plain numpy from raw (V, index lists).

Nothing here imports mouette.  Formulas are deliberately *different* from the library's where a choice exists
(angles by arccos of the normalised dot product instead of atan2, cotangent as 1/tan(angle), areas and normals by
the polygon vector area (Newell), circumcentre by the barycentric side-length formula, tet volume by the scalar
triple product through numpy.linalg.det).

Conventions
  V : (n,3) float array;  F : list of vertex index lists (oriented polygons);  E : list of (a,b);  C : list of 4-lists.
  Corners are numbered face after face: corner0[f] + i is corner i of face f (vertex F[f][i]).
"""
import math
import numpy as np


def arr(V):
    return np.asarray(V, dtype=float).reshape(-1, 3)


# ----------------------------------------------------------------------------- rigid motions (harness side)

def quat_to_matrix(q):
    q = np.asarray(q, dtype=float)
    q = q / np.linalg.norm(q)
    a, b, c, d = q
    return np.array([[a * a + b * b - c * c - d * d, 2 * (b * c - a * d), 2 * (b * d + a * c)],
                     [2 * (b * c + a * d), a * a - b * b + c * c - d * d, 2 * (c * d - a * b)],
                     [2 * (b * d - a * c), 2 * (c * d + a * b), a * a - b * b - c * c + d * d]])


# ----------------------------------------------------------------------------- edges

def edges_of_faces(F):
    """set of unordered vertex pairs (low index first) bounding the faces"""
    s = set()
    for f in F:
        n = len(f)
        for i in range(n):
            a, b = f[i], f[(i + 1) % n]
            s.add((a, b) if a < b else (b, a))
    return s


def edges_of_cells(C):
    s = set()
    for c in C:
        for i in range(len(c)):
            for j in range(i):
                a, b = c[i], c[j]
                s.add((a, b) if a < b else (b, a))
    return s


def edge_lengths(V, E):
    V = arr(V)
    return np.array([math.sqrt(float(np.sum((V[b] - V[a]) ** 2))) for a, b in E], dtype=float)


def edge_midpoints(V, E):
    V = arr(V)
    return np.array([0.5 * V[a] + 0.5 * V[b] for a, b in E], dtype=float).reshape(-1, 3)


def vertex_degrees(nV, E):
    nb = [set() for _ in range(nV)]
    for a, b in E:
        nb[a].add(b); nb[b].add(a)
    return np.array([len(s) for s in nb], dtype=int)


# ----------------------------------------------------------------------------- faces

def vector_area(P):
    """half the sum of cross products of consecutive position vectors, taken relative to the first vertex"""
    P = np.asarray(P, dtype=float)
    o = P[0]
    s = np.zeros(3)
    for i in range(1, len(P) - 1):
        s += np.cross(P[i] - o, P[i + 1] - o)
    return 0.5 * s


def face_areas(V, F):
    V = arr(V)
    return np.array([np.linalg.norm(vector_area(V[list(f)])) for f in F], dtype=float)


def face_normals(V, F):
    V = arr(V)
    out = []
    for f in F:
        a = vector_area(V[list(f)])
        out.append(a / np.linalg.norm(a))
    return np.array(out, dtype=float).reshape(-1, 3)


def face_barycenters(V, F):
    V = arr(V)
    return np.array([V[list(f)].mean(axis=0) for f in F], dtype=float).reshape(-1, 3)


def tri_circumcenter(A, B, C):
    """barycentric formula with squared side lengths a2 = |BC|^2 ..."""
    A, B, C = (np.asarray(x, dtype=float) for x in (A, B, C))
    a2 = float(np.sum((B - C) ** 2)); b2 = float(np.sum((C - A) ** 2)); c2 = float(np.sum((A - B) ** 2))
    wa = a2 * (b2 + c2 - a2); wb = b2 * (c2 + a2 - b2); wc = c2 * (a2 + b2 - c2)
    return (wa * A + wb * B + wc * C) / (wa + wb + wc)


def face_circumcenters(V, F):
    V = arr(V)
    return np.array([tri_circumcenter(V[f[0]], V[f[1]], V[f[2]]) for f in F], dtype=float).reshape(-1, 3)


def planarity_defect(V, F):
    """max over faces of the distance of a vertex to the face's mean plane, divided by the face diameter"""
    V = arr(V)
    worst = 0.0
    for f in F:
        if len(f) == 3:
            continue
        P = V[list(f)]
        n = vector_area(P)
        nn = np.linalg.norm(n)
        if nn == 0:
            return float("inf")
        n = n / nn
        c = P.mean(axis=0)
        diam = max(np.linalg.norm(p - q) for p in P for q in P)
        worst = max(worst, float(np.max(np.abs((P - c) @ n))) / diam)
    return worst


def signed_corner_angles_deg(V, F):
    """for each face, the interior angle at each corner measured in the face's mean plane, in degrees, in (-180, 180]:
    a value <= 0 or close to 180 reveals a reflex / straight corner (non strictly convex polygon)."""
    V = arr(V)
    res = []
    for f in F:
        P = V[list(f)]
        nrm = vector_area(P)
        nn = np.linalg.norm(nrm)
        if nn == 0:
            res.append([0.0] * len(f)); continue
        nrm = nrm / nn
        n = len(f)
        row = []
        for i in range(n):
            u = P[(i + 1) % n] - P[i]
            w = P[i - 1] - P[i]
            s = float(np.dot(np.cross(u, w), nrm))
            c = float(np.dot(u, w))
            row.append(math.degrees(math.atan2(s, c)))
        res.append(row)
    return res


# ----------------------------------------------------------------------------- corners

def corner_offsets(F):
    off = [0]
    for f in F:
        off.append(off[-1] + len(f))
    return off


def angle_at(P, Q, R):
    """angle PQR (at Q) by arccos"""
    u = np.asarray(P, dtype=float) - np.asarray(Q, dtype=float)
    w = np.asarray(R, dtype=float) - np.asarray(Q, dtype=float)
    c = float(np.dot(u, w)) / (math.sqrt(float(np.dot(u, u))) * math.sqrt(float(np.dot(w, w))))
    return math.acos(max(-1.0, min(1.0, c)))


def corner_angles(V, F):
    """unsigned angle between the two sides of the face meeting at each corner (= interior angle for convex faces)"""
    V = arr(V)
    out = []
    for f in F:
        n = len(f)
        for i in range(n):
            out.append(angle_at(V[f[i - 1]], V[f[i]], V[f[(i + 1) % n]]))
    return np.array(out, dtype=float)


def corner_cotangents(V, F):
    return np.array([1.0 / math.tan(a) for a in corner_angles(V, F)], dtype=float)


def cotan_edge_weights(V, F, E):
    """for every edge: sum over the (one or two) incident triangles of cot(angle opposite to the edge) / 2"""
    V = arr(V)
    w = {}
    for f in F:
        assert len(f) == 3
        for i in range(3):
            a, b, c = f[i], f[(i + 1) % 3], f[(i + 2) % 3]       # edge (a,b), opposite vertex c
            k = (a, b) if a < b else (b, a)
            w[k] = w.get(k, 0.0) + 0.5 / math.tan(angle_at(V[a], V[c], V[b]))
    return np.array([w.get((a, b) if a < b else (b, a), 0.0) for a, b in E], dtype=float)


# ----------------------------------------------------------------------------- vertices

def border_vertices(F):
    he = set()
    for f in F:
        n = len(f)
        for i in range(n):
            he.add((f[i], f[(i + 1) % n]))
    bv = set()
    for (a, b) in he:
        if (b, a) not in he:
            bv.add(a); bv.add(b)
    return bv


def angle_defects(V, F, zero_border=False):
    """2 pi - (sum of incident corner angles) at interior vertices; at border vertices pi - sum (the discrete geodesic
    curvature of the border, the library's documented default) or 0 with zero_border"""
    V = arr(V)
    nV = len(V)
    ang = corner_angles(V, F)
    tot = np.zeros(nV)
    c = 0
    for f in F:
        for v in f:
            tot[v] += ang[c]; c += 1
    bv = border_vertices(F)
    out = np.zeros(nV)
    for v in range(nV):
        if v in bv:
            out[v] = 0.0 if zero_border else math.pi - tot[v]
        else:
            out[v] = 2 * math.pi - tot[v]
    return out


def vertex_normals(V, F, mode, fnormals=None):
    """normalised weighted sum of the unit normals of the incident faces. mode: uniform | area | angle.
    Returns (unit vectors, quality) with quality = |sum w n| / sum w  (small = ill-conditioned direction)."""
    V = arr(V)
    N = face_normals(V, F) if fnormals is None else np.asarray(fnormals, dtype=float)
    A = face_areas(V, F) if mode == "area" else None
    ang = corner_angles(V, F) if mode == "angle" else None
    acc = np.zeros((len(V), 3)); wsum = np.zeros(len(V))
    c = 0
    for k, f in enumerate(F):
        for v in f:
            w = 1.0 if mode == "uniform" else A[k] if mode == "area" else ang[c]
            acc[v] += w * N[k]; wsum[v] += w
            c += 1
    nrm = np.linalg.norm(acc, axis=1)
    safe = np.where(nrm > 0, nrm, 1.0)
    return acc / safe[:, None], nrm / np.where(wsum > 0, wsum, 1.0)


def faces_to_vertices(V, F, vals, mode):
    """weighted average (mode uniform | area | angle) or plain sum (mode sum) over incident faces of a face quantity"""
    V = arr(V)
    vals = np.asarray(vals, dtype=float)
    vals2 = vals.reshape(len(F), -1)
    acc = np.zeros((len(V), vals2.shape[1])); wsum = np.zeros(len(V))
    A = face_areas(V, F) if mode == "area" else None
    ang = corner_angles(V, F) if mode == "angle" else None
    c = 0
    for k, f in enumerate(F):
        for v in f:
            w = A[k] if mode == "area" else ang[c] if mode == "angle" else 1.0
            acc[v] += w * vals2[k]; wsum[v] += w
            c += 1
    if mode != "sum":
        acc = acc / wsum[:, None]
    return acc.reshape((len(V),) + vals.shape[1:])


def vertices_to_faces(F, vals):
    vals = np.asarray(vals, dtype=float)
    return np.array([np.mean(vals[list(f)], axis=0) for f in F], dtype=float)


def corners_to_vertices(V, F, vals, mode):
    V = arr(V)
    vals = np.asarray(vals, dtype=float)
    nC = sum(len(f) for f in F)
    vals2 = vals.reshape(nC, -1)
    acc = np.zeros((len(V), vals2.shape[1])); wsum = np.zeros(len(V))
    ang = corner_angles(V, F) if mode == "angle" else None
    c = 0
    for f in F:
        for v in f:
            w = ang[c] if mode == "angle" else 1.0
            acc[v] += w * vals2[c]; wsum[v] += w
            c += 1
    if mode != "sum":
        acc = acc / wsum[:, None]
    return acc.reshape((len(V),) + vals.shape[1:])


def corners_to_faces(V, F, vals, mode):
    V = arr(V)
    vals = np.asarray(vals, dtype=float)
    nC = sum(len(f) for f in F)
    vals2 = vals.reshape(nC, -1)
    acc = np.zeros((len(F), vals2.shape[1])); wsum = np.zeros(len(F))
    ang = corner_angles(V, F) if mode == "angle" else None
    c = 0
    for k, f in enumerate(F):
        for v in f:
            w = ang[c] if mode == "angle" else 1.0
            acc[k] += w * vals2[c]; wsum[k] += w
            c += 1
    if mode != "sum":
        acc = acc / wsum[:, None]
    return acc.reshape((len(F),) + vals.shape[1:])


# ----------------------------------------------------------------------------- cells

def tet_volumes(V, C):
    V = arr(V)
    out = []
    for c in C:
        a, b, cc, d = (V[i] for i in c)
        out.append(abs(float(np.linalg.det(np.array([b - a, cc - a, d - a])))) / 6.0)
    return np.array(out, dtype=float)


def cell_barycenters(V, C):
    V = arr(V)
    return np.array([V[list(c)].mean(axis=0) for c in C], dtype=float).reshape(-1, 3)


# ----------------------------------------------------------------------------- globals

def euler_characteristic(nV, F):
    return nV - len(edges_of_faces(F)) + len(F)


# ----------------------------------------------------------------------------- self test

def self_test():
    s2 = math.sqrt(2.0)
    V = [[0, 0, 0], [1, 0, 0], [0, 1, 0]]
    F = [[0, 1, 2]]
    a = corner_angles(V, F)
    assert np.allclose(a, [math.pi / 2, math.pi / 4, math.pi / 4], atol=1e-14), a
    assert np.allclose(corner_cotangents(V, F), [0, 1, 1], atol=1e-14)
    assert np.allclose(face_areas(V, F), [0.5]) and np.allclose(face_normals(V, F), [[0, 0, 1]])
    assert np.allclose(face_circumcenters(V, F), [[0.5, 0.5, 0]])
    assert np.allclose(face_barycenters(V, F), [[1 / 3, 1 / 3, 0]])
    E = [(0, 1), (1, 2), (0, 2)]
    assert np.allclose(edge_lengths(V, E), [1, s2, 1]) and np.allclose(edge_midpoints(V, E)[1], [.5, .5, 0])
    assert np.allclose(cotan_edge_weights(V, F, E), [0.5, 0.0, 0.5], atol=1e-14)
    assert np.allclose(angle_defects(V, F), [math.pi / 2, 3 * math.pi / 4, 3 * math.pi / 4])
    assert np.allclose(angle_defects(V, F, True), [0, 0, 0])
    # triangle lifted off the origin: circumcentre moves with it
    Vt = (np.array(V, float) + [3, 4, 5]).tolist()
    assert np.allclose(face_circumcenters(Vt, F), [[3.5, 4.5, 5]])
    # unit square and an L-shaped hexagon (non convex, area 3)
    assert np.allclose(face_areas([[0, 0, 0], [1, 0, 0], [1, 1, 0], [0, 1, 0]], [[0, 1, 2, 3]]), [1.0])
    L = [[0, 0, 0], [2, 0, 0], [2, 1, 0], [1, 1, 0], [1, 2, 0], [0, 2, 0]]
    assert np.allclose(face_areas(L, [list(range(6))]), [3.0]) and np.allclose(face_normals(L, [list(range(6))]), [[0, 0, 1]])
    assert min(signed_corner_angles_deg(L, [list(range(6))])[0]) < 0
    # regular tetrahedron: every defect is pi, sum 4 pi = 2 pi chi ; unit right tet volume 1/6
    T = [[1, 1, 1], [1, -1, -1], [-1, 1, -1], [-1, -1, 1]]
    TF = [[0, 1, 2], [0, 3, 1], [0, 2, 3], [1, 3, 2]]
    assert np.allclose(angle_defects(T, TF), [math.pi] * 4)
    assert euler_characteristic(4, TF) == 2
    n, _ = vertex_normals(T, TF, "angle")
    assert np.allclose(n, np.array(T) / math.sqrt(3))
    assert np.allclose(tet_volumes([[0, 0, 0], [1, 0, 0], [0, 1, 0], [0, 0, 1]], [[0, 1, 2, 3]]), [1 / 6])
    assert np.allclose(tet_volumes([[0, 0, 0], [1, 0, 0], [0, 1, 0], [0, 0, 1]], [[1, 0, 2, 3]]), [1 / 6])
    assert np.allclose(vertex_degrees(4, edges_of_faces(TF)), [3, 3, 3, 3])
    R = quat_to_matrix([0.3, -0.4, 0.5, 0.7])
    assert np.allclose(R @ R.T, np.eye(3)) and abs(np.linalg.det(R) - 1) < 1e-12
    assert np.allclose(faces_to_vertices(T, TF, [2.5] * 4, "angle"), [2.5] * 4)
    assert np.allclose(faces_to_vertices(T, TF, [2.5] * 4, "sum"), [7.5] * 4)
