"""Hypothesis strategies constructing conforming tetrahedral meshes. Realised dict {"V","C","tags"}."""
import math, random, itertools
import numpy as np
from hypothesis import strategies as st
from .topo import TetRef, SurfRef, key


def lib_det(V, c):
    """the library's signed volume expression det(pA-pD, pB-pD, pC-pD) for cell (A,B,C,D)"""
    A, B, C, D = (np.array(V[v], dtype=float) for v in c)
    return float(np.linalg.det(np.array([A - D, B - D, C - D])))


def orient_all(V, C, positive=True):
    out = []
    for c in C:
        d = lib_det(V, c)
        if (d > 0) != positive:
            c = [c[1], c[0], c[2], c[3]]
        out.append(list(c))
    return out


def single():
    return [[0, 0, 0], [1, 0, 0], [0, 1, 0], [0, 0, 1]], [[0, 1, 2, 3]]


def two():
    return [[0, 0, 0], [1, 0, 0], [0, 1, 0], [0.3, 0.3, 1], [0.3, 0.3, -1]], [[0, 1, 2, 3], [0, 2, 1, 4]]


def around_edge(k, closed=True):
    """k tets around the edge (0,1); closed: interior edge"""
    V = [[0, 0, -1.0], [0, 0, 1.0]]
    n = k if closed else k + 1
    for i in range(n):
        a = 2 * math.pi * i / (k if closed else (k + 2))
        V.append([math.cos(a), math.sin(a), 0.0])
    C = []
    for i in range(k):
        C.append([0, 1, 2 + i, 2 + (i + 1) % n])
    return V, C


def kuhn(a, b, c):
    """Kuhn / Freudenthal subdivision of an a x b x c box grid: 6 tets per cube, conforming."""
    idx = lambda i, j, k: (k * (b + 1) + j) * (a + 1) + i
    V = [[float(i), float(j), float(k)] for k in range(c + 1) for j in range(b + 1) for i in range(a + 1)]
    C = []
    for k in range(c):
        for j in range(b):
            for i in range(a):
                for perm in itertools.permutations(range(3)):
                    p = [i, j, k]
                    path = [idx(*p)]
                    for ax in perm:
                        p[ax] += 1
                        path.append(idx(*p))
                    C.append(path)
    return V, C


def split14(V, C, i):
    k = i % len(C)
    c = C[k]
    ctr = np.mean([V[v] for v in c], axis=0).tolist()
    n = len(V)
    new = [[n if j == m else c[j] for j in range(4)] for m in range(4)]
    return V + [ctr], C[:k] + new + C[k + 1:]


def remove_cell(V, C, i):
    if len(C) <= 1:
        return None
    k = i % len(C)
    return V, C[:k] + C[k + 1:]


def boundary_surface(C):
    ref = TetRef(1 + max(v for c in C for v in c), C)
    faces = []
    for iC, c in enumerate(ref.C):
        TF = [(1, 3, 2), (0, 2, 3), (3, 1, 0), (0, 1, 2)]
        for i in range(4):
            f = tuple(c[j] for j in TF[i])
            if len(ref.f2c[key(f)]) == 1:
                faces.append(f)
    return faces


def valid(V, C):
    if not C:
        return False
    ref = TetRef(len(V), C)
    if ref.validate() is not None:
        return False
    # the boundary must be a manifold surface *as an unoriented complex*: each boundary edge in exactly 2 boundary faces,
    # every boundary vertex link a single cycle.  Orientation of stored cells is arbitrary, so orient per-cell by geometry.
    bf = list(ref.border_faces())
    ecount = {}
    for f in bf:
        for i in range(3):
            e = key(f[i], f[(i + 1) % 3])
            ecount[e] = ecount.get(e, 0) + 1
    if any(n != 2 for n in ecount.values()):
        return False
    # vertex links on the boundary
    v2f = {}
    for f in bf:
        for v in f:
            v2f.setdefault(v, []).append(f)
    for v, fs in v2f.items():
        # link graph: vertices = other vertices, edges = faces
        adj = {}
        for f in fs:
            a, b = [x for x in f if x != v]
            adj.setdefault(a, []).append(b); adj.setdefault(b, []).append(a)
        start = next(iter(adj)); seen = {start}; stack = [start]
        while stack:
            x = stack.pop()
            for y in adj[x]:
                if y not in seen:
                    seen.add(y); stack.append(y)
        if len(seen) != len(adj):
            return False
    # cells connected through faces? (not required) ; no degenerate geometry
    for c in C:
        if abs(lib_det(V, c)) < 1e-6:
            return False
    return True


def relabel(V, C, seed, parity_mode):
    rnd = random.Random(seed)
    nV = len(V)
    perm = list(range(nV)); rnd.shuffle(perm)
    V2 = [None] * nV
    for o, n in enumerate(perm):
        V2[n] = V[o]
    C2 = [[perm[v] for v in c] for c in C]
    out = []
    for c in C2:
        c = list(c); rnd.shuffle(c)
        out.append(c)
    rnd.shuffle(out)
    if parity_mode == "positive":
        out = orient_all(V2, out, True)
    elif parity_mode == "negative":
        out = orient_all(V2, out, False)
    return V2, out


def tags_of(V, C):
    ref = TetRef(len(V), C)
    t = [f"cells={min(len(C), 50) // 10 * 10}+"]
    bv = ref.border_vertices()
    used = set(v for c in C for v in c)
    if used - bv:
        t.append("interior-vertex")
    if ref.ekeys - ref.border_edges():
        t.append("interior-edge")
    if any(len(cs) == 2 for cs in ref.f2c.values()):
        t.append("interior-face")
    signs = set(lib_det(V, c) > 0 for c in C)
    t.append("all-positive" if signs == {True} else "all-negative" if signs == {False} else "mixed-orientation")
    return t


@st.composite
def tets(draw, max_cells=60, parity=None):
    base = draw(st.sampled_from(["single", "two", "ring_closed", "ring_open", "kuhn", "kuhn", "delaunay"] * 2 + ["cavity"]))
    a = draw(st.integers(0, 5)); b = draw(st.integers(0, 5)); c = draw(st.integers(0, 5))
    if base == "cavity" and max_cells < 30:
        base = "kuhn"          # (156 cells: only for callers that accept meshes of that size)
    if base == "single":
        V, C = single()
    elif base == "two":
        V, C = two()
    elif base == "ring_closed":
        V, C = around_edge(3 + a % 5, True)
    elif base == "ring_open":
        V, C = around_edge(1 + a % 5, False)
    elif base == "kuhn":
        V, C = kuhn(1 + a % 2, 1 + b % 2, 1 + c % 2)
    elif base == "cavity":
        # a 3 x 3 x 3 block of cubes whose centre cube is missing: the boundary has a second component (the cavity wall) that
        # encloses a negative volume when oriented away from the material
        V, C = kuhn(3, 3, 3)
        k0 = ((1 * 3 + 1) * 3 + 1) * 6
        C = C[:k0] + C[k0 + 6:]
    else:
        from scipy.spatial import Delaunay
        n = 5 + a + b
        rnd = np.random.RandomState(draw(st.integers(0, 10 ** 6)))
        P = rnd.uniform(0, 3, (n, 3))
        try:
            d = Delaunay(P)
            V, C = P.tolist(), [list(map(int, s)) for s in d.simplices]
            C = [cc for cc in C if abs(lib_det(V, cc)) > 1e-3]
            used = sorted(set(v for cc in C for v in cc))
            mp = {v: i for i, v in enumerate(used)}
            V = [V[v] for v in used]; C = [[mp[v] for v in cc] for cc in C]
            if not valid(V, C):
                V, C = kuhn(1, 1, 1)
        except Exception:
            V, C = kuhn(1, 1, 1)
    V = [[float(x) for x in v] for v in V]
    tags = ["base=" + base]
    # (many 1-4 splits of few cells give many interior vertices next to a handful of border vertices: with a random numbering
    #  the border vertices then carry large ids)
    ops = draw(st.lists(st.tuples(st.sampled_from(["split14", "split14", "remove"]), st.integers(0, 500)), max_size=draw(st.sampled_from([4, 4, 10]))))
    for op, i in ops:
        if len(C) >= max_cells:
            break
        r = split14(V, C, i) if op == "split14" else remove_cell(V, C, i)
        if r is None or not valid(*r):
            continue
        V, C = r
        tags.append("op=" + op)
    # drop unused vertices
    used = sorted(set(v for cc in C for v in cc))
    mp = {v: i for i, v in enumerate(used)}
    V = [V[v] for v in used]; C = [[mp[v] for v in cc] for cc in C]
    if draw(st.booleans()):
        rnd = np.random.RandomState(draw(st.integers(0, 1000)))
        Vj = (np.array(V) + rnd.uniform(-0.04, 0.04, (len(V), 3))).tolist()
        # jitter must not invert or nearly flatten any cell (it would make the complex overlap itself)
        d0 = [lib_det(V, cc) for cc in C]; d1 = [lib_det(Vj, cc) for cc in C]
        if valid(Vj, C) and all(x * y > 0 and abs(y) >= 0.5 * abs(x) for x, y in zip(d0, d1)):
            V = Vj
    pm = parity if parity is not None else draw(st.sampled_from(["positive", "positive", "negative", "mixed"]))
    if draw(st.booleans()):
        V, C = relabel(V, C, draw(st.integers(0, 10000)), pm)
        tags.append("relabelled")
    else:
        if pm == "positive":
            C = orient_all(V, C, True)
        elif pm == "negative":
            C = orient_all(V, C, False)
    assert valid(V, C), "generator produced an invalid tet mesh"
    return {"V": V, "C": [list(map(int, cc)) for cc in C], "tags": tags + tags_of(V, C)}
