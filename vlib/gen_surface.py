"""Hypothesis strategies constructing oriented manifold polygon surfaces (combinatorics built here,
never by mouette.procedural).  Every strategy returns a realised dict {"V": [[x,y,z]..], "F": [[..]..], "tags": [...]}.
"""
import math, random
import numpy as np
from hypothesis import strategies as st
from .topo import SurfRef, key


# ----------------------------------------------------------------------------- base shapes

def grid(nu, nv, wrap_u=False, wrap_v=False):
    """nu x nv quads. wrap_u: periodic in u (needs nu>=3). Embedding: plane / cylinder / torus."""
    cu = nu if wrap_u else nu + 1
    cv = nv if wrap_v else nv + 1
    V = []
    for j in range(cv):
        for i in range(cu):
            if wrap_u and wrap_v:
                a = 2 * math.pi * i / nu; b = 2 * math.pi * j / nv
                R, r = 2.0, 0.8
                V.append([(R + r * math.cos(b)) * math.cos(a), (R + r * math.cos(b)) * math.sin(a), r * math.sin(b)])
            elif wrap_u:
                a = 2 * math.pi * i / nu
                V.append([math.cos(a), math.sin(a), 2.0 * j / max(nv, 1)])
            elif wrap_v:
                b = 2 * math.pi * j / nv
                V.append([2.0 * i / max(nu, 1), math.cos(b), math.sin(b)])
            else:
                V.append([float(i), float(j), 0.0])
    idx = lambda i, j: (j % cv) * cu + (i % cu)
    F = []
    for j in range(nv):
        for i in range(nu):
            q = [idx(i, j), idx(i + 1, j), idx(i + 1, j + 1), idx(i, j + 1)]
            if wrap_v and not wrap_u:
                q = q[::-1]
            F.append(q)
    return V, F


def tetrahedron():
    V = [[1, 1, 1], [1, -1, -1], [-1, 1, -1], [-1, -1, 1]]
    F = [[0, 1, 2], [0, 3, 1], [0, 2, 3], [1, 3, 2]]
    return [[float(x) for x in v] for v in V], F


def cube():
    V = [[0, 0, 0], [1, 0, 0], [1, 1, 0], [0, 1, 0], [0, 0, 1], [1, 0, 1], [1, 1, 1], [0, 1, 1]]
    F = [[0, 3, 2, 1], [4, 5, 6, 7], [0, 1, 5, 4], [1, 2, 6, 5], [2, 3, 7, 6], [3, 0, 4, 7]]
    return [[float(x) for x in v] for v in V], F


def octahedron():
    V = [[1, 0, 0], [-1, 0, 0], [0, 1, 0], [0, -1, 0], [0, 0, 1], [0, 0, -1]]
    F = [[0, 2, 4], [2, 1, 4], [1, 3, 4], [3, 0, 4], [2, 0, 5], [1, 2, 5], [3, 1, 5], [0, 3, 5]]
    return [[float(x) for x in v] for v in V], F


def icosahedron():
    p = (1 + math.sqrt(5)) / 2
    V = [[-1, p, 0], [1, p, 0], [-1, -p, 0], [1, -p, 0], [0, -1, p], [0, 1, p], [0, -1, -p], [0, 1, -p],
         [p, 0, -1], [p, 0, 1], [-p, 0, -1], [-p, 0, 1]]
    F = [[0, 11, 5], [0, 5, 1], [0, 1, 7], [0, 7, 10], [0, 10, 11], [1, 5, 9], [5, 11, 4], [11, 10, 2], [10, 7, 6],
         [7, 1, 8], [3, 9, 4], [3, 4, 2], [3, 2, 6], [3, 6, 8], [3, 8, 9], [4, 9, 5], [2, 4, 11], [6, 2, 10],
         [8, 6, 7], [9, 8, 1]]
    return [[float(x) for x in v] for v in V], F


def prism(n):
    V = [[math.cos(2 * math.pi * i / n), math.sin(2 * math.pi * i / n), 0.0] for i in range(n)]
    V += [[math.cos(2 * math.pi * i / n), math.sin(2 * math.pi * i / n), 1.0] for i in range(n)]
    F = [list(range(n - 1, -1, -1)), list(range(n, 2 * n))]
    for i in range(n):
        j = (i + 1) % n
        F.append([i, j, n + j, n + i])
    return V, F


def antiprism(n):
    V = [[math.cos(2 * math.pi * i / n), math.sin(2 * math.pi * i / n), 0.0] for i in range(n)]
    V += [[math.cos(2 * math.pi * (i + .5) / n), math.sin(2 * math.pi * (i + .5) / n), 1.0] for i in range(n)]
    F = [list(range(n - 1, -1, -1)), list(range(n, 2 * n))]
    for i in range(n):
        j = (i + 1) % n
        F.append([i, j, n + i])
        F.append([j, n + j, n + i])
    return V, F


def bipyramid(n):
    V = [[math.cos(2 * math.pi * i / n), math.sin(2 * math.pi * i / n), 0.0] for i in range(n)] + [[0, 0, 1.0], [0, 0, -1.0]]
    F = []
    for i in range(n):
        j = (i + 1) % n
        F.append([i, j, n]); F.append([j, i, n + 1])
    return V, F


def fan(n, closed):
    """centre vertex 0 + n rim vertices; closed: n triangles (disk with interior vertex), open: n-1 triangles"""
    V = [[0.0, 0.0, 0.0]] + [[math.cos(2 * math.pi * i / (n if closed else n + 1)), math.sin(2 * math.pi * i / (n if closed else n + 1)), 0.0] for i in range(n)]
    F = [[0, 1 + i, 1 + (i + 1) % n] for i in range(n if closed else n - 1)]
    return V, F


def strip(n):
    """triangle strip with n triangles"""
    V = [[0.5 * i, float(i % 2), 0.0] for i in range(n + 2)]
    F = [[i, i + 1, i + 2] if i % 2 == 0 else [i + 1, i, i + 2] for i in range(n)]
    return V, F


def single_polygon(n):
    V = [[math.cos(2 * math.pi * i / n), math.sin(2 * math.pi * i / n), 0.0] for i in range(n)]
    return V, [list(range(n))]


BASES = ["grid", "cyl_u", "cyl_v", "torus", "tet", "cube", "octa", "icosa", "prism", "antiprism", "bipyramid",
         "fan_closed", "fan_open", "strip", "polygon"]


def build_base(name, a, b):
    """a,b small non-negative ints (parameters reduced into the admissible range)"""
    if name == "grid":
        return grid(1 + a % 5, 1 + b % 5)
    if name == "cyl_u":
        return grid(3 + a % 4, 1 + b % 4, wrap_u=True)
    if name == "cyl_v":
        return grid(1 + a % 4, 3 + b % 4, wrap_v=True)
    if name == "torus":
        return grid(3 + a % 3, 3 + b % 3, True, True)
    if name == "tet":
        return tetrahedron()
    if name == "cube":
        return cube()
    if name == "octa":
        return octahedron()
    if name == "icosa":
        return icosahedron()
    if name == "prism":
        return prism(3 + a % 5)
    if name == "antiprism":
        return antiprism(3 + a % 4)
    if name == "bipyramid":
        return bipyramid(3 + a % 5)
    if name == "fan_closed":
        return fan(3 + a % 6, True)
    if name == "fan_open":
        return fan(2 + a % 6, False)
    if name == "strip":
        return strip(1 + a % 8)
    if name == "polygon":
        return single_polygon(3 + a % 5)
    raise ValueError(name)


# ----------------------------------------------------------------------------- modifications

def _valid(V, F):
    return SurfRef(len(V), F).validate() is None


def op_delete_face(V, F, i):
    if len(F) <= 1:
        return None
    F2 = F[:i % len(F)] + F[i % len(F) + 1:]
    return V, F2


def op_split_poly(V, F, i, d):
    """split a face with >=4 vertices along a diagonal"""
    cands = [k for k, f in enumerate(F) if len(f) >= 4]
    if not cands:
        return None
    k = cands[i % len(cands)]
    f = F[k]; n = len(f)
    s = d % n
    t = (s + 2 + (d // n) % (n - 3)) % n
    # polygon s..t and t..s
    a = [f[(s + j) % n] for j in range(((t - s) % n) + 1)]
    b = [f[(t + j) % n] for j in range(((s - t) % n) + 1)]
    if len(a) < 3 or len(b) < 3:
        return None
    return V, F[:k] + [a, b] + F[k + 1:]


def op_merge_faces(V, F, i):
    ref = SurfRef(len(V), F)
    inner = sorted(e for e in ref.uedges if (e[0], e[1]) in ref.he and (e[1], e[0]) in ref.he)
    if not inner:
        return None
    a, b = inner[i % len(inner)]
    f1, i1 = ref.he[(a, b)]
    f2, i2 = ref.he[(b, a)]
    if f1 == f2:
        return None
    F1 = F[f1]; F2 = F[f2]
    # f1 contains a->b ; f2 contains b->a.  New face: from b around f1 to a, then from a around f2 to b (exclusive)
    n1, n2 = len(F1), len(F2)
    p1 = [F1[(i1 + 1 + j) % n1] for j in range(n1)]      # starts at b, ends at a
    p2 = [F2[(i2 + 1 + j) % n2] for j in range(n2)]      # starts at a, ends at b
    new = p1[:-1] + p2[:-1]                               # b ... (before a) + a ... (before b)
    if len(set(new)) != len(new) or len(new) > 8:
        return None
    keep = [f for k, f in enumerate(F) if k not in (f1, f2)]
    return V, keep + [new]


def op_tri_1to3(V, F, i):
    k = i % len(F)
    f = F[k]
    c = np.mean([V[v] for v in f], axis=0).tolist()
    nv = len(V)
    n = len(f)
    new = [[f[j], f[(j + 1) % n], nv] for j in range(n)]
    return V + [c], F[:k] + new + F[k + 1:]


def op_edge_split(V, F, i):
    ref = SurfRef(len(V), F)
    es = sorted(ref.uedges)
    a, b = es[i % len(es)]
    nv = len(V)
    m = ((np.array(V[a]) + np.array(V[b])) / 2).tolist()
    F2 = []
    for f in F:
        n = len(f); g = []
        for j in range(n):
            g.append(f[j])
            if key(f[j], f[(j + 1) % n]) == (a, b):
                g.append(nv)
        F2.append(g)
    return V + [m], F2


def op_edge_flip(V, F, i):
    ref = SurfRef(len(V), F)
    cands = sorted(e for e in ref.uedges if (e[0], e[1]) in ref.he and (e[1], e[0]) in ref.he
                   and len(F[ref.he[(e[0], e[1])][0]]) == 3 and len(F[ref.he[(e[1], e[0])][0]]) == 3)
    if not cands:
        return None
    a, b = cands[i % len(cands)]
    f1, i1 = ref.he[(a, b)]; f2, i2 = ref.he[(b, a)]
    c = F[f1][(i1 + 2) % 3]; d = F[f2][(i2 + 2) % 3]
    if c == d or key(c, d) in ref.uedges:
        return None
    keep = [f for k, f in enumerate(F) if k not in (f1, f2)]
    return V, keep + [[c, d, b], [d, c, a]]


def op_triangulate_all(V, F, i):
    out = []
    for f in F:
        n = len(f)
        s = i % n
        g = f[s:] + f[:s]
        for j in range(1, n - 1):
            out.append([g[0], g[j], g[j + 1]])
    return V, out


OPS = {"del": op_delete_face, "split": op_split_poly, "merge": op_merge_faces, "1to3": op_tri_1to3,
       "esplit": op_edge_split, "flip": op_edge_flip}


def connected_sum(V1, F1, V2, F2, i, j):
    t1 = [k for k, f in enumerate(F1) if len(f) == 3]
    t2 = [k for k, f in enumerate(F2) if len(f) == 3]
    if not t1 or not t2:
        return None
    k1 = t1[i % len(t1)]; k2 = t2[j % len(t2)]
    a = F1[k1]; b = F2[k2]
    n1 = len(V1)
    # identify b0->a0, b1->a2, b2->a1 (reversed orientation so that the glued surface is oriented)
    ident = {b[0]: a[0], b[1]: a[2], b[2]: a[1]}
    remap = {}
    V = [list(v) for v in V1]
    off = np.array([6.0, 0.5, 0.25])
    for v in range(len(V2)):
        if v in ident:
            remap[v] = ident[v]
        else:
            remap[v] = len(V)
            V.append((np.array(V2[v]) + off).tolist())
    F = [f for k, f in enumerate(F1) if k != k1] + [[remap[v] for v in f] for k, f in enumerate(F2) if k != k2]
    return V, F


def disjoint_union(V1, F1, V2, F2):
    n1 = len(V1)
    off = np.array([0.0, 0.0, 5.0])
    return [list(v) for v in V1] + [(np.array(v) + off).tolist() for v in V2], [list(f) for f in F1] + [[n1 + v for v in f] for f in F2]


def compact(V, F):
    used = sorted(set(v for f in F for v in f))
    m = {v: i for i, v in enumerate(used)}
    return [V[v] for v in used], [[m[v] for v in f] for f in F]


def relabel(V, F, seed, do_vperm=True, do_fperm=True, do_rot=True, reverse=False):
    rnd = random.Random(seed)
    nV = len(V)
    perm = list(range(nV))
    if do_vperm:
        rnd.shuffle(perm)                       # perm[old] = new
    V2 = [None] * nV
    for o, n in enumerate(perm):
        V2[n] = V[o]
    F2 = [[perm[v] for v in f] for f in F]
    if do_rot:
        F2 = [f[(s := rnd.randrange(len(f))):] + f[:s] for f in F2]
    if reverse:
        F2 = [f[::-1] for f in F2]
    if do_fperm:
        rnd.shuffle(F2)
    return V2, F2, perm


def jitter(V, seed, amp):
    if amp <= 0:
        return V
    rnd = np.random.RandomState(seed % (2 ** 31))
    A = np.array(V, dtype=float)
    A = A + rnd.uniform(-amp, amp, A.shape)
    return A.tolist()


def rigid(V, seed):
    rnd = np.random.RandomState(seed % (2 ** 31))
    q = rnd.normal(size=4); q /= np.linalg.norm(q)
    a, b, c, d = q
    R = np.array([[a*a+b*b-c*c-d*d, 2*(b*c-a*d), 2*(b*d+a*c)], [2*(b*c+a*d), a*a-b*b+c*c-d*d, 2*(c*d-a*b)],
                  [2*(b*d-a*c), 2*(c*d+a*b), a*a-b*b-c*c+d*d]])
    t = rnd.uniform(-3, 3, 3)
    return (np.array(V) @ R.T + t).tolist()


# ----------------------------------------------------------------------------- strategies

def tags_of(V, F):
    ref = SurfRef(len(V), F)
    loops = ref.border_loops() or []
    ar = set(len(f) for f in F)
    t = ["closed" if not loops else "bordered", f"loops={min(len(loops), 4)}",
         "tri" if ar == {3} else "quad" if ar == {4} else "mixed34" if ar <= {3, 4} else "polygon",
         f"comps={min(ref.n_face_components(), 3)}"]
    nc = ref.n_face_components()
    chi = ref.euler()
    if nc == 1:
        g2 = 2 - chi - len(loops)
        t.append(f"genus={g2 // 2}" if g2 % 2 == 0 else "genus=?")
    return t


@st.composite
def surfaces(draw, max_faces=80, triangulated=False, bases=None, allow_union=True, allow_sum=True,
             max_ops=6, relabel_prob=True, keep_isolated=False, jitter_amp=0.05, planar_only=False, min_faces=1):
    names = bases or BASES
    if planar_only:
        names = [n for n in names if n in ("grid", "fan_closed", "fan_open", "strip", "polygon")]
    name = draw(st.sampled_from(names))
    a = draw(st.integers(0, 7)); b = draw(st.integers(0, 7))
    V, F = build_base(name, a, b)
    tags = ["base=" + name]
    if allow_sum and not planar_only and draw(st.integers(0, 9)) == 0:
        n2 = draw(st.sampled_from(["torus", "tet", "octa", "icosa", "bipyramid", "antiprism"]))
        V2, F2 = build_base(n2, draw(st.integers(0, 3)), draw(st.integers(0, 3)))
        # triangulate so that a triangle exists on both
        V1t, F1t = op_triangulate_all(V, F, 0)
        V2t, F2t = op_triangulate_all(V2, F2, 0)
        r = connected_sum(V1t, F1t, V2t, F2t, draw(st.integers(0, 50)), draw(st.integers(0, 50)))
        if r is not None and _valid(*r):
            V, F = r
            tags.append("sum=" + n2)
    elif allow_union and not planar_only and draw(st.integers(0, 9)) == 0:
        n2 = draw(st.sampled_from(names))
        V2, F2 = build_base(n2, draw(st.integers(0, 3)), draw(st.integers(0, 3)))
        V, F = disjoint_union(V, F, V2, F2)
        tags.append("union=" + n2)
    ops = draw(st.lists(st.tuples(st.sampled_from(sorted(OPS)), st.integers(0, 200), st.integers(0, 40)), max_size=max_ops))
    skipped = 0
    for (op, i, d) in ops:
        if len(F) >= max_faces:
            break
        r = OPS[op](V, F, i, d) if op == "split" else OPS[op](V, F, i)
        if r is None or not r[1] or not _valid(r[0], r[1]):
            skipped += 1
            continue
        V, F = r
        tags.append("op=" + op)
    if triangulated:
        V, F = op_triangulate_all(V, F, draw(st.integers(0, 3)))
        if not _valid(V, F):
            V, F = op_triangulate_all(*build_base(name, a, b), 0)
    if not keep_isolated:
        V, F = compact(V, F)
    amp = draw(st.sampled_from([0.0, jitter_amp]))
    V = jitter(V, draw(st.integers(0, 1000)), amp) if amp else [[float(x) for x in v] for v in V]
    if planar_only:
        V = [[v[0], v[1], 0.0] for v in V]
    if relabel_prob and draw(st.booleans()):
        V, F, _ = relabel(V, F, draw(st.integers(0, 10000)), reverse=draw(st.booleans()))
        tags.append("relabelled")
    err = SurfRef(len(V), F).validate()
    if err is not None:
        raise AssertionError("generator produced an invalid surface: " + err)
    if len(F) < min_faces:
        V, F = build_base("grid", 2, 2)
    return {"V": V, "F": [list(map(int, f)) for f in F], "tags": tags + tags_of(V, F)}


def min_angle_deg(V, F):
    A = np.array(V)
    m = 180.0
    for f in F:
        n = len(f)
        for i in range(n):
            p, q, r = A[f[i - 1]], A[f[i]], A[f[(i + 1) % n]]
            u, w = p - q, r - q
            nu, nw = np.linalg.norm(u), np.linalg.norm(w)
            if nu < 1e-12 or nw < 1e-12:
                return 0.0
            c = np.clip(np.dot(u, w) / (nu * nw), -1, 1)
            m = min(m, math.degrees(math.acos(c)))
    return m


def max_angle_deg(V, F):
    A = np.array(V)
    m = 0.0
    for f in F:
        n = len(f)
        for i in range(n):
            p, q, r = A[f[i - 1]], A[f[i]], A[f[(i + 1) % n]]
            u, w = p - q, r - q
            c = np.clip(np.dot(u, w) / (np.linalg.norm(u) * np.linalg.norm(w)), -1, 1)
            m = max(m, math.degrees(math.acos(c)))
    return m


@st.composite
def well_shaped_trisurf(draw, max_faces=80, bordered=None, closed_bases=("tet", "octa", "icosa", "bipyramid", "antiprism", "torus"),
                        open_bases=("grid", "cyl_u", "fan_closed", "fan_open", "strip", "polygon"), min_angle=8.0, relabel_ok=True):
    """Triangulated, min angle >= min_angle and max angle <= 170 by construction (fallback to un-jittered base)."""
    if bordered is None:
        bordered = draw(st.booleans())
    name = draw(st.sampled_from(list(open_bases if bordered else closed_bases)))
    a = draw(st.integers(0, 7)); b = draw(st.integers(0, 7))
    V0, F0 = build_base(name, a, b)
    tags = ["base=" + name]
    V, F = V0, F0
    ops = draw(st.lists(st.tuples(st.sampled_from(["1to3", "flip", "esplit", "del"] if bordered else ["1to3", "flip", "esplit"]),
                                  st.integers(0, 200)), max_size=3))
    for op, i in ops:
        if len(F) >= max_faces:
            break
        r = OPS[op](V, F, i)
        if r is None or not _valid(*r):
            continue
        Vt, Ft = op_triangulate_all(r[0], r[1], 0)
        if min_angle_deg(Vt, Ft) < min_angle + 4 or max_angle_deg(Vt, Ft) > 165:
            continue
        V, F = r
        tags.append("op=" + op)
    V, F = op_triangulate_all(V, F, draw(st.integers(0, 1)))
    V, F = compact(V, F)
    if not _valid(V, F) or min_angle_deg(V, F) < min_angle or max_angle_deg(V, F) > 170:
        V, F = compact(*op_triangulate_all(V0, F0, 0))
    Vj = jitter(V, draw(st.integers(0, 1000)), draw(st.sampled_from([0.0, 0.03, 0.08])))
    if min_angle_deg(Vj, F) >= min_angle and max_angle_deg(Vj, F) <= 170:
        V = Vj
    if relabel_ok and draw(st.booleans()):
        V, F, _ = relabel(V, F, draw(st.integers(0, 10000)))
        tags.append("relabelled")
    V = [[float(x) for x in v] for v in V]
    assert SurfRef(len(V), F).validate() is None
    return {"V": V, "F": [list(map(int, f)) for f in F], "tags": tags + tags_of(V, F)}


@st.composite
def delaunay_disks(draw, max_pts=30, ear_removals=3, height=True):
    """Delaunay triangulation of drawn planar points; optional removal of border triangles (creates chords,
    non-convex borders); result is a triangulated disk (validated), else falls back to the plain triangulation."""
    from scipy.spatial import Delaunay
    n = draw(st.integers(4, max_pts))
    seed = draw(st.integers(0, 10 ** 6))
    rnd = np.random.RandomState(seed)
    # blue-noise-ish points: jittered grid subset keeps triangles reasonably shaped
    k = int(math.ceil(math.sqrt(n))) + 1
    cells = [(i, j) for i in range(k) for j in range(k)]
    rnd.shuffle(cells)
    P = np.array([[i + 0.5 + rnd.uniform(-0.3, 0.3), j + 0.5 + rnd.uniform(-0.3, 0.3)] for (i, j) in cells[:n]])
    tri = Delaunay(P)
    F = [list(map(int, t)) for t in tri.simplices]
    # orient counter-clockwise
    F2 = []
    for t in F:
        a, b, c = P[t[0]], P[t[1]], P[t[2]]
        ar = (b[0] - a[0]) * (c[1] - a[1]) - (b[1] - a[1]) * (c[0] - a[0])
        if abs(ar) < 1e-9:
            continue
        F2.append(t if ar > 0 else [t[0], t[2], t[1]])
    F = F2
    V = [[float(p[0]), float(p[1]), 0.0] for p in P]
    tags = ["base=delaunay"]

    def is_disk(V, F):
        if not F:
            return False
        Vc, Fc = compact(V, F)
        r = SurfRef(len(Vc), Fc)
        if r.validate() is not None:
            return False
        loops = r.border_loops()
        return loops is not None and len(loops) == 1 and r.n_face_components() == 1 and r.euler() == 1

    nrem = draw(st.integers(0, ear_removals))
    for _ in range(nrem):
        ref = SurfRef(len(V), F)
        cands = [k for k, f in enumerate(F) if any(ref.edge_on_border(f[i], f[(i + 1) % 3]) for i in range(3))]
        if not cands or len(F) <= 2:
            break
        k = cands[draw(st.integers(0, 100)) % len(cands)]
        F3 = F[:k] + F[k + 1:]
        if is_disk(V, F3):
            F = F3
            tags.append("ear-removed")
    V, F = compact(V, F)
    if not is_disk(V, F):
        V, F = compact(*op_triangulate_all(*grid(2, 2), 0))
    if height and draw(st.booleans()):
        V = [[v[0], v[1], 0.3 * math.sin(v[0]) * math.cos(0.7 * v[1])] for v in V]
        tags.append("height")
    return {"V": V, "F": F, "tags": tags + tags_of(V, F)}


def has_chord(V, F):
    ref = SurfRef(len(V), F)
    bv = ref.border_vertices()
    return any((a in bv and b in bv and not ref.edge_on_border(a, b)) for (a, b) in ref.uedges)


def n_ears(F, nV):
    ref = SurfRef(nV, F)
    c = 0
    for f in F:
        n = len(f)
        if sum(1 for i in range(n) if ref.edge_on_border(f[i], f[(i + 1) % n])) >= 2:
            c += 1
    return c
