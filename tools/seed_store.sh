#!/bin/sh
# usage: tools/seed_store.sh <CXX> <srcdir> <K> <note>
# Full verification of a seeded change (demo both ways, baseline tests, registered quick check) and storage under seeded/<CXX>-<K>/
P=$1; SRC=$2; K=$3; NOTE=$4; NAME=${SEED_NAME:-$P-$K}
cd "$(dirname "$0")/.."
OUT=$(tools/seed_eval.sh "$P" "$SRC" "$K" 2>&1)
echo "== $NAME"; echo "$OUT"
DEMO_OK=$(echo "$OUT" | grep -c "demo_on_repo=0 demo_on_patched=1")
TESTS_OK=$(echo "$OUT" | grep -c "tests_missing_from_baseline=0")
CAUGHT=$(echo "$OUT" | grep -c "^VIOLATION")
SIG=$(echo "$OUT" | grep "signature=" | head -1 | sed 's/.*signature=\([^ ]*\).*/\1/')
if [ "$DEMO_OK" = "1" ] && [ "$TESTS_OK" = "1" ]; then
  mkdir -p "seeded/$NAME"
  cp "$SRC/change$K.diff" "seeded/$NAME/patch.diff"
  cp "$SRC/demo$K.py" "seeded/$NAME/demo.py"
  /venv/bin/python - "$SRC/meta$K.json" "seeded/$NAME/meta.json" "$P" "$CAUGHT" "$SIG" "$NOTE" <<'PY'
import sys, json
src, dst, prop, caught, sig, note = sys.argv[1:7]
m = json.load(open(src))
out = {"property": prop, "summary": m.get("summary"), "needs": m.get("needs"), "files": m.get("files"),
       "origin": "independent sub-agent given only the property text and a scratch worktree of /repo",
       "verified": {"demo_passes_on_repo": True, "demo_fails_with_patch": True, "baseline_tests_still_pass": True,
                    "how": "tools/seed_eval.sh: patch applied to a scratch copy of /repo (mouette + tests), demo run with PYTHONPATH on both trees, repo test suite compared with BASELINE stable_pass, then `check.py <prop> quick` with MOUETTE_REPO on the patched copy"},
       "caught_by_quick_check": bool(int(caught)), "first_signature": sig or None, "note": note}
json.dump(out, open(dst, "w"), indent=1)
PY
  echo "stored seeded/$NAME caught=$CAUGHT sig=$SIG"
else
  echo "NOT STORED $NAME demo_ok=$DEMO_OK tests_ok=$TESTS_OK"
fi
